"""C13  Address ==, <, hash are lawful and provenance-independent; endpoints agree."""
import ipaddress
import socket

ID = "C13"
SRC = ["scen/address_order.cpp"]
HARNESSES = {
    "address_order": dict(sources=SRC, flavour="asan", mode="C13", timeout=60),
    "default": dict(name="address_order", sources=SRC, flavour="asan", mode="C13", timeout=60),
}
RULE = ("per case 30-90 Addresses of mixed provenance: text in every spelling (h:p, [h]:p, scheme://, /path, pair) for special, "
        "random, high-bit and single-bit-neighbour IPv4/IPv6 literals incl. scoped link-local by name and by index; Address(port); "
        "LocalAddresses(); LocalAddress/PeerAddress of real sockets of every class (SocketUdp, buffered, async; Acceptor, "
        "AcceptorAsync; SocketTcp, buffered, async) bound to loopback / interface addresses with port 0; ReceiveFrom sources; "
        "accept-/connect-handler-reported peers; disconnect-handler peers; re-parsed to_string()/accessor text of any of them. "
        "Then == != < hash on ALL pairs (cmpall), transitivity on all triples of the reported relation, std::map / "
        "std::unordered_map lookups of every address. non-trivial = a case with cmpall in which at least one pair of "
        "different provenance compared equal; distinct op sequences.")
ASSUMPTIONS = [
    "x86-64 Linux sockaddr layout (family LE, port BE, scope id LE; lengths 16/28) - checked per address by the canonical-image test",
    "that the kernel / glibc interfaces (getaddrinfo, getsockname, getpeername, recvfrom, accept, getifaddrs) produce the canonical "
    "image for an endpoint is tested on every run, not proved (provenance hypothesis of encode_injective)",
    "the field tuple of an Address is read through its own accessors (Host() via inet_pton, Port(), IsV6(), %scope)",
]
TRUSTED = ["lean/SockModel/Drive/C13.lean: only the PARSING of transcript lines into the typed observations of Spec/C13.lean and the correspondence "
           "checks (the property clauses themselves are Spec/C13.lean: specStep/specRun, proved to accept every trace of the model: spec_holds_on_model)",
           "the environment part of the model scenario (Spec/C13.lean modelStep): the kernel reports one endpoint identically through getsockname / "
           "getpeername / accept / recvfrom, except that an IPv6 socket sees an IPv4 endpoint v4-mapped (seenBy); the ports it assigns are non-zero",
           "tools/cxx2lean.py (source-derived tie, DESIGN.md 0.7): clang-14 JSON AST, chrono unit semantics read from the desugared types, unbounded Int for signed arithmetic (overflow = UB), abstract memcmp / container queries",
           "libstdc++ std::map / std::unordered_map / hash<string_view> (modelled as sorted list / bucket list / function of the bytes)"]
ALL_TAGS = ["connectvia", "parse", "pair", "port", "locals", "respell", "udp.plain", "udp.buf", "udp.async", "dgram",
            "acceptor.plain", "acceptor.async", "connect.plain", "connect.buf", "connect.async", "close",
            "v4", "v6", "scoped", "cmp.eq", "cmp.eq.xprov", "cmp.lt", "cmp.gt", "cmp.mixed", "cmpall", "maps"]
EXHAUSTIVE = {"thorough": False}
SHRINK = True


def hx(s):
    b = s.encode() if isinstance(s, str) else s
    return b.hex() if b else "-"


def nontrivial(ops, tags):
    return "cmpall" in tags and "cmp.eq.xprov" in tags


def ifaces():
    try:
        return [(i, n) for i, n in socket.if_nameindex() if n != "lo"]
    except OSError:
        return []


SPECIAL4 = ["127.0.0.1", "127.0.0.2", "0.0.0.0", "255.255.255.255", "128.0.0.1", "127.255.255.255", "1.2.3.4", "192.0.2.2", "224.0.0.1"]
SPECIAL6 = ["::1", "::", "::ffff:1.2.3.4", "fe80::1", "ff02::1", "8000::", "7fff:ffff:ffff:ffff:ffff:ffff:ffff:ffff",
            "ffff:ffff:ffff:ffff:ffff:ffff:ffff:ffff", "2001:db8::1", "::2", "::1:0"]
PORTS = [0, 1, 79, 80, 255, 256, 443, 1023, 1024, 32767, 32768, 65534, 65535]


def spell(rng, host, port, v6, style):
    """-> op (without label) for one text spelling of (host, port)"""
    hp = ("[%s]:%d" % (host, port)) if (v6 or style == "bracket") else "%s:%d" % (host, port)
    if style == "pair":
        return "pair", [hx(host), hx(str(port))]
    if style == "scheme":
        return "parse", [hx(rng.choice(["tcp", "udp", "x", "a_1", "HTTP"]) + "://" + hp)]
    if style == "path":
        return "parse", [hx(hp + rng.choice(["/", "/a/b", "/x?y=1:2", "/[::]:1"]))]
    if style == "full":
        return "parse", [hx("s9://" + hp + "/p/q?r#s")]
    return "parse", [hx(hp)]


def rand_case(rng, tier):
    ops = []
    labels = []          # labels we expect to exist
    n = [0]

    def fresh(p):
        n[0] += 1
        return "%s%d" % (p, n[0])

    def add_text(host, port, v6, style=None):
        style = style or rng.choice(["plain", "plain", "bracket", "pair", "scheme", "path", "full"])
        kind, args = spell(rng, host, port, v6, style)
        l = fresh("t")
        ops.append(" ".join([kind, l] + args))
        labels.append(l)
        return l

    nics = ifaces()
    # --- text addresses: specials, random, single-bit neighbours -------------
    for _ in range(rng.randrange(3, 8)):
        if rng.random() < 0.5:
            host = rng.choice(SPECIAL4) if rng.random() < 0.6 else str(ipaddress.IPv4Address(rng.getrandbits(32)))
            v6 = False
        else:
            host = rng.choice(SPECIAL6) if rng.random() < 0.6 else str(ipaddress.IPv6Address(rng.getrandbits(128)))
            v6 = True
        port = rng.choice(PORTS) if rng.random() < 0.6 else rng.randrange(65536)
        add_text(host, port, v6)
        if rng.random() < 0.7:   # the same endpoint in another spelling
            add_text(host, port, v6)
        if rng.random() < 0.7:   # a neighbour differing in one bit of host or port
            if rng.random() < 0.5:
                if v6:
                    h2 = str(ipaddress.IPv6Address(int(ipaddress.IPv6Address(host)) ^ (1 << rng.randrange(128))))
                else:
                    h2 = str(ipaddress.IPv4Address(int(ipaddress.IPv4Address(host)) ^ (1 << rng.randrange(32))))
                add_text(h2, port, v6)
            else:
                add_text(host, port ^ (1 << rng.randrange(16)), v6)
    if nics and rng.random() < 0.8:
        idx, name = rng.choice(nics)
        port = rng.choice(PORTS)
        add_text("fe80::1%" + name, port, True, rng.choice(["bracket", "pair", "scheme"]))
        add_text("fe80::1%%%d" % idx, port, True, rng.choice(["bracket", "pair"]))
        add_text("fe80::1", port, True, "bracket")
    for _ in range(rng.randrange(1, 4)):
        l = fresh("p")
        ops.append("port %s %d" % (l, rng.choice(PORTS + [rng.randrange(65536)])))
        labels.append(l)
    if rng.random() < 0.5:   # what Address(port) should equal
        add_text("127.0.0.1", rng.choice(PORTS), False)
    ops.append("locals L")
    local_labels = ["L0", "L1", "L2", "L3"]

    # --- bind addresses ------------------------------------------------------
    binds = []
    for host, v6 in (("127.0.0.1", False), ("::1", True)):
        l = fresh("b")
        kind, args = spell(rng, host, 0, v6, rng.choice(["plain", "bracket", "pair"]) if not v6 else rng.choice(["bracket", "pair"]))
        ops.append(" ".join([kind, l] + args))
        labels.append(l)
        binds.append(l)
    binds += [rng.choice(local_labels) for _ in range(2)]
    if rng.random() < 0.3:     # a fixed port (may be taken: a bind failure is tolerated)
        l = fresh("b")
        ops.append("parse %s %s" % (l, hx("127.0.0.1:%d" % rng.randrange(20000, 60000))))
        labels.append(l)
        binds.append(l)

    # --- sockets -------------------------------------------------------------
    udps = {}   # name -> bind label
    for _ in range(rng.randrange(2, 6)):
        name = fresh("u")
        b = rng.choice(binds)
        ops.append("udp %s %s %s" % (name, rng.choice(["plain", "buf", "async"]), b))
        udps[name] = b
        labels.append(name + ".l")
    names = list(udps)
    for _ in range(rng.randrange(1, 6)):
        f = rng.choice(names)
        same = [t for t in names if udps[t] == udps[f]]
        t = rng.choice(same)
        if t == f and len(same) > 1:
            t = rng.choice([x for x in same if x != f])
        l = fresh("d")
        ops.append("dgram %s %s %s" % (l, f, t))
        labels.append(l)
    accs = []
    for _ in range(rng.randrange(1, 4)):
        name = fresh("A")
        ops.append("acceptor %s %s %s" % (name, rng.choice(["plain", "async"]), rng.choice(binds)))
        accs.append(name)
        labels.append(name + ".l")
    conns = []
    for _ in range(rng.randrange(1, 6)):
        c = fresh("c")
        kind = rng.choice(["plain", "buf", "async"])
        ops.append("connect %s %s %s" % (c, kind, rng.choice(accs)))
        conns.append(c)
        labels += [c + s for s in (".cl", ".cp", ".rep", ".sl", ".sp")]
        if rng.random() < (0.6 if kind == "async" else 0.15):
            ops.append("close %s" % c)
            labels.append(c + ".disc")
    # --- text round trips of addresses of any provenance ----------------------
    for _ in range(rng.randrange(3, 10)):
        l = fresh("r")
        ops.append("respell %s %s %s" % (l, rng.choice(labels + local_labels), rng.choice(["str", "hp", "scheme", "path", "full", "pair", "bare"])))
        labels.append(l)
    for _ in range(rng.randrange(0, 4)):
        a, b = rng.choice(labels), rng.choice(labels)
        ops.append("cmp %s %s" % (a, b))
    ops.append("cmpall")
    ops.append("maps")
    return ops


def dual_case(rng):
    """IPv4 client -> dual-stack (wildcard IPv6) acceptor: the two ends see different families (known finding F12)"""
    ops = ["parse w %s" % hx("[::]:0"), "parse b4 %s" % hx("127.0.0.1:0"), "parse b6 %s" % hx("[::1]:0"),
           "acceptor Aw %s w" % rng.choice(["plain", "async"]),
           "connectvia c1 %s Aw b6" % rng.choice(["plain", "buf", "async"]),     # IPv6 client: both ends agree
           "connectvia m2 %s Aw b4" % rng.choice(["plain", "buf", "async"]),     # IPv4 client: v4 vs v4-mapped
           "cmpall", "maps"]
    return ops


def gen(rng, tier):
    count = 120 if tier == "quick" else 600
    cases = [("address_order", "a%d" % k, rand_case(rng, tier)) for k in range(count)]
    cases += [("address_order", "dual%d" % k, dual_case(rng)) for k in range(3)]
    return cases


def matches_known(k, ops, msg, tr):
    import re
    if k.get("id") == "F12-dualstack-endpoint":
        return bool(re.match(r"m\d+: client (Local|Peer)Address differs from", msg)) and any(o.startswith("connectvia m") for o in ops)
    return False


TECHNIQUE = ("Lean 4 theorems (strict total order / equivalence / injectivity over all byte images; the run-time predicate of Spec/C13.lean accepts every "
             "trace of the model: spec_holds_on_model) + model/implementation correspondence on real sockets")
LEVEL_TEXT = ("Machine-checked Lean 4 theorems about the byte-image model of SockAddrView: < (length, then memcmp) is irreflexive, "
              "transitive, asymmetric and total for ALL images, == is image identity and coincides with 'neither < nor >', hash "
              "respects == for every hash function of the image bytes (bytes beyond addrLen are irrelevant), the sockaddr_in/"
              "sockaddr_in6 encodings are injective (== iff family, host, port, flowinfo, scope agree; any single-bit difference "
              "separates; v4 < v6), and sorted-list / bucket containers keyed through </== refine a map keyed by the field tuple. "
              "Tied to /repo on every run: Addresses of every provenance are created on real loopback/interface sockets, each raw "
              "image is compared with the canonical encoding of its accessor fields, every reported == != < hash, map lookup and "
              "iteration order with the model, and the property (== iff fields agree, trichotomy, transitivity on all triples, "
              "hash, containers, endpoint agreement, non-zero bound port) is evaluated directly on the observations. That predicate is its own "
              "module, lean/SockModel/Spec/C13.lean (typed observations Obs, total functions specStep/specRun, no model state, no raw image; the "
              "driver only parses lines into Obs), and the theorem spec_holds_on_model (Props/C13.lean; = Addr.model_satisfies_spec) proves that it "
              "accepts EVERY transcript the model produces: for every hash function of the image bytes and every history of any length of "
              "report/port/respell/bind/bindFail/dgram/connect/connectvia/refused/close/cmp/cmpall/maps operations in the domain histOk (field "
              "tuples well-formed with flowinfo 0, kernel-assigned ports in 1..65535, both ends of a datagram / connection of the same family). "
              "So a spec verdict on the implementation is provably a difference between implementation and model, and the oracle is never "
              "stricter than the model. Outside histOk lies exactly the dual-stack case of known finding F12, where the predicate rejects the "
              "model's own trace (example in Spec/C13.lean).")
LEVEL_NOTE = ("Trusted: Lean kernel; axioms propext/Quot.sound/Classical.choice; hand-written model; harness; the transcript parser of the driver. "
              "That different OS "
              "interfaces yield the canonical image for one endpoint is tested (canonical-image check), not proved. libstdc++ containers "
              "are modelled. Only addresses that exist in the sandbox (loopback, eth0 incl. link-local) can come from sockets.")

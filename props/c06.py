"""C06  ToDo scheduling: never early, in due order, exactly once, cancellable, shiftable."""
import itertools

ID = "C06"
SRC = ["scen/todos.cpp", "vos/vos.cpp"]
HARNESSES = {
    "todos": dict(sources=SRC, flavour="asan", mode="C06"),
    "default": dict(name="todos", sources=SRC, flavour="asan", mode="C06"),
}
RULE = ("histories of new(when|delay|idle)/Shift/Cancel/drop-handle/Stop/clock/Step(T) over up to 6 ToDos whose task "
        "bodies are themselves management calls (on other ToDos and on themselves), under the virtual clock; due times "
        "drawn to tie, to sit exactly on / 1 ns / 1 ms around step times, in the past and far (>2^31 ms) ahead; "
        "T in {-1,0,1,2,17,1000,2^31-1}. thorough adds every history of <= 5 ops over 3 ToDos and 4 times. "
        "non-trivial = at least one task ran and at least one Shift/Cancel/drop happened; distinct op sequences.")
ASSUMPTIONS = [
    "steady_clock is monotone (A-CLOCK); the virtual clock only moves forward",
    "calls from other threads are serialised by stepMtx (C04) - histories here are single-threaded",
    "a task that keeps rescheduling a due task under an unlimited Step never returns (in the code as in the model: "
    "fuel); generated bodies avoid such livelocks",
]
TRUSTED = ["tools/cxx2lean_eff.py stage 3 (DESIGN.md 0.7.2): StepTodos over the abstract deque/task interface Gen.TodoWorld (front()->when, pop_front after move, task->what(), empty() recognised by canonical text + provenance of the locals); Model/GenTodoWorld.lean reads the ToDo model as that interface; string_view = cursor + immutable end",
           "tools/cxx2lean_eff.py (stage 2, DESIGN.md 0.7.1): world boundary (DoPoll, Interrupted, Clock::now, ::send, ::recv, SocketError opaque; handles dropped), C++ evaluation order, pointer = offset, string_view = (offset, length), objects = fields; Model/GenWorld.lean reads the model answers as C results",
           "tools/cxx2lean.py (source-derived tie, DESIGN.md 0.7): clang-14 JSON AST, chrono unit semantics read from the desugared types, unbounded Int for signed arithmetic (overflow = UB), abstract memcmp / container queries",
           "std::deque/std::shared_ptr semantics (modelled, not verified)"]
ALL_TAGS = ["new", "newin", "newidle", "shift", "shiftd", "cancel", "drop", "stop", "clock", "ran",
            "step.unlimited", "step.zero", "step.limited", "wait.todo", "wait.full"]
EXHAUSTIVE = {"thorough": False}
MS = 1000000
TIMEOUTS = [-1, 0, 0, 1, 2, 17, 1000, 2147483647]


def nontrivial(ops, tags):
    return "ran" in tags and any(t in tags for t in ("shift", "shiftd", "cancel", "drop"))


def pick_time(rng, grid, far):
    x = rng.random()
    if x < 0.05:
        return 0
    if x < 0.10:
        return rng.choice([far + 1, 3 * 10**18, (2**31) * MS + grid[-1], (2**32 + 5) * MS + grid[-1], (2**31 - 1) * MS + grid[0]])
    g = rng.choice(grid)
    return max(0, g + rng.choice([0, 0, 0, 1, -1, MS, -MS, 500000, 2 * MS, 17 * MS]))


def body_for(rng, i, n, grid, far, fresh):
    toks = []
    for _ in range(rng.choice([0, 0, 1, 1, 2, 3])):
        x = rng.random()
        if x < 0.25 and i < n:
            toks.append("shift:%d:%d" % (rng.randrange(i + 1, n + 1), pick_time(rng, grid, far)))
        elif x < 0.40:
            j = rng.randrange(i, n + 1)
            ms = rng.choice([1, 2, 5, 17]) if j == i else rng.choice([0, 1, 2, 5, 17, 2147483648])
            toks.append("shiftd:%d:%d" % (j, ms))
        elif x < 0.50:
            toks.append("shift:%d:%d" % (i, far + rng.randrange(1, 1000) * MS))
        elif x < 0.65:
            toks.append("cancel:%d" % rng.randrange(1, n + 1))
        elif x < 0.75:
            toks.append("newat:%d:%d" % (fresh(), pick_time(rng, grid, far)))
        elif x < 0.80:
            toks.append("newin:%d:%d" % (fresh(), rng.choice([0, 1, 5])))
        elif x < 0.88:
            toks.append("drop:%d" % rng.randrange(1, n + 1))
        elif x < 0.96:
            toks.append("adv:%d" % rng.choice([1, 1000, 99999]))
        else:
            toks.append("stop")
    return toks


def rand_history(rng):
    n = rng.randrange(1, 7)
    steps = rng.randrange(2, 8)
    base = rng.choice([1000 * MS, 5 * MS, 10**12])
    grid = [base + k * rng.choice([1, 3, 20]) * MS for k in range(steps)]
    far = 10**18  # beyond anything the virtual clock reaches, even after several Step(2^31-1 ms)
    counter = [100]

    def fresh():
        counter[0] += 1
        return counter[0]
    ops = []
    created = 0
    # interleave creations, management ops, clock moves and steps
    gi = 0
    for _ in range(rng.randrange(4, 30)):
        x = rng.random()
        if created < n and x < 0.35:
            created += 1
            i = created
            b = " ".join(body_for(rng, i, n, grid, far, fresh))
            k = rng.random()
            if k < 0.6:
                ops.append(("new %d at %d %s" % (i, pick_time(rng, grid, far), b)).strip())
            elif k < 0.85:
                ops.append(("newin %d %d %s" % (i, rng.choice([0, 1, 3, 20, 2147483648]), b)).strip())
            else:
                ops.append(("newidle %d %s" % (i, b)).strip())
        elif x < 0.45:
            ops.append("shift %d %d" % (rng.randrange(1, n + 1), pick_time(rng, grid, far)))
        elif x < 0.52:
            ops.append("shiftd %d %d" % (rng.randrange(1, n + 1), rng.choice([0, 1, 5, 17])))
        elif x < 0.60:
            ops.append("cancel %d" % rng.randrange(1, n + 1))
        elif x < 0.65:
            ops.append("drop %d" % rng.randrange(1, n + 1))
        elif x < 0.68:
            ops.append("stop")
        elif x < 0.80 and gi < len(grid):
            ops.append("clock %d" % (grid[gi] + rng.choice([0, 0, -1, 1])))
            gi += 1
        else:
            ops.append("step %d" % rng.choice(TIMEOUTS))
    ops.append("step 0")
    return ops


def gen(rng, tier):
    cases = []
    count = 500 if tier == "quick" else 150000
    for k in range(count):
        cases.append(("todos", "t%d" % k, rand_history(rng)))
    if tier == "thorough":
        times = [1000 * MS, 1000 * MS + 1, 1001 * MS, 2000 * MS]
        alphabet = []
        for i in (1, 2, 3):
            alphabet.append("new %d at %d" % (i, times[i - 1]))
            alphabet.append("shift %d %d" % (i, times[(i + 1) % 4]))
            alphabet.append("cancel %d" % i)
        alphabet += ["clock %d" % t for t in times] + ["step 0", "step 1", "step -1"]
        k = 0
        for L in range(1, 6):
            for h in itertools.product(alphabet, repeat=L):
                if not any(o.startswith("step") for o in h):
                    continue
                cases.append(("todos", "x%d" % k, list(h) + ["clock %d" % times[3], "step 0", "step 0", "step 0"]))
                k += 1
    return cases


TECHNIQUE = "Lean 4 theorems (invariant over all op histories incl. re-entrant task bodies) + model/implementation correspondence under a virtual clock"
LEVEL_TEXT = ("Machine-checked theorems about an executable model of the ToDo deque, StepTodos/Step and the ToDo handle "
              "operations: sorted/one-entry-per-ToDo invariant, never early, due order, ties in scheduling order, the run pops "
              "the only entry (at most once per scheduling), Cancel prevents, Shift replaces by exactly one entry, finished-Cancel "
              "no-op, promptness (a Step at/after the due time runs the front task, any timeout), handle-free - for every history "
              "of any length with arbitrary task bodies and clock advances. Tied to /repo by running generated histories on the real "
              "Driver/ToDo under a link-time virtual clock and comparing every task invocation (id, virtual time) and every poll "
              "timeout with the model; the property predicate (reference bag scheduler, Spec/C06.lean) is evaluated on the implementation trace, "
              "and theorem spec_holds_on_model proves that this very predicate accepts every run of the model (any history, any bodies, any clock). "
              "The step-level clauses of the same driver (promptness, no task after the socket wait, monotone clock, and C07's clauses about the "
              "socket wait) are Spec.C07.Step.specStep (Spec/C07.lean), which calls the reference scheduler for every invocation and is proved to "
              "accept every trace of the model in Props/C07.lean (spec_holds_on_model_step).")
LEVEL_NOTE = ("Trusted: Lean kernel; axioms propext/Quot.sound/Classical.choice; hand-written model (correspondence on generated "
              "histories only); vos shim (virtual clock, poll interposition). Cross-thread calls are covered through C04's "
              "serialisation argument, not here. 'exactly one run if the driver keeps stepping' is the combination of "
              "`prompt` and `run_pops_only_entry`, not a single liveness theorem.")

"""Shared generators for the scheduler scenarios (harness scen/threads.cpp): C04, C05, C08."""
import itertools
SRC = ["scen/threads.cpp", "sched/sched.cpp"]


def user_prog(rng, run_mode):
    acts = []
    kind = rng.random()
    if kind < 0.55:
        acts.append("udp")
        n = rng.randrange(0, 3)
        for _ in range(n):
            acts.append("sendto")
            if run_mode and rng.random() < 0.6:
                acts.append("waitfut")
        if run_mode and n and rng.random() < 0.5:
            acts.append("waithandled")
        if rng.random() < 0.8:
            acts.append("close")
    else:
        d = rng.choice([0, 0, 1, 3])
        acts.append("todo:%d" % d)
        pending = True
        for _ in range(rng.randrange(0, 3)):
            x = rng.random()
            if x < 0.4:
                acts.append("cancel"); pending = False
            elif x < 0.8:
                acts.append("shift:%d" % rng.choice([0, 1, 2])); pending = True
            elif run_mode and pending:
                acts.append("waittask"); pending = False
        if run_mode and pending and rng.random() < 0.5:
            acts.append("waittask")
    return acts


def with_yields(rng, acts):
    out = []
    for a in acts:
        out.append(a)
        while rng.random() < 0.35:
            out.append("yield")
    return out


def mixed_case(rng, seed):
    run_mode = rng.random() < 0.7
    ops = ["sched %d" % seed]
    nusers = rng.randrange(1, 5)
    if run_mode:
        ops.append("drv run")
    else:
        ops.append("drv steps %d %d" % (rng.randrange(2, 9), rng.choice([0, 0, 3])))
    for i in range(nusers):
        ops.append("usr u%d %s" % (i + 1, " ".join(with_yields(rng, user_prog(rng, run_mode)))))
    if run_mode:
        ops.append("usr stopper waitothers stop")
    ops.append("go")
    return ops


def silent_case(rng, seed):
    """no traffic, unlimited timeout: a lost wake-up cannot be masked by an unrelated event"""
    ops = ["sched %d" % seed, "drv run"]
    n = rng.randrange(1, 4)
    for i in range(n):
        acts = rng.choice([["udp", "close"], ["todo:0", "waittask"], ["udp", "sendto", "waitfut", "close"],
                           ["todo:2", "cancel"], ["todo:1", "shift:0", "waittask"], ["udp"]])
        ops.append("usr u%d %s" % (i + 1, " ".join(with_yields(rng, acts))))
    ops.append("usr stopper waitothers stop")
    ops.append("go")
    return ops


def stop_case(rng, seed):
    t = rng.randrange(11)
    ops = ["sched %d" % seed]
    if t == 0:
        ops += ["drv run", "usr u1 stop"]
    elif t == 1:
        ops += ["drv run", "usr u1 todostop:0"]
    elif t == 2:
        ops += ["drv run", "usr u1 stop", "usr u2 stop"]
    elif t == 3:
        ops += ["drv runs 2", "usr u1 stop waitrun:1 stop"]
    elif t == 4:
        ops += ["drv run", "usr u1 udp sendto waitfut close", "usr u2 waitothers stop"]
    elif t == 5:
        ops += ["drv runs 2", "usr u1 todostop:0 waitrun:1 stop"]
    elif t == 7:
        # Stop while no Run is in progress, manual Steps in between (they may swallow the wake-up datagram), then Run
        ops += ["drv stepsrun %d 0" % rng.randrange(1, 4), "usr u1 stop"]
    elif t == 8:
        ops += ["drv stepsrun 2 0", "usr u1 todostop:0"]
    elif t == 9:
        # Stop() from a signal handler interrupting the driver thread at its k-th scheduling point (any point of Run)
        ops += ["drv run", "sigstop %d" % rng.randrange(1, 12)]
    elif t == 10:
        ops += ["drv run", "sigstop %d" % rng.randrange(1, 40), "usr u1 udp yield close", "usr u2 todo:0 yield cancel"]
    else:
        ops += ["drv runs 3", "usr u1 stop waitrun:1 udp close stop", "usr u2 waitrun:2 stop"]
    ops.append("go")
    return ops


def prefix_cases(base_ops, depth, branch):
    """bounded-exhaustive: every choice prefix of the given depth, then PRNG"""
    out = []
    for pref in itertools.product(range(branch), repeat=depth):
        out.append([("sched 7 " + " ".join(str(c) for c in pref))] + base_ops[1:])
    return out


RACE_TEMPLATES = [
    # Cancel / destructor racing with the task / handler in progress (quiescence)
    ["usr u1 todo:0 yield cancel"],
    ["usr u1 todo:0 yield yield cancel"],
    ["usr u1 todo:0 yield shift:0 yield cancel"],
    ["usr u1 udp sendto yield yield close"],
    ["usr u1 udp sendto waitfut yield close"],
    ["usr u1 udp sendto yield close", "usr u2 todo:0 yield cancel"],
    ["usr u1 todo:0 yield cancel", "usr u2 todo:0 yield cancel"],
    ["usr u1 udp yield sendto yield sendto yield close"],
    # destructor of an async TCP socket racing with its own disconnect handler on the driver thread
    ["usr u1 tcp pclose yield yield close"],
    ["usr u1 tcp pclose yield yield yield close", "usr u2 todo:0 yield cancel"],
    ["usr u1 tcp yield pclose waitdisc close"],
    ["usr u1 tcp pclose waitdiscstart close"],
    ["usr u1 tcp pclose waitdiscstart yield close", "usr u2 udp yield close"],
]


def race_cases(rng, per_template):
    out = []
    for tpl in RACE_TEMPLATES:
        for _ in range(per_template):
            out.append(["sched %d" % rng.randrange(1, 10**9), "drv run"] + tpl + ["usr stopper waitothers stop", "go"])
    return out

"""Shared generators for the scheduler scenarios (harness scen/threads.cpp): C04, C05, C08."""
import itertools
SRC = ["scen/threads.cpp", "sched/sched.cpp"]


def user_prog(rng, run_mode):
    acts = []
    kind = rng.random()
    if kind < 0.55:
        acts.append("udp")
        n = rng.randrange(0, 3)
        for _ in range(n):
            acts.append("sendto")
            if run_mode and rng.random() < 0.6:
                acts.append("waitfut")
        if run_mode and n and rng.random() < 0.5:
            acts.append("waithandled")
        if rng.random() < 0.8:
            acts.append("close")
    else:
        d = rng.choice([0, 0, 1, 3])
        acts.append("todo:%d" % d)
        pending = True
        for _ in range(rng.randrange(0, 3)):
            x = rng.random()
            if x < 0.4:
                acts.append("cancel"); pending = False
            elif x < 0.8:
                acts.append("shift:%d" % rng.choice([0, 1, 2])); pending = True
            elif run_mode and pending:
                acts.append("waittask"); pending = False
        if run_mode and pending and rng.random() < 0.5:
            acts.append("waittask")
    return acts


def mixed_case(rng, seed):
    run_mode = rng.random() < 0.7
    ops = ["sched %d" % seed]
    nusers = rng.randrange(1, 5)
    if run_mode:
        ops.append("drv run")
    else:
        ops.append("drv steps %d %d" % (rng.randrange(2, 9), rng.choice([0, 0, 3])))
    for i in range(nusers):
        ops.append("usr u%d %s" % (i + 1, " ".join(user_prog(rng, run_mode))))
    if run_mode:
        ops.append("usr stopper waitothers stop")
    ops.append("go")
    return ops


def silent_case(rng, seed):
    """no traffic, unlimited timeout: a lost wake-up cannot be masked by an unrelated event"""
    ops = ["sched %d" % seed, "drv run"]
    n = rng.randrange(1, 4)
    for i in range(n):
        acts = rng.choice([["udp", "close"], ["todo:0", "waittask"], ["udp", "sendto", "waitfut", "close"],
                           ["todo:2", "cancel"], ["todo:1", "shift:0", "waittask"], ["udp"]])
        ops.append("usr u%d %s" % (i + 1, " ".join(acts)))
    ops.append("usr stopper waitothers stop")
    ops.append("go")
    return ops


def stop_case(rng, seed):
    t = rng.randrange(7)
    ops = ["sched %d" % seed]
    if t == 0:
        ops += ["drv run", "usr u1 stop"]
    elif t == 1:
        ops += ["drv run", "usr u1 todostop:0"]
    elif t == 2:
        ops += ["drv run", "usr u1 stop", "usr u2 stop"]
    elif t == 3:
        ops += ["drv runs 2", "usr u1 stop waitrun:1 stop"]
    elif t == 4:
        ops += ["drv run", "usr u1 udp sendto waitfut close", "usr u2 waitothers stop"]
    elif t == 5:
        ops += ["drv runs 2", "usr u1 todostop:0 waitrun:1 stop"]
    else:
        ops += ["drv runs 3", "usr u1 stop waitrun:1 udp close stop", "usr u2 waitrun:2 stop"]
    ops.append("go")
    return ops


def prefix_cases(base_ops, depth, branch):
    """bounded-exhaustive: every choice prefix of the given depth, then PRNG"""
    out = []
    for pref in itertools.product(range(branch), repeat=depth):
        out.append([("sched 7 " + " ".join(str(c) for c in pref))] + base_ops[1:])
    return out

"""C01  TCP byte-stream integrity and exact send accounting (plain TCP through scen/sockops.cpp, TLS through the C18 harness)."""
from props import sockgen, c18

ID = "C01"
HARNESSES = {
    "sockops": dict(sources=sockgen.SRC, flavour="asan", mode="C01", timeout=30),
    "default": dict(name="sockops", sources=sockgen.SRC, flavour="asan", mode="C01", timeout=30),
    # "with or without TLS": synchronous TLS pairs through C18's harness and driver (real OpenSSL; byte-stream integrity
    # and send accounting are clauses of that spec: received = prefix of what the peer's Send calls reported, complete at
    # the end, no failure on a healthy connection), with multi-record payloads and kernel short writes inside TLS records
    "tls": dict(c18.HARNESSES["tls"]),
}
RULE = ("connected TCP pairs over loopback (IPv4/IPv6, basic/buffered, library side = connector or accepted side, small and "
        "default SO_SNDBUF so that real short writes occur) against a raw peer that drains concurrently; sequences of "
        "Send(size in 0..1e6, T in {-1,0,5,50,1000}) with scripted short writes / EINTR / not-ready / failing send, peer sends, "
        "Receive(size, T) with scripted short reads, orderly close / half close then drain; UDP SendTo/ReceiveFrom cases; "
        "every system call on the socket under test is reported and replayed by the model. "
        "non-trivial = a short write or short read or a timeout/exception branch occurred; distinct op sequences.")
ASSUMPTIONS = [
    "A-TCP: a connected pair is a lossless FIFO per direction; recv returns 0 only after all data sent before the close",
    "the kernel accepts at most len bytes per send (script well-formedness)",
    "TLS sockets: run through the C18 harness and driver (A-SSL: OpenSSL honours the SSL_write retry contract)",
]
TRUSTED = ["tools/cxx2lean_eff.py stage 3 (DESIGN.md 0.7.2): StepTodos over the abstract deque/task interface Gen.TodoWorld (front()->when, pop_front after move, task->what(), empty() recognised by canonical text + provenance of the locals); Model/GenTodoWorld.lean reads the ToDo model as that interface; string_view = cursor + immutable end",
           "tools/cxx2lean_eff.py (stage 2, DESIGN.md 0.7.1): world boundary (DoPoll, Interrupted, Clock::now, ::send, ::recv, SocketError opaque; handles dropped), C++ evaluation order, pointer = offset, string_view = (offset, length), objects = fields; Model/GenWorld.lean reads the model answers as C results",
           "tools/cxx2lean.py (source-derived tie, DESIGN.md 0.7): clang-14 JSON AST, chrono unit semantics read from the desugared types, unbounded Int for signed arithmetic (overflow = UB), abstract memcmp / container queries",
           "vos shim (send/recv/poll interposition, virtual clock)", "FNV-1a hashes stand in for byte-wise comparison of large payloads",
           "the transcript parser of Drive/C01.lean (lines -> typed observations Spec.C01.Obs); the predicate itself is Spec/C01.lean and is "
           "no longer trusted to be consistent with the model: spec_holds_on_model proves that it accepts every trace of the model. What stays "
           "trusted about it: that its clauses say what the property text says, and the environment Spec.C01.Sys used for the model's traces "
           "(A-TCP: FIFO byte queue per direction, recv = non-empty prefix, EOF only when drained and closed; A-UDP: oldest datagram first)"]
ALL_TAGS = ["send.all", "send.try", "send.some", "short-write", "send.throw", "eintr", "recv.value", "recv.none",
            "recv.throw", "psend", "pclose", "pshutwr", "sync", "recv.unl", "recv.zero", "recv.lim", "sendto", "recvfrom"]
EXHAUSTIVE = {}


def nontrivial(ops, tags):
    if any(t.startswith("pair.tls") for t in tags):
        return True
    return any(t in tags for t in ("short-write", "recv.none", "recv.throw", "send.throw", "eintr"))


def gen(rng, tier):
    n = 160 if tier == "quick" else 15000
    cases = []
    for k in range(n):
        if rng.random() < 0.8:
            cases.append(("sockops", "s%d" % k, sockgen.c01_case(rng)))
        else:
            cases.append(("sockops", "u%d" % k, sockgen.udp_case(rng)))
    # TLS slice: basic/buffered pairs, all timeout modes, payloads of several TLS records, the kernel accepting only
    # part of a record (wsegc/wsegs cap every send() of the client/server), tiny socket buffers
    kinds = ["basic", "buffered"]
    for k in range(36 if tier == "quick" else 1200):
        cli, srv = rng.choice(kinds), rng.choice(kinds)
        ct, st = rng.choice([-1, 0, 50]), rng.choice([-1, 0, 50])
        style = "poll" if (ct >= 0 or st >= 0) and rng.random() < 0.5 else "seq"
        extra = rng.choice(["wsegc=1000 wsegs=333", "wsegc=5000", "wsegs=700", "wsegc=16000 wsegs=16000", "bufs=8192", ""])
        ops = c18.case_ops(cli, srv, ct, st, "s", rng.choice("sr"), style, rng.choice([0, 0, 7, 100]), rng.randrange(10**6),
                           rng.choice([3000, 20000, 40000]), rng.choice([1, 100, 20000]), extra=extra)
        if ops:
            cases.append(("tls", "tls%d" % k, ops))
    return cases


TECHNIQUE = ("Lean 4 theorems (induction over every OS answer script) + trace validation of the real send/receive loops against the model; "
             "the run-time predicate is its own Lean module (Spec/C01.lean) proved to accept every trace of the model (simulation relation, "
             "induction over the history)")
LEVEL_TEXT = ("Machine-checked theorems about an executable model of Wait/SendNow/SendAll/SendTry/SendSome/Send dispatch/ReceiveNow/"
              "Receive: unlimited Send returns size and hands exactly the caller's bytes to the OS; every Send returns exactly the number "
              "of leading bytes handed over (all timeout modes, every short-write/EINTR/failure pattern); a sequence of Sends puts the "
              "concatenation of those prefixes on the wire; Receive reports 1..size bytes, never 0; composed with the FIFO assumption: "
              "delivered ++ in-flight = pushed for every interleaving, closure reported only when nothing is in flight. Tied to /repo by "
              "trace validation: every poll/send/recv the real code issues on the socket (with real short writes on loopback) is fed to the "
              "model, which must issue the same calls and return the same result; the peer's byte stream is compared with the accounting. "
              "The run-time property predicate is a typed, total Lean function of its own module (Spec/C01.lean: Obs = one operation with its "
              "intercepted system calls and result, specStep, specRun; Drive/C01.lean only parses lines into Obs and calls it) and is itself a "
              "theorem of the model: spec_holds_on_model (= Spec.C01.model_satisfies_spec) proves for every history of any length - Send / "
              "Receive / SendTo / ReceiveFrom / Listen with arbitrary payloads, sizes, timeouts and arbitrary scripted poll/send answers "
              "(short writes, zero answers, failures, EINTR, time-outs), interleaved with the peer's sends, close, half close, reset, datagrams - "
              "that every clause accepts the model's own observations (send count = bytes the OS accepted, = size when unlimited, <= size; no "
              "exception without a failed system call; signals invisible; peer stream = accounted bytes; Receive 1..size bytes that are the next "
              "bytes of the stream; closure only when drained and closed; SendTo all-or-nothing; datagram payloads; MSG_NOSIGNAL). Domain "
              "(histOk): receive size >= 1, no kernel time-out of an unlimited poll in SendTo, one datagram in flight to the raw peer at a time. "
              "So a spec verdict on the implementation is provably a difference between implementation and model, never a stricter oracle.")
LEVEL_NOTE = ("Trusted: Lean kernel; axioms propext/Quot.sound/Classical.choice; the model (validated on generated cases only); vos shim; "
              "kernel TCP is an assumption (Chan), exercised but not proved. TLS half of C01 is checked through C18.")

"""C05  The driver always yields and always wakes: no deadlock, no lost wake-up."""
from props import threadgen, c02, c09

ID = "C05"
SRC = threadgen.SRC
HARNESSES = {
    "threads": dict(sources=SRC, flavour="asan", mode="C05", timeout=40),
    "default": dict(name="threads", sources=SRC, flavour="asan", mode="C05", timeout=40),
    # "a queued buffer is transmitted ... without needing any unrelated event": producers x driver on the async TCP send
    # queue under the same cooperative scheduler (sendQMtx lock/unlock are schedule points: the empty/refill window);
    # evaluated by the C02 driver (every buffer arrives, every future gets its value, every buffer returns to the pool)
    "asend_sched": dict(c02.HARNESSES["asend_sched"]),
    # the UDP send-to queue: "a queued buffer is transmitted": datagrams queued behind a failed / oversize one, and every later
    # request, must still be sent by the following steps (evaluated by the C09 driver: 'Step did nothing although ... (held up)')
    "udp": dict(c09.HARNESSES["udp"]),
    "threads_tsan": dict(name="threads_rt", sources=["scen/threads_rt.cpp"], flavour="tsan", mode="C04rt", timeout=60, jobs=4,
                         env={"TSAN_OPTIONS": "halt_on_error=1:exitcode=66"}),
}
RULE = ("one driver thread (Run, or k x Step(T)) and 1-4 user threads, each a random program of management calls (attach/detach an "
        "async UDP socket, SendTo, ToDo create/Cancel/Shift, Stop, waiting for futures/handlers/tasks), all real library threads run "
        "under a deterministic cooperative scheduler that switches at every pthread_mutex_lock/trylock/unlock, poll, sendto, recvfrom; "
        "schedules from a per-case PRNG (thorough: plus every choice prefix of depth 7 for two small scenarios). Each trace must be a "
        "path of the Locks transition system (validator proved sound) with the same stepMtx owner after every event. "
        "non-trivial = at least one failed try-lock (the PauseGuard/StepGuard hand-shake was exercised); distinct op+seed. Silent scenarios (no traffic, unlimited timeout) are 50% of the cases.")
ASSUMPTIONS = ["A-MUTEX/A-SC: pthread mutexes are mutexes; code between two sync points is atomic w.r.t. other library threads "
               "(the scheduler runs one thread at a time); races below lock granularity are looked for by the real-thread TSan run only",
               "std::atomic<bool> accesses are placed at the marker of the API call they belong to (same uninterrupted segment)"]
TRUSTED = ["harness/sched (cooperative scheduler, interposition of pthread_mutex_*, poll, sendto, recvfrom, CLOCK_MONOTONIC)"]
ALL_TAGS = ["contended", "uncontended", "handler", "task", "close", "cancel", "shift", "stop", "run-exit", "dpoll"]
EXHAUSTIVE = {}
SHRINK = False  # removing threads/actions changes the scenario (e.g. drops the stopper); the replay is ops + schedule


def nontrivial(ops, tags):
    return "contended" in tags or any(o.startswith("mt ") for o in ops) or "asend" in tags


def gen(rng, tier):
    n = 400 if tier == "quick" else 30000
    cases = []
    for k in range(n):
        seed = rng.randrange(1, 10**9)
        ops = threadgen.mixed_case(rng, seed) if rng.random() < 0.5 else threadgen.silent_case(rng, seed)
        cases.append(("threads", "m%d" % k, ops))
    for i, ops in enumerate(threadgen.race_cases(rng, 40 if tier == "quick" else 600)):
        cases.append(("threads", "r%d" % i, ops))
    for k in range(60 if tier == "quick" else 1500):
        th, per = rng.choice([1, 2, 2, 3]), rng.choice([1, 1, 2, 3])
        cases.append(("asend_sched", "q%d" % k, ["mt %d %d %d %d %d" % (th, per, rng.choice([0, 1, 5, 40]),
                                                                      rng.choice([0, 0, 2, 5, 9]), rng.randrange(1, 10**9))]))
    k = 0
    while k < (60 if tier == "quick" else 2000):
        ops = c09.rand_history(rng)
        if sum(o.startswith("asend") for o in ops) >= 2:     # at least two queued datagrams on an asynchronous socket
            cases.append(("udp", "u%d" % k, ops))
            k += 1
    if tier == "thorough":
        base1 = ["sched 7", "drv run", "usr u1 udp sendto close", "usr u2 todo:0 cancel", "usr stopper waitothers stop", "go"]
        base2 = ["sched 7", "drv steps 3 0", "usr u1 udp close", "usr u2 todo:0 shift:0", "go"]
        for i, ops in enumerate(threadgen.prefix_cases(base1, 7, 3) + threadgen.prefix_cases(base2, 7, 3)):
            cases.append(("threads", "x%d" % i, ops))
    return cases


TECHNIQUE = ("Lean 4 invariant + progress theorems over the lock-protocol LTS (no help from the environment) + scheduled real executions with deadlock "
             "detection; the run-time oracle (Spec/C04.lean, monitor stepB) is proved to accept every trace of the model")
LEVEL_TEXT = ("Machine-checked over the same LTS as C04: no lost wake-up (a user that sent its datagram and waits for stepMtx implies the pipe "
              "is readable while the driver is before or in poll), bounded hand-over (along every execution fragment during which a user holds pauseMtx the driver begins at most "
              "ONE step: handover_at_most_one_step, by a potential argument), no deadlock (in every reachable state with a management call or Stop under way some thread can move WITHOUT "
              "any socket event, timeout or new call), driver progress. Tied to /repo by scheduled executions of silent scenarios "
              "(unlimited timeout, no traffic) in which the scheduler reports 'all parked, none enabled' as a deadlock with the schedule as "
              "replay, by the direct check that the driver begins at most one step while a caller waits after its datagram, and by scheduled "
              "producer/driver executions on the async send queue in which every queued buffer must be transmitted and every future resolved "
              "with no event other than the Send calls themselves (the arming side of this is theorem asyncq_armed of C02). "
              "The direct check on the scheduler trace is the monitor stepB of Spec/C04.lean (shared with C04/C08; the driver only parses lines); "
              "theorem C05.spec_holds_on_model (= Locks.Spec.model_satisfies_spec in mode C05, no hypothesis) proves that it accepts every trace "
              "of the model for every history (any number of user threads and programs; a Stop's datagram is not a waiting caller): the "
              "run-time form of handover_at_most_one_step. The outcome 'deadlock' is never a model observation (no_deadlock is the theorem behind that clause).")
LEVEL_NOTE = ("Trusted: as C04, plus A-PIPE (a datagram sent to the driver's own pipe stays readable until received) and fair scheduling of "
              "the only enabled thread by the OS. Other user threads may overtake a waiting caller on stepMtx (pthread mutexes are not fair): "
              "the bound is in driver steps, as the property states, not in other callers' actions.")

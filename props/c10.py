"""C10  BufferPool accounting and recycling, including the sockets' receive pools."""
import itertools

ID = "C10"
HARNESSES = {
    "pool": dict(sources=["scen/pool.cpp"], flavour="asan"),
    "rx": dict(name="sockops", sources=["scen/sockops.cpp", "vos/vos.cpp"], flavour="asan", mode="C10rx", timeout=30),
    "default": dict(name="pool", sources=["scen/pool.cpp"], flavour="asan"),
}
RULE = ("histories of get / release(any order, some on another thread) / user-fill on BufferPool(N, reserve), "
        "(N,reserve) in {0,1,2,3,5}x{0,1,64,4096}; thorough adds every history of length <= 7 over N<=3; plus buffered TCP/UDP sockets with "
        "rxBufCount N in {0,1,2,3} driven through value(kept)/timeout/failing recv/failing poll/peer-close receives and drops in any order, "
        "then (60% of the TCP cases) handed to a Driver as SocketTcpAsync and driven through receive-handler deliveries (buffer kept), drops and a peer close on the same pool. "
        "A case is non-trivial when it contains at least one release followed by a get (recycling exercised) "
        "or reaches the limit; distinct = distinct op sequences.")
ASSUMPTIONS = [
    "BufferPool::Get and ::Recycle are atomic under m_mtx, so a multi-threaded history is a sequential one "
    "(real-thread releases are exercised by the harness, the mutex itself is not verified)",
    "capacity() is compared as a lower bound (libstdc++ may over-allocate)",
]
TRUSTED = ["tools/cxx2lean.py (source-derived tie, DESIGN.md 0.7): clang-14 JSON AST, chrono unit semantics read from the desugared types, unbounded Int for signed arithmetic (overflow = UB), abstract memcmp / container queries",
           "C++ std::string/std::deque/std::stack semantics (modelled, not verified)"]
ALL_TAGS = ["get.alloc", "get.idle", "get.throw", "rel", "fill", "rx.value", "rx.nothing", "rx.exn", "rx.full", "rx.drop",
            "arx.value", "arx.full", "arx.exn", "arx.idle"]
EXHAUSTIVE = {"thorough": False}


def nontrivial(ops, tags):
    seen_rel = False
    for o in ops:
        if o.startswith("rel"):
            seen_rel = True
        elif o == "get" and seen_rel:
            return True
    return "get.throw" in tags or "rx.full" in tags or ("rx.exn" in tags or "rx.nothing" in tags) and "rx.value" in tags


def rand_history(rng, n, r, length):
    ops = ["pool %d %d" % (n, r)]
    for _ in range(length):
        x = rng.random()
        if x < 0.5:
            ops.append("get")
        elif x < 0.8:
            ops.append("%s %d" % (rng.choice(["relk", "relk", "reltk"]), rng.randrange(8)))
        else:
            ops.append("fillk %d %d" % (rng.randrange(8), rng.choice([0, 1, 15, 16, 100, 5000])))
    return ops


def rx_history(rng):
    """buffered socket with N receive buffers: receives with every outcome (value kept by the user, timeout, failing recv,
    peer close), drops in any order; the pool must refuse exactly when the user holds N"""
    n = rng.choice([1, 1, 2, 3, 0])
    size = rng.choice([1, 7, 64])
    udp = rng.random() < 0.35
    if udp:
        ops = ["udp %s buffered rx %d %d" % (rng.choice(["v4", "v6"]), n, size)]
    else:
        ops = ["tcp %s buffered %s rx %d %d" % (rng.choice(["v4", "v6"]), rng.choice(["cli", "srv"]), n, size)]
    rcv = "recvfromhold" if udp else "recvhold"
    closed = False
    for _ in range(rng.randrange(3, 16)):
        x = rng.random()
        if x < 0.30 and not closed:
            ops.append(("pdgram %d 5" if udp else "psend %d 5") % rng.choice([1, 3, 64, 200]))
        elif x < 0.65:
            y = rng.random()
            if y < 0.15:
                ops.append("os %s fail 104" % ("recvfrom" if udp else "recv"))
                ops.append("os poll ready")
            elif y < 0.25:
                ops.append("os poll fail 12")
            ops.append("%s %d" % (rcv, rng.choice([0, 0, 5])))
        elif x < 0.9:
            ops.append("dropbuf %d" % rng.randrange(4))
        elif not udp and not closed:
            ops.append("pclose"); closed = True
    # the decisive probe: one more receive
    ops.append("%s 0" % rcv)
    if not udp and not closed and rng.random() < 0.6:
        # the same socket (and its pool, with whatever the synchronous phase left in it) handed to a driver:
        # "the sockets' receive pools" of the asynchronous level
        ops.append("toasync")
        for _ in range(rng.randrange(2, 9)):
            x = rng.random()
            if x < 0.45:
                ops.append("psend %d 5" % rng.choice([1, 3, 64, 200]))
                ops.append("astep")
            elif x < 0.75:
                ops.append("astep")
            else:
                ops.append("dropbuf %d" % rng.randrange(4))
        ops += ["psend 3 5", "astep"]
        if rng.random() < 0.4:
            ops += ["pclose", "astep", "astep"]
    return ops


def gen(rng, tier):
    cases = []
    k = 0
    for i in range(250 if tier == "quick" else 6000):
        cases.append(("rx", "r%d" % i, rx_history(rng)))
    count = 600 if tier == "quick" else 20000
    for i in range(count):
        n = rng.choice([0, 1, 2, 3, 5])
        r = rng.choice([0, 1, 64, 4096])
        cases.append(("pool", "p%d" % k, rand_history(rng, n, r, rng.randrange(1, 40))))
        k += 1
    if tier == "thorough":
        # bounded-exhaustive: all histories of length <= 7 over {get, relk 0, relk 1, relk 2} for N <= 3
        alphabet = ["get", "relk 0", "relk 1", "relk 2"]
        for n in (1, 2, 3):
            for L in range(1, 8):
                for h in itertools.product(alphabet, repeat=L):
                    cases.append(("pool", "x%d" % k, ["pool %d 64" % n] + list(h)))
                    k += 1
    return cases

TECHNIQUE = "Lean 4 theorems (induction over all Get/release histories) + model/implementation correspondence run"
LEVEL_TEXT = ("Machine-checked Lean 4 theorems about an executable model of BufferPool and of the sockets' "
              "receive-buffer discipline: limit, unlimited, freshness/emptiness/reserved capacity, conservation "
              "(no allocation while idle / after construction), release-reuse with storage intact (capacity monotone over "
              "whole histories), receive pools always available and never regrown once warm - for every history of any length. The model is tied to /repo on every run by driving "
              "the real BufferPool / sockets with generated histories and comparing every observation with the model, "
              "and by evaluating the property predicate directly on the implementation's observations.")
LEVEL_NOTE = ("Trusted: Lean kernel; axioms propext/Quot.sound/Classical.choice; the hand-written model (checked by "
              "correspondence on generated histories only); harness and shim. Atomicity of Get/Recycle under m_mtx is assumed; "
              "libstdc++ containers are modelled, not verified.")

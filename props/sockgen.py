"""Shared generators for the blocking-socket-layer scenarios (harness scen/sockops.cpp): C01, C07, C16."""
SRC = ["scen/sockops.cpp", "vos/vos.cpp"]
INT_MAX = 2147483647
TIMEOUTS = [-1, 0, 1, 2, 17, 1000, INT_MAX]


def setup_tcp(rng, buffered=None, role=None):
    fam = rng.choice(["v4", "v6"])
    buffered = rng.random() < 0.4 if buffered is None else buffered
    role = role or rng.choice(["cli", "srv"])
    line = "tcp %s %s %s" % (fam, "buffered" if buffered else "basic", role)
    sb = rng.choice([0, 0, 4096, 16384])
    if sb:
        line += " sndbuf %d" % sb
    rx = 0
    if buffered:
        rx = rng.choice([1, 7, 100, 4096])
        line += " rx %d %d" % (rng.choice([1, 2, 0]), rx)
    return line, rx


def eintrs(rng, maxn=3):
    return ["os poll eintr %d" % rng.choice([0, 1, 2, 5]) for _ in range(rng.randrange(0, maxn + 1))]


def c01_case(rng):
    setup, rx = setup_tcp(rng)
    ops = [setup]
    seed = rng.randrange(1, 200)
    pending = 0          # bytes the peer sent and the SUT has not yet received (generator's estimate)
    closed = False
    for _ in range(rng.randrange(2, 10)):
        x = rng.random()
        seed += 1
        if x < 0.5 and not closed:
            ln = rng.choice([0, 1, 2, 100, 4096, 5000, 65536, 70000, 300000, 1000000] if rng.random() < 0.5 else [0, 1, 3, 17, 100, 1000])
            T = rng.choice([-1, -1, 0, 5, 50, 1000])
            pre = []
            for _ in range(rng.randrange(0, 4)):
                y = rng.random()
                if y < 0.5:
                    pre.append("os send short %d" % rng.choice([1, 2, 3, 100, 4095]))
                elif y < 0.7:
                    pre.append("os poll eintr %d" % rng.choice([0, 1, 3]))
                elif y < 0.8 and T >= 0:
                    pre.append("os poll timeout")
                elif y < 0.9 and T > 0:
                    pre.append("os poll arrive %d" % rng.choice([0, 1, T - 1, T, T + 1]))
                elif y < 0.95:
                    pre.append("os send fail %d" % rng.choice([32, 104, 105]))
            ops += pre + ["send %d %d %d" % (ln, seed, T)]
            if any(p.startswith("os send fail") for p in pre):
                ops.append("sync")
                break
        elif x < 0.75 and not closed:
            ln = rng.choice([1, 2, 10, 100, 5000])
            ops.append("psend %d %d" % (ln, seed))
            pending += ln
        elif x < 0.95:
            size = rx if rx else rng.choice([1, 2, 7, 100, 4096, 100000])
            T = rng.choice([-1, 0, 3, 20]) if (pending > 0 or closed) else rng.choice([0, 3, 20])
            pre = []
            if rng.random() < 0.4:
                pre.append("os recv short %d" % rng.choice([1, 2, 7]))
            pre += eintrs(rng, 2)
            ops += pre + ["recv %d %d" % (size, T)]
            pending = max(0, pending - size)
        elif not closed:
            ops.append(rng.choice(["pclose", "pclose", "pshutwr"]))
            closed = True
            # drain to the closure
            for _ in range(6):
                ops.append("recv %d -1" % (rx if rx else rng.choice([3, 100, 100000])))
            break
    if not closed:
        ops.append("sync")
    return ops


def udp_case(rng):
    fam = rng.choice(["v4", "v6"])
    buffered = rng.random() < 0.5
    rx = rng.choice([1, 20, 1472, 65507])
    ops = ["udp %s %s%s" % (fam, "buffered" if buffered else "basic", (" rx %d %d" % (rng.choice([1, 2, 0]), rx)) if buffered else "")]
    seed = rng.randrange(1, 200)
    pend = 0
    for _ in range(rng.randrange(2, 8)):
        seed += 1
        x = rng.random()
        if x < 0.4:
            ln = rng.choice([0, 1, 100, 1472, 1473, 9000, 65507])
            T = rng.choice([-1, 0, 5])
            pre = eintrs(rng, 2)
            if rng.random() < 0.15:
                pre.append("os sendto fail %d" % rng.choice([90, 105, 111]))
            if rng.random() < 0.1 and T >= 0:
                pre.append("os poll timeout")
            ops += pre + ["sendto %d %d %d" % (ln, seed, T), "precv"]
        elif x < 0.7:
            ops.append("pdgram %d %d" % (rng.choice([0, 1, 19, 20, 21, 1472, 9000]), seed))
            pend += 1
        else:
            size = rx if buffered else rng.choice([1, 20, 1472, 65507])
            T = rng.choice([-1, 0, 7]) if pend > 0 else rng.choice([0, 7])
            ops += eintrs(rng, 2) + ["recvfrom %d %d" % (size, T)]
            pend = max(0, pend - 1)
    return ops


def grid_cases(with_eintr, rng=None):
    """the C07 grid: operation x timeout x arrival of the awaited event; with_eintr adds signal deliveries"""
    cases = []
    ops = ["recv", "recvb", "send", "sendto", "recvfrom", "recvfromb", "listen"]
    for op in ops:
        for T in TIMEOUTS:
            arrivals = ["there", "never"] if T <= 0 else ["there", "T-1", "T", "T+1", "never"]
            for arr in arrivals:
                if T < 0 and arr == "never":
                    continue   # would (correctly) block forever
                if op in ("send", "sendto") and arr == "never" and T < 0:
                    continue
                eint_variants = [[]]
                if with_eintr:
                    eint_variants = [[1], [2, 5], [1, 1, 1, 2, 5], [0]]
                for ev in eint_variants:
                    pre = []
                    if op in ("recv", "recvb"):
                        setup = ["tcp v4 %s cli%s" % ("buffered" if op == "recvb" else "basic", " rx 1 64" if op == "recvb" else "")]
                        if arr != "never":
                            setup.append("psend 10 7")
                        call = "recv 64 %d" % T
                    elif op == "send":
                        setup = ["tcp v6 basic srv"]
                        call = "send 1000 3 %d" % T
                    elif op == "sendto":
                        setup = ["udp v4 basic"]
                        call = "sendto 100 3 %d" % T
                    elif op in ("recvfrom", "recvfromb"):
                        setup = ["udp v6 %s" % ("buffered rx 1 64" if op == "recvfromb" else "basic")]
                        if arr != "never":
                            setup.append("pdgram 10 7")
                        call = "recvfrom 64 %d" % T
                    else:
                        setup = ["acceptor v4"]
                        if arr != "never":
                            setup.append("pconnect")
                        call = "listen %d" % T
                    used = 0
                    for d in ev:
                        pre.append("os poll eintr %d" % d)
                        used += d
                    if arr == "never":
                        if op in ("send", "sendto"):
                            pre.append("os poll timeout")   # a writable socket: "never" must be scripted
                    elif arr != "there":
                        k = {"T-1": T - 1, "T": T, "T+1": T + 1}[arr] - used
                        if k < 0:
                            continue
                        pre.append("os poll arrive %d" % k)
                    tail = []
                    if op == "send" and T > 0 and arr == "there" and not ev:
                        # partial sends: several waits within one budget
                        pre = ["os send short 100", "os poll arrive %d" % min(1, T), "os send short 100",
                               "os poll arrive %d" % max(0, min(T - 1, 3))]
                    cases.append(setup + pre + [call] + tail)
    return cases

"""C18  TLS sockets encrypt, need a TLS peer, and always complete the handshake."""
import itertools

ID = "C18"
SRC = ["scen/tls.cpp", "vos/vos.cpp"]
HARNESSES = {
    "tls": dict(sources=SRC, flavour="tls", mode="C18", libs=["-lssl", "-lcrypto"], timeout=30),
    "default": dict(name="tls", sources=SRC, flavour="tls", mode="C18", libs=["-lssl", "-lcrypto"], timeout=30),
}
KINDS = ["basic", "buffered", "async"]
TIMEOUTS = [-1, 0, 50]
SEGS = [0, 1, 7, 100]
RULE = ("matrix {basic,buffered,async} client x server (server via Acceptor/AcceptorAsync with the committed certificate) x "
        "timeout {-1,0,50 ms} per synchronous side x who sends/receives first x call style {sequential program, polling "
        "round-robin} x recv segmentation {none,1,7,100 bytes} x shared/separate drivers, real OpenSSL 3 over loopback under the "
        "virtual clock; unlimited-timeout sides run on their own thread. Plus: TLS 1.2, payloads 1 byte .. >16 KiB "
        "(multi-record), >9 records in one Send, congested full-duplex transfer with tiny socket buffers, a congested asynchronous "
        "multi-record sender (partial DriverSend + retry from the moved buffer), short writes, an unrelated TLS socket of the same thread "
        "destroyed in the middle of its handshake (OpenSSL error queue), "
        "plain-TCP peers (HTTP text) in both roles. thorough enumerates the matrix completely, quick samples it. "
        "non-trivial = a case in which a handshake was driven to completion and payload crossed in both directions, "
        "or a non-TLS peer was rejected; distinct op scripts.")
ASSUMPTIONS = [
    "A-SSL: OpenSSL honours the SSL_read/SSL_write retry contract, emits application data only after the handshake, and "
    "its records are confidential (the check only sees that a random 32-byte marker never appears in the raw stream)",
    "A-TCP: loopback is a lossless FIFO",
    "A-CLOCK / A-SSL fail-stop (C07 for the TLS glue): the limited-budget theorem assumes a wait(t>=0) returns within t, send/recv take no time, "
    "and that after a failed BIO callback the engine makes no further BIO call and reports no success, and never writes zero bytes (true of libssl)",
    "handshake completion is a theorem of the glue composed twice over two FIFO channels with the reference engine Hs.engine "
    "(healthy channel: every write accepted in full, arbitrary read segmentation) for: any order of zero-timeout calls under "
    "fairness (no side starved: handshake_completes_any_schedule / _counting / _prog_fair); any per-call timeouts T >= 0 under "
    "virtual time in a SEQUENTIAL composition (handshake_completes_any_timeouts); one side with an unlimited timeout while the "
    "other polls with timeout 0, the blocked side resuming at the end of a peer call (handshake_completes_one_side_unlimited); "
    "a driver-operated asynchronous endpoint of either role with a send queue (readable and writable tasks, DriverQuery's POLLOUT "
    "protocol; a client must have a buffer queued, else its lazy handshake never starts) paired with a polling synchronous peer "
    "(handshake_completes_async_endpoint, handshake_completes_async_server). "
    "Async/async pairings, an async endpoint with a blocking peer, both sides "
    "blocking at once, limited timeouts with true concurrency, short/refused writes and the agreement of the reference engine "
    "with OpenSSL rest on the pairing matrix run here (complete in the thorough tier)",
]
TRUSTED = ["tools/cxx2lean_tls.py stage 5 (DESIGN.md 0.7.4): the TLS glue over Gen.TlsWorld (fields as world state, libssl and the socket layer as world calls, UnderDeadline inlined, switch / counted for loops, asserts skipped = NDEBUG); Model/GenTlsWorld.lean reads Model/Tls.lean + Net.lean as that interface (SSL_ERROR_* numbers, ms clock in ns, interp as the engine call); the retry loops Read/Write and interp are not tied",
           "system OpenSSL 3 (libssl/libcrypto)", "link-time interposition of SSL_read/SSL_write_ex/BIO_get_data in the harness",
           "the run-time property predicate is lean/SockModel/Spec/C18.lean (typed observations Obs, specStep / specRun / specFinal; "
           "Drive/C18.lean only parses lines into Obs); its event-by-event part specRun is proved to accept every trace of the glue model "
           "(spec_holds_on_model_partial); NOT linked to the model: the end-of-case clauses specFinal (wire format = OpenSSL's output, "
           "payload round trip, completion, 'a non-TLS peer is reported': statements about both engines, the channel and the schedule) "
           "and the parsing of transcript lines into Obs"]
ALL_TAGS = ["send.unlimited", "send.zero", "send.limited", "recv.unlimited", "recv.zero", "recv.limited",
            "query.pollout", "query.suppressed", "query.idle", "task.readable", "task.writable", "task.pending",
            "step.idle", "enq", "query.received"]
EXHAUSTIVE = {"thorough": True, "quick": False}
SHRINK = False  # a case is one configuration; its op lines are not independent


def nontrivial(ops, tags):
    return any(t.startswith("pair.") for t in tags) and any(o.startswith(("loop", "bg")) for o in ops)


def matches_known(k, ops, msg, tr):
    return False   # F8 (async receive buffer smaller than a TLS record) was repaired upstream (e840f43): no open finding left


def case_ops(cli, srv, ct, st, cf, sf, style, seg, seed, csz, ssz, shared=0, rsz=20000, extra=""):
    """one configuration -> op lines (None if the configuration deadlocks by application design)"""
    sync_c, sync_s = cli != "async", srv != "async"
    bg_c = sync_c and ct == -1
    bg_s = sync_s and st == -1
    corder = "sr" if cf == "s" else "rs"
    sorder = "sr" if sf == "s" else "rs"
    # who would wait for the other's payload before sending anything
    waits_c = cf == "r" and (bg_c or (sync_c and style == "seq") )
    waits_s = sf == "r" and (bg_s or (sync_s and style == "seq"))
    if waits_c and waits_s:
        return None
    if waits_c and ssz == 0 or waits_s and csz == 0:
        return None
    ops = ["setup cli=%s srv=%s csz=%d ssz=%d segc=%d segs=%d seed=%d shared=%d rsz=%d%s" %
           (cli, srv, csz, ssz, seg, seg, seed, shared, rsz, (" " + extra) if extra else "")]
    toks = []
    for side, kind, T, order, bg, first in (("c", cli, ct, corder, bg_c, cf), ("s", srv, st, sorder, bg_s, sf)):
        if kind == "async":
            toks.append("%s:%s:%d" % (side, "enq" if first == "s" else "enqafter", 1 + (seed % 2)))
            if not (shared and side == "s" and cli == "async"):
                toks.append("%s:step:%d" % (side, 0 if seed % 3 else 17))
        elif bg:
            ops.append("bg %s %s" % (side, order))
        elif style == "seq":
            toks.append("%s:seq:%s:%d" % (side, order, T))
        else:
            for ph in order:
                toks.append("%s:%s:%d" % (side, "send" if ph == "s" else "recv", T))
    if toks:
        ops.append("loop %d %s" % (2000 if (bg_c or bg_s) else 400, " ".join(toks)))
    if bg_c or bg_s:
        ops.append("join")
    ops.append("final")
    return ops


def matrix():
    for cli, srv in itertools.product(KINDS, KINDS):
        cts = TIMEOUTS if cli != "async" else [0]
        sts = TIMEOUTS if srv != "async" else [0]
        for ct, st in itertools.product(cts, sts):
            styles = ["seq", "poll"] if ((cli != "async" and ct >= 0) or (srv != "async" and st >= 0)) else ["seq"]
            shareds = [0, 1] if (cli == "async" and srv == "async") else [0]
            for cf, sf, style, seg, shared in itertools.product("sr", "sr", styles, SEGS, shareds):
                yield (cli, srv, ct, st, cf, sf, style, seg, shared)


def specials(rng):
    out = []
    # a peer that does not speak TLS, in both roles, for every kind and timeout mode
    http = "474554202f20485454502f312e310d0a486f73743a20780d0a0d0a"  # GET / HTTP/1.1
    for kind in KINDS:
        for T in ([0] if kind == "async" else TIMEOUTS):
            step = ("s:step:0" if kind == "async" else "s:recv:%d" % T)
            out.append(["setup cli=basic srv=%s csz=0 ssz=100 seed=%d shared=0 rsz=20000 plain=cli" % (kind, rng.randrange(10**6)),
                        "raw send " + http, "loop 60 " + step, "raw read", "final"])
            stepc = ("c:enq:1 c:step:0" if kind == "async" else "c:send:%d" % (0 if T < 0 else T))
            # the TLS client sends its ClientHello, the plain server answers with HTTP text
            out.append(["setup cli=%s srv=basic csz=100 ssz=0 seed=%d shared=0 rsz=20000 plain=srv" % (kind, rng.randrange(10**6)),
                        "loop 3 " + stepc, "raw read", "raw send 485454502f312e3120343030204261640d0a0d0a", "loop 60 " + stepc, "raw read", "final"])
    # TLS 1.2 (record-type rule is strict there)
    for cli, srv in (("basic", "basic"), ("async", "buffered"), ("buffered", "async"), ("async", "async")):
        o = case_ops(cli, srv, 0, 0, "s", "s", "seq", rng.choice([0, 7, 100]), rng.randrange(10**6), 3000, 20000, extra="ver=12")
        out.append(o)
    # more than 9 TLS records in one Send (e3dfab5): small records make it cheap
    for cli, T in (("basic", -1), ("basic", 0), ("buffered", 50), ("async", 0)):
        o = case_ops(cli, "basic", T, 0, "s", "r", "seq", 0, rng.randrange(10**6), 9000, 50, extra="frag=512")
        out.append(o)
    # congested full-duplex transfer with zero/limited timeouts (ee81033), polling style
    for T in (0, 50):
        o = case_ops("basic", "buffered", T, T, "s", "s", "poll", 0, rng.randrange(10**6), 60000, 60000, extra="bufs=8192")
        out.append(o)
    # congested ASYNC sender (F14, fixed by 91eb40d): a multi-record buffer against tiny socket buffers and a slowly polling
    # reader, so that one DriverSend completes a record and has the next one refused (WANT_WRITE after progress); the
    # retry then comes from the buffer DriverSend has erased the sent prefix from
    for srv, style, csz in (("basic", "poll", 60000), ("buffered", "seq", 60000), ("async", "seq", 100000)):
        o = case_ops("async", srv, 0, 0, "s", "r", style, 0, rng.randrange(10**6), csz, 50, extra="bufs=8192")
        out.append(o)
    # F15 (fixed by the commit recorded in known_findings.json): another TLS socket of the same thread was destroyed in the
    # middle of its handshake (entry left in the thread's OpenSSL error queue): the endpoints under test must be unaffected
    # (OpenSSL itself clears the queue while it drives a handshake, so the entry must be left AFTER the pair under test is
    # established: first the client's payload, then the poisoning, then the server's payload)
    for cli, srv, T in (("basic", "basic", 0), ("buffered", "basic", 50), ("basic", "buffered", 0), ("buffered", "buffered", 50)):
        o = case_ops(cli, srv, T, T, "s", "s", "poll", 0, rng.randrange(10**6), 3000, 100)
        out.append([o[0], "loop 20 c:send:%d s:recv:%d" % (T, T), "poison",
                    "loop 400 c:recv:%d s:send:%d c:recv:%d" % (T, T, T), "final"])
    for kind in ("async",):
        o = case_ops("basic", kind, 0, 0, "s", "s", "seq", 0, rng.randrange(10**6), 3000, 100)
        out.append([o[0], "loop 40 c:send:0 s:step:0", "poison", "loop 400 s:enq:1 s:step:0 c:recv:0", "final"])
    # a buffered endpoint used through the synchronous API first (blocking, zero or limited timeout) and then handed to a
    # driver: what the synchronous calls left in the glue (budget, cached WANT_*) must not leak into the driver's calls
    for T in (-1, 0, 50):
        o = case_ops("buffered", "basic", T, 0, "s", "s", "seq", rng.choice([0, 7]), rng.randrange(10**6), 100, 3000)
        first = ["bg c s", "loop 2000 s:recv:0", "join"] if T < 0 else ["loop 60 c:send:%d s:recv:0" % T]
        out.append([o[0]] + first + ["upgrade c", "loop 400 s:send:0 c:step:17", "final"])
    # short writes of the kernel
    for cli, srv in (("basic", "async"), ("async", "basic"), ("buffered", "buffered")):
        o = case_ops(cli, srv, 0, 50, "s", "s", "seq", 7, rng.randrange(10**6), 5000, 5000, extra="wsegc=1000 wsegs=333")
        out.append(o)
    # DriverPending: an async side with nothing queued whose handshake flight is cut short by the kernel
    for cli, srv in (("basic", "async"), ("async", "async")):
        o = case_ops(cli, srv, 0, 0, "s", "r", "seq", 0, rng.randrange(10**6), 3000, 100, extra="wsegs=200 wsegc=150")
        out.append(o)
    # F8 (fixed by e840f43): async receive buffer smaller than one TLS record - the rest of the decrypted record must be
    # delivered by the following steps without any further wire event (tag query.received)
    for srv_first, csz, rsz in (("r", 10000, 4096), ("r", 40000, 1000), ("s", 16384, 16383)):
        out.append(case_ops("basic", "async", 0, 0, "s", srv_first, "seq", 0, rng.randrange(10**6), csz, 0 if srv_first == "r" else 50, rsz=rsz))
    out.append(case_ops("async", "async", 0, 0, "s", "s", "seq", 0, rng.randrange(10**6), 30000, 30000, shared=1, rsz=777))
    return [o for o in out if o]


def gen(rng, tier):
    cases = []
    k = 0
    sizes = [1, 100, 100, 3000, 3000, 20000]
    combos = list(matrix())
    if tier == "quick":
        combos = rng.sample(combos, 260)
    for (cli, srv, ct, st, cf, sf, style, seg, shared) in combos:
        csz, ssz = rng.choice(sizes), rng.choice(sizes)
        if seg == 1:
            csz, ssz = min(csz, 3000), min(ssz, 3000)
        ops = case_ops(cli, srv, ct, st, cf, sf, style, seg, rng.randrange(10**6), csz, ssz, shared)
        if ops is None:
            continue
        cases.append(("tls", "m%d" % k, ops))
        k += 1
    for ops in specials(rng):
        cases.append(("tls", "s%d" % k, ops))
        k += 1
    if tier == "thorough":
        # one genuinely large send (> 9 full-size records) per synchronous kind
        for cli in ("basic", "buffered"):
            cases.append(("tls", "L%d" % k, case_ops(cli, "basic", -1, 0, "s", "r", "seq", 0, rng.randrange(10**6), 200000, 10)))
            k += 1
    return cases


TECHNIQUE = ("Lean 4 theorems about an executable model of the TLS glue over an abstract engine (interaction trees) and an abstract OS, "
             "+ model/implementation correspondence with real OpenSSL 3 (engine and OS answers replayed into the model call by call) "
             "+ a run-time oracle (Spec/C18.lean) whose event-by-event clauses are a theorem of the model (simulation relation, induction over the history)")
LEVEL_TEXT = ("Machine-checked theorems about the library's TLS glue (Read/Write retry loops, error handling, BIO tunnel, "
              "DriverQuery/DriverPending, the four entry points, the async send queue) for EVERY engine behaviour and EVERY OS "
              "behaviour: raw sends carry exactly the bytes the engine handed to the write BIO and application bytes cannot influence "
              "the wire except through ssl_write (non-interference); nothing is delivered unless the engine answered `done` (hence only "
              "after init_finished under the engine contract) and an engine error always surfaces as an exception with zero bytes, "
              "sticky; the POLLOUT protocol invariant (queued data is always armed or remembered as suppressed, restored after the "
              "handshake); Write's count/retry-same-buffer discipline; Read's bounds; no stale WANT_READ/WANT_WRITE across calls and no "
              "round-limit cut of a long Send after the handshake; Shutdown (the destructor's orderly close) reads the peer's input whenever the first SSL_shutdown is incomplete or fails - 1..handshakeStepsMax reads, every delivery followed by another read - so that the close is not turned into a reset that discards sent data (shutdown_reads_before_close; tied to the translated Shutdown by tie_Shutdown, DESIGN 0.22). The three pre-fix variants (319faf2, e3dfab5, ee81033) are kept as "
              "Legacy configurations with proved violations. Completion of the handshake is proved for the real glue model composed "
              "twice over two FIFO channels with a reference handshake engine (handshake_completes_partial: both endpoints synchronous, "
              "timeout 0, polling schedule [c.Send, s.Receive, s.Send, c.Receive], every flight size, payload, receive size and wire "
              "segmentation; explicit bound 2(k1+k2+k3+3) rounds; no call throws; decreasing measure round_progress) and, beyond the polling "
              "schedule (DESIGN 0.18, Props/C18Hs.lean): for EVERY schedule of zero-timeout calls - any order of the two sides' calls, any mix of "
              "Send/Receive, per-call receive sizes, finite or infinite - in which no side is starved (per-call lemma call_progress; weakest "
              "form handshake_completes_counting: 2(k1+k2+k3+3) calls made by a side that could progress; handshake_completes_any_schedule: "
              "each side calls once per window of w calls, bound w*2(k1+k2+k3+3); starved_server/client_never_completes show the hypothesis is "
              "needed); for arbitrary per-call timeouts T>=0 under virtual time (timed_call_is_zero_call for ANY engine: a call with T>=0 on the "
              "healthy channel is the zero-timeout call plus at most T of clock; handshake_completes_any_timeouts); for one side calling with an "
              "unlimited timeout while the other polls, in an interleaving semantics where a blocked wait runs the peer's real calls until the "
              "descriptor is ready (blocked_wait_is_released, unlimited_send/receive_completes_handshake, handshake_completes_one_side_unlimited); "
              "and for a driver-operated asynchronous endpoint of either role, with a send queue, paired with a polling synchronous peer "
              "(deemed_flags_are_harmless for ANY engine: the driver's readable/writable tasks are zero-timeout calls; readable_task_clears_flag; "
              "readable_task_progress / writable_task_progress; handshake_completes_async_endpoint: every fair schedule of driver steps, user "
              "enqueues and peer calls, bound w*2(k1+k2+k3+3), Armed and its converse throughout; handshake_completes_async_server), followed by the payload phase "
              "for the call order that exposed F7 (send_after_idle_receive_flows) and the refutation of the pre-319faf2 glue in the same "
              "composition (legacy_stall_state_reached, legacy_polling_schedule_stalls: handshake done, channels empty for ever); for the other "
              "pairings / timeout modes / call orders it is established by the exhaustive implementation matrix only. C07 for the TLS glue (DESIGN 0.14): for every engine, world, starting state and number of rounds / BIO calls / partial sends, with every wait read off a logging world (logging_is_transparent): timeout 0 issues only zero waits and lets no time pass (tls_zero_never_blocks); a negative timeout issues only unlimited waits and, with a blocking engine, never returns nothing / a short count (tls_unlimited_waits, tls_unlimited_receive_never_nothing, tls_unlimited_send_complete); a non-negative budget never turns negative in any world (tls_budget_never_negative); a positive timeout T: every wait argument t satisfies 0 <= t <= T - elapsed and the call returns by entry+T (tls_limited_budget, under ClockOk and Engine.FailStop); the seeded BioRead-without-write-back is refuted as a counter-model with total wait 2T (seeded_bioRead_doubles_the_wait) and each engine hypothesis is shown necessary (stale_budget_after_callback_failure, stale_budget_after_empty_write, unlimited_receive_needs_blocking_engine). Tied to /repo on every run: the real sockets run the pairing matrix against real OpenSSL; "
              "every SSL_read/SSL_write_ex answer, BIO callback and poll/send/recv is replayed into the model, which must make the "
              "same calls and return the same results; Spec.C18 (lean/SockModel/Spec/C18.lean: specRun, then specFinal) is evaluated on the raw bytes and API results. "
              "The oracle is tied to the model: spec_holds_on_model_partial - for every glue configuration, every kernel with the harness's virtual clock, every engine "
              "under the contract EngOk (plaintext only after init_finished and never from a non-TLS peer; fail-stop), every fresh pair of endpoints "
              "(sync / async / absent, TLS or plain peer) and every history of any length (Send/Receive with any timeout, Send(buffer), driver steps with any "
              "poll result, any interleaving) in which no assert of the glue fires, specRun accepts the model's trace: the C07 budget clauses, 'nothing delivered "
              "before done+init_finished / from a non-TLS peer / as an empty buffer', 'disconnect handler at most once' and MSG_NOSIGNAL are consequences of the model; "
              "the oracle is never stricter than the model on these clauses.")
LEVEL_NOTE = ("spec_holds_on_model_partial covers the event-by-event clauses (Spec.specRun) only: the end-of-case clauses (Spec.specFinal: wire format, "
              "received = prefix / all of what the peer sent, no failure on a healthy connection, exchange not stuck, a non-TLS peer is reported) are about OpenSSL, the "
              "channel and the schedule and are checked on the implementation only; hypotheses: VClock (A-CLOCK + a wait that times out waited its whole timeout), EngOk, "
              "no assert fires (a firing assert is a crash and is rejected by the predicate). The C07 budget theorems for the TLS glue assume A-CLOCK (ClockOk: clock monotone across waits, a wait(t>=0) returns within t, send/recv on the non-blocking descriptor take no time) and, for T>0, A-SSL fail-stop (after a BIO callback returned -1 libssl makes no further BIO call and reports no success; BIO_write is never invoked with 0 bytes): UnderDeadline/BioWrite do not write the budget back on the exception path and a zero-length SendSome that times out restores the full budget - latent, unreachable with libssl, witnesses in Props/C18.lean. handshake_completes is proved in the forms listed above (any fair order of zero-timeout calls; per-call timeouts T>=0 in a "
              "sequential composition under virtual time; one side unlimited + one side polling, blocked side resumed at peer-call granularity; "
              "asynchronous endpoint of either role with a send queue + polling synchronous peer), always with the reference engine on a healthy channel "
              "(every write accepted in full, any read segmentation), NOT in full: async/async pairings, an asynchronous endpoint with a blocking peer, "
              "both sides blocking, and concurrency finer than call granularity are not covered by a liveness theorem; the pre-ee81033 variant is refuted at the single-endpoint "
              "level only (the healthy channel of the composition never refuses a write). Trusted: Lean kernel; axioms propext/Quot.sound/Classical.choice; the hand-written model (correspondence on the "
              "generated matrix only); harness, vos shim and the OpenSSL interposers. Confidentiality and the TLS protocol itself are "
              "OpenSSL's (assumed); handshake completion for the async pairings not listed above rests on the pollout_protocol "
              "invariant plus the exhaustive implementation matrix, not on a liveness theorem. F8 (async receive buffer smaller than a "
              "TLS record) is repaired upstream (e840f43); the model carries both sides: legacy_pending_stalls / received_is_served.")

"""C09  UDP datagrams: boundaries, payload, source and destination preserved."""
import itertools

ID = "C09"
SRC = ["scen/udp.cpp", "vos/vos.cpp"]
HARNESSES = {
    "udp": dict(sources=SRC, flavour="asan", mode="C09", timeout=30),
    "default": dict(name="udp", sources=SRC, flavour="asan", mode="C09", timeout=30),
}
RULE = ("histories of SendTo / async SendTo / Step(0) / ReceiveFrom / destroy over 2-5 UDP sockets of the three API levels "
        "(basic, buffered, async; rx pool count in {1,2,0}, rx size in {1,7,100,1472,65507,70000,0=SO_RCVBUF}) bound to loopback, "
        "IPv4 or IPv6, any sender to any receiver (also itself); datagram sizes in {0,1,2,3,17,100,1472,1473,9000,65507,65508,65527,65528}; "
        "receive room smaller/equal/larger; timeouts {-1,0,1,50,1000} ms under the virtual clock; sendto script pass / fail errno / "
        "short k / wait-timeout; EMSGSIZE arises for real above 65507 (v4) / 65527 (v6). thorough adds every history of <= 5 ops over "
        "one async sender, one basic receiver. non-trivial = a truncating receive, a failed/oversize/timed-out send or an async send "
        "right after a failed one occurred; distinct op sequences.")
ASSUMPTIONS = [
    "loopback UDP with a receive queue that is not overrun (SO_RCVBUFFORCE 8 MB per socket in the harness) is lossless and ordered per receiver",
    "recvfrom fills in the sender's bound address",
    "a bound UDP socket is reported writable by poll; readable iff a datagram is queued",
    "within one case socket ordinals and async message ids are not re-used and operations name live sockets of the right API level "
    "(the harness skips anything else; such operations are no-ops of the composed model Udp.sysStep)",
]
TRUSTED = ["tools/cxx2lean_eff.py stage 4 (DESIGN.md 0.7.3): the async send queue over Gen.QueueWorld (operations recognised by canonical callee text + argument patterns + provenance of the structured binding), try/catch as M.tryCatch (system_error is-a runtime_error), lock_guard as lock/unlock calls on normal exits only; Model/GenQueueWorld.lean reads the queue models as that interface; dispatch chain: poll bit values from the macro expansion, branches recognised by exact statement text",
           "kernel UDP/loopback (the channel assumption is the definition of NetOp.deliver)",
           "OS answers of the composed model (Udp.osWait/osSend: sendto fails with EMSGSIZE above 65507 (v4) / 65527 (v6) bytes, otherwise as scripted; "
           "Step: the observed answer of its sendto) - compared with the real kernel / shim on every run",
           "parsing of transcript lines into the typed observations Udp.Obs (Drive/C09.lean)"]
ALL_TAGS = ["v4", "v6", "sock.basic", "sock.buff", "sock.async", "send.ok", "send.empty", "send.timeout", "send.fail", "send.emsgsize",
            "send.short", "recv.trunc", "recv.exact", "recv.fits", "recv.empty", "recv.none", "arecv", "asend", "asend.ok", "asend.fail",
            "asend.after_fail", "destroy.pending", "destroy.idle"]
EXHAUSTIVE = {"thorough": False}
# "-> skipped" is an observation of this property (an unlimited ReceiveFrom on a socket that is not readable is not attempted),
# not the framework's "-> skip <reason>" (environment trouble during set-up): without this a third of the cases was excluded unchecked
SKIP_MARKER = "-> skip setup failed"
SHRINK = True

SIZES = [0, 0, 1, 1, 2, 3, 17, 17, 100, 100, 1472, 1473, 9000, 65507, 65508, 65527, 65528]
RXS = [1, 7, 100, 1472, 65507, 70000, 0]
ERRNOS = [105, 1, 111, 113, 101]  # ENOBUFS EPERM ECONNREFUSED EHOSTUNREACH ENETUNREACH


def nontrivial(ops, tags):
    return any(t in tags for t in ("recv.trunc", "send.fail", "send.emsgsize", "send.timeout", "asend.after_fail", "asend.fail"))


def rand_history(rng):
    fam = rng.choice([4, 6])
    ops = ["fam %d" % fam]
    n = rng.randrange(2, 6)
    kinds = {}
    for i in range(1, n + 1):
        k = rng.choice(["basic", "buff", "async", "async"])
        kinds[i] = k
        if k == "basic":
            ops.append("sock %d basic" % i)
        else:
            ops.append("sock %d %s %d %d" % (i, k, rng.choice([1, 2, 0]), rng.choice(RXS)))
    m = 0
    alive = set(kinds)
    last_len = 17
    for _ in range(rng.randrange(4, 36)):
        if not alive:
            break
        x = rng.random()
        if x < 0.45:
            i = rng.choice(sorted(alive))
            j = rng.choice(sorted(alive))
            m += 1
            ln = rng.choice(SIZES)
            last_len = ln
            if kinds[i] == "async":
                ops.append("asend %d %d %d %d" % (i, j, m, ln))
            else:
                t = rng.choice([-1, -1, 0, 1, 50, 1000])
                y = rng.random()
                if y < 0.72:
                    sc = "pass"
                elif y < 0.84:
                    sc = "fail %d" % rng.choice(ERRNOS)
                elif y < 0.92:
                    sc = "short %d" % rng.choice([0, 1, max(0, ln - 1), ln, ln + 5])
                else:
                    sc = "timeout" if t >= 0 else "pass"
                ops.append("sendto %d %d %d %d %d %s" % (i, j, m, ln, t, sc))
        elif x < 0.75:
            ops.append("step " + ("pass" if rng.random() < 0.8 else "fail %d" % rng.choice(ERRNOS)))
        elif x < 0.97:
            cand = [i for i in sorted(alive) if kinds[i] != "async"]
            if cand:
                i = rng.choice(cand)
                size = rng.choice([last_len, max(0, last_len - 1), last_len + 1, 1, 7, 70000, 0, last_len // 2])
                ops.append("recv %d %d %d" % (i, size, rng.choice([-1, 0, 0, 5, 1000])))
        else:
            i = rng.choice(sorted(alive))
            ops.append("destroy %d" % i)
            alive.discard(i)
    # flush: let the driver finish, then read everything
    for _ in range(rng.randrange(0, 10)):
        ops.append("step pass")
    for i in sorted(alive):
        if kinds[i] != "async":
            for _ in range(rng.randrange(0, 4)):
                ops.append("recv %d %d 0" % (i, rng.choice([70000, 70000, 3])))
    return ops


def gen(rng, tier):
    cases = []
    count = 500 if tier == "quick" else 20000
    for k in range(count):
        cases.append(("udp", "u%d" % k, rand_history(rng)))
    if tier == "thorough":
        alphabet = ["asend 1 2 %d 3", "asend 1 2 %d 0", "step pass", "step fail 105", "recv 2 2 0", "recv 2 100 0"]
        k = 0
        for L in range(1, 6):
            for h in itertools.product(alphabet, repeat=L):
                if not any(o.startswith("asend") for o in h):
                    continue
                ops = ["fam 4", "sock 1 async 1 100", "sock 2 basic"]
                m = 0
                for o in h:
                    if "%d" in o:
                        m += 1
                        ops.append(o % m)
                    else:
                        ops.append(o)
                ops += ["step pass"] * 3 + ["recv 2 100 0"] * 3
                cases.append(("udp", "x%d" % k, ops))
                k += 1
    return cases


TECHNIQUE = ("Lean 4 theorems (all sizes/timeouts/answers for SendTo; invariant over all send/receive histories of the datagram network; "
             "invariant over all SendToQ action histories; simulation proof that the executable property predicate accepts every trace of the "
             "composed model) + model/implementation correspondence over loopback with scripted sendto/poll")
LEVEL_TEXT = ("Machine-checked Lean 4 theorems about an executable model of SocketImpl::SendTo (one wait, one sendto), of ReceiveFrom at the "
              "three API levels (payload truncated to the caller's size / rxBufSize, source reported), of the per-receiver datagram FIFO, and of the "
              "async SendToQ: result in {len, 0} with 0 only for an expired limited wait (sendTo_all_or_nothing), report = prefix + source and "
              "exactly one datagram consumed per receive (recvFrom_prefix_source), for every history and every number of senders/receivers the "
              "datagrams addressed to a socket are, in order and each once, the reported ones followed by the queued ones (udp_lossless_in_order), "
              "a failed async element affects only its own future and the next writable event sends the next element "
              "(asyncSendTo_isolated_failure), the datagrams handed to the OS are exactly the enqueued ones whose future has a value, in order "
              "(asyncSendTo_future_truth). Tied to /repo on every run: real SocketUdp / SocketUdpBuffered / SocketUdpAsync sockets on one Driver over "
              "IPv4 and IPv6 loopback, sizes 0..65528, truncating receives, virtual-clock timeouts, errno injection and real EMSGSIZE; every "
              "result, report (length, hash, source), future and pool state is compared with the model and the property is evaluated on the observations. "
              "The property predicate is Spec/C09.lean (typed observations Udp.Obs, total functions specStep/specRun: SendTo results, every report = "
              "the fitting prefix of the oldest outstanding datagram with its sender, nothing lost/duplicated/invented, one socket task per step, async "
              "sends in queue order and not held up, future letters and returned buffers); the driver only parses lines into Udp.Obs and calls it, and "
              "theorem spec_holds_on_model (= Udp.model_satisfies_spec, no hypothesis) proves that this very predicate accepts every trace of the composed "
              "model Udp.sysStep (sendTo + datagram network + one SendToQ per socket + the driver's dispatch order, built from the functions of "
              "Model/Udp.lean) for every history of operations of any length with arbitrary arguments and OS answers - so a spec verdict on the "
              "implementation is provably a difference between implementation and model.")
LEVEL_NOTE = ("Trusted: Lean kernel; axioms propext/Quot.sound/Classical.choice; hand-written model (correspondence on generated histories only); "
              "kernel UDP delivery and recvfrom's source address (channel assumption); harness and vos shim. The POLLOUT arming race of the async "
              "path is the one proved for C02 (same DoSend template); the SendToQ model merges enqueue and arm.")

"""C04  Managing sockets/ToDos against a running driver is safe (exclusion, quiescence)."""
from props import threadgen

ID = "C04"
SRC = threadgen.SRC
HARNESSES = {
    "threads": dict(sources=SRC, flavour="asan", mode="C04", timeout=40),
    "default": dict(name="threads", sources=SRC, flavour="asan", mode="C04", timeout=40),
}
RULE = ("one driver thread (Run, or k x Step(T)) and 1-4 user threads, each a random program of management calls (attach/detach an "
        "async UDP socket, SendTo, ToDo create/Cancel/Shift, Stop, waiting for futures/handlers/tasks), all real library threads run "
        "under a deterministic cooperative scheduler that switches at every pthread_mutex_lock/trylock/unlock, poll, sendto, recvfrom; "
        "schedules from a per-case PRNG (thorough: plus every choice prefix of depth 7 for two small scenarios). Each trace must be a "
        "path of the Locks transition system (validator proved sound) with the same stepMtx owner after every event. "
        "non-trivial = at least one failed try-lock (the PauseGuard/StepGuard hand-shake was exercised); distinct op+seed.")
ASSUMPTIONS = ["A-MUTEX/A-SC: pthread mutexes are mutexes; code between two sync points is atomic w.r.t. other library threads "
               "(the scheduler runs one thread at a time); races below lock granularity are looked for by the real-thread TSan run only",
               "std::atomic<bool> accesses are placed at the marker of the API call they belong to (same uninterrupted segment)"]
TRUSTED = ["harness/sched (cooperative scheduler, interposition of pthread_mutex_*, poll, sendto, recvfrom, CLOCK_MONOTONIC)",
           "Drive/C04.lean toEv (parsing of trace lines into the typed observations of Spec/C04.lean); the predicate itself is not trusted: "
           "spec_holds_on_model proves it accepts every trace of the model"]
ALL_TAGS = ["contended", "uncontended", "handler", "task", "close", "cancel", "shift", "stop", "run-exit", "dpoll"]
EXHAUSTIVE = {}
SHRINK = False  # removing threads/actions changes the scenario (e.g. drops the stopper); the replay is ops + schedule


def nontrivial(ops, tags):
    return "contended" in tags


def gen(rng, tier):
    n = 400 if tier == "quick" else 30000
    cases = []
    for k in range(n):
        seed = rng.randrange(1, 10**9)
        ops = threadgen.mixed_case(rng, seed) if rng.random() < 0.75 else threadgen.silent_case(rng, seed)
        cases.append(("threads", "m%d" % k, ops))
    for i, ops in enumerate(threadgen.race_cases(rng, 40 if tier == "quick" else 600)):
        cases.append(("threads", "r%d" % i, ops))
    if tier == "thorough":
        base1 = ["sched 7", "drv run", "usr u1 udp sendto close", "usr u2 todo:0 cancel", "usr stopper waitothers stop", "go"]
        base2 = ["sched 7", "drv steps 3 0", "usr u1 udp close", "usr u2 todo:0 shift:0", "go"]
        for i, ops in enumerate(threadgen.prefix_cases(base1, 7, 3) + threadgen.prefix_cases(base2, 7, 3)):
            cases.append(("threads", "x%d" % i, ops))
    return cases


TECHNIQUE = ("Lean 4 inductive invariant over a lock-protocol LTS with unboundedly many user threads + sound trace validation of scheduled real "
             "executions; the run-time oracle (Spec/C04.lean) is proved to accept every trace of the model (simulation relation, induction over the history)")
LEVEL_TEXT = ("Machine-checked: an inductive invariant (ownership of stepMtx/pauseMtx, no-lost-wake-up, stop-seen) over the labelled "
              "transition system of StepGuard/PauseGuard/Bump/Unbump/Run/Stop for ONE driver thread and ANY number of user threads with "
              "arbitrary programs; from it: at most one thread is in a step-protected region and it owns stepMtx (handlers, tasks and "
              "management mutations never overlap), quiescence at lock level (while a user thread is in its critical section the driver "
              "is outside every handler/task) and quiescence at data level over the dispatch model (destroyed_socket_stays_silent, "
              "disconnected_socket_stays_silent: after AsyncUnregister NO continuation of any history - peers sending, closing, resetting, "
              "other sockets, any steps - ever invokes a handler of that socket again; ids are never reused) and over the ToDo model "
              "(cancelled_todo_never_runs, executed_todo_runs_once: after Cancel no continuation invokes the task unless a Shift, the only "
              "operation that re-schedules an existing ToDo, occurs in the continuation or in a task body). The executable validator is proved sound (accepted traces are Tr-paths inside Reach). "
              "Tied to /repo by running the real library threads under a deterministic scheduler and requiring every lock/poll/pipe event "
              "to be a transition of the model with identical mutex ownership, plus direct checks of the property on the trace "
              "(no overlap, handler on driver thread holding stepMtx, nothing after destructor/Cancel returned). "
              "These direct checks are the predicate of Spec/C04.lean (typed observations Locks.Spec.Obs, total functions specStep/specRun = the "
              "monitors stepA (C04), stepB (C05), stepC (C08); the driver only parses lines and calls them), and theorem spec_holds_on_model "
              "(= Locks.Spec.model_satisfies_spec, no hypothesis) proves that this very predicate accepts every trace of the model: the unchanged "
              "lock LTS composed with the handler/task in progress, registered sockets, listed ToDos and recursive acquisitions of stepMtx, for "
              "every history of LTS transitions of any number of threads, returning management calls (attach/close/cancel/shift/create), "
              "handler and task invocations inside a step and management calls from inside them - so a spec verdict on the implementation is a "
              "difference between implementation and model, and the oracle is never stricter than the model.")
LEVEL_NOTE = ("Trusted: Lean kernel; axioms propext/Quot.sound/Classical.choice; the LTS as a description of the code's sync skeleton "
              "(validated on scheduled executions only); the scheduler. 'Without data races or memory errors' below lock granularity is NOT "
              "proved: the ASan build of the scheduled runs and a real-thread run look for them (testing, labelled as such).")


def extra_checks(runner, rng, tier, stats, seed):
    """real threads under ThreadSanitizer and AddressSanitizer (no cooperative scheduler): the sanity net for what the
    lock-level model abstracts away.  Testing, labelled as such."""
    import vlib
    out = []
    n = 0
    for flavour, env in (("tsan", {"TSAN_OPTIONS": "halt_on_error=1:exitcode=66"}), ("asan", None)):
        exe = vlib.build_harness("threads_rt", flavour, ["scen/threads_rt.cpp"])
        k = 6 if tier == "quick" else 60
        cases = [("rt%d" % i, ["rt %d %d %d" % (rng.randrange(10**6), rng.choice([2, 3, 4]), 200 if tier == "quick" else 600)]) for i in range(k)]
        res = vlib.run_cases(exe, cases, jobs=4, env=env, timeout_per_case=120)
        for cid, ops in cases:
            n += 1
            tr = res.get(cid, [])
            if not any(l.startswith("-> rt done") for l in tr):
                path = vlib.write_replay(ID, "C04_%s_realthreads_%s.replay" % (tier, flavour),
                                         "property: C04\nkind: sanitizer report with real threads (%s)\nops: %s\nobserved: %s\n" % (flavour, ops, tr))
                out.append(("spec", path, True, "real-thread run under %s: %s" % (flavour, " ".join(tr)[-300:])))
                break
    stats["real_thread_runs"] = n
    return out


def extra_coverage(stats):
    return {"real_thread_sanitizer_runs": stats.get("real_thread_runs", 0)}

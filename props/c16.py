"""C16  Signals interrupting a wait are invisible."""
from props import sockgen

ID = "C16"
HARNESSES = {
    "sockops": dict(sources=sockgen.SRC, flavour="asan", mode="C16", timeout=30),
    "default": dict(name="sockops", sources=sockgen.SRC, flavour="asan", mode="C16", timeout=30),
    "todos": dict(sources=["scen/todos.cpp", "vos/vos.cpp"], flavour="asan", mode="C16step", timeout=30),
}
RULE = ("the C07 grid (7 blocking operations x T in {-1,0,1,2,17,1000,2^31-1} x arrival {there, T-1, T, T+1, never}) re-run with "
        "1, 2, 5 scripted EINTR results of poll placed before the event / deadline (virtual clock advancing across interruptions), "
        "plus random C01-style cases with EINTR; Driver::Step under EINTR; thorough adds real signals (SIGUSR1 no-op handler, SIGINT "
        "handler calling Stop) delivered to threads blocked in real waits. non-trivial = at least one EINTR was consumed.")
ASSUMPTIONS = ["A-POLL: poll interrupted by a handled signal returns -1/EINTR and may be re-issued",
               "elapsed time across interruptions is modelled in whole milliseconds"]
TRUSTED = ["vos shim (EINTR injection into poll, virtual clock)"]
ALL_TAGS = ["eintr", "recv.none", "recv.value", "send.all", "send.try", "send.some", "sendto", "recvfrom", "listen"]
EXHAUSTIVE = {"quick": True, "thorough": True}


def nontrivial(ops, tags):
    return "eintr" in tags


def gen(rng, tier):
    cases = [("sockops", "g%d" % i, ops) for i, ops in enumerate(sockgen.grid_cases(True))]
    n = 60 if tier == "quick" else 1500
    for k in range(n):
        ops = sockgen.c01_case(rng) if rng.random() < 0.7 else sockgen.udp_case(rng)
        cases.append(("sockops", "r%d" % k, ops))
    return cases


TECHNIQUE = "Lean 4 theorems about the EINTR-retrying wait (any number/timing of interruptions) + trace validation under injected EINTR"
LEVEL_TEXT = ("Machine-checked theorems about the wait every blocking call goes through: signals alone never produce an exception; "
              "with an unlimited timeout the result equals the result on the script with all signal deliveries deleted; with a limited "
              "timeout the re-issued polls stay within the remaining budget, total blocking <= T and 'timeout' exactly at start+T; a "
              "signal followed by readiness equals readiness after the summed delay; the pre-fix wait (F2) is refuted by witness. Tied "
              "to /repo by replaying the full timeout grid with scripted EINTR results on the real sockets/Acceptor and comparing every "
              "poll argument, result and virtual time with the model.")
LEVEL_NOTE = ("Trusted: Lean kernel; axioms propext/Quot.sound/Classical.choice; model validated on the grid; vos shim. "
              "Stop() from a signal handler making Run() return is proved in C08's model and exercised with a real SIGINT in thorough.")

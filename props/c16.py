"""C16  Signals interrupting a wait are invisible."""
from props import sockgen

ID = "C16"
HARNESSES = {
    "sockops": dict(sources=sockgen.SRC, flavour="asan", mode="C16", timeout=30),
    "default": dict(name="sockops", sources=sockgen.SRC, flavour="asan", mode="C16", timeout=30),
    "todos": dict(sources=["scen/todos.cpp", "vos/vos.cpp"], flavour="asan", mode="C16step", timeout=30),
}
RULE = ("the C07 grid (7 blocking operations x T in {-1,0,1,2,17,1000,2^31-1} x arrival {there, T-1, T, T+1, never}) re-run with "
        "1, 2, 5 scripted EINTR results of poll placed before the event / deadline (virtual clock advancing across interruptions), "
        "plus random C01-style cases with EINTR; Driver::Step under EINTR; thorough adds real signals (SIGUSR1 no-op handler, SIGINT "
        "handler calling Stop) delivered to threads blocked in real waits. non-trivial = at least one EINTR was consumed.")
ASSUMPTIONS = ["A-POLL: poll interrupted by a handled signal returns -1/EINTR and may be re-issued",
               "elapsed time across interruptions is modelled in whole milliseconds"]
TRUSTED = ["tools/cxx2lean_eff.py (stage 2, DESIGN.md 0.7.1): world boundary (DoPoll, Interrupted, Clock::now, ::send, ::recv, SocketError opaque; handles dropped), C++ evaluation order, pointer = offset, string_view = (offset, length), objects = fields; Model/GenWorld.lean reads the model answers as C results",
           "vos shim (EINTR injection into poll, virtual clock)",
           "the transcript parser of Drive/C01.lean (lines -> Spec.C01.Obs / Spec.C16.StepObs); the predicates themselves are Spec/C16.lean (= Spec/C07.lean "
           "with the c16 flag, and specStepE for Driver::Step) and are no longer trusted to be consistent with the model: spec_holds_on_model / "
           "spec_holds_on_model_step prove that they accept every trace of the model"]
ALL_TAGS = ["eintr", "recv.none", "recv.value", "send.all", "send.try", "send.some", "sendto", "recvfrom", "listen", "step.eintr"]
EXHAUSTIVE = {"quick": True, "thorough": True}


def nontrivial(ops, tags):
    return "eintr" in tags


def gen(rng, tier):
    cases = [("sockops", "g%d" % i, ops) for i, ops in enumerate(sockgen.grid_cases(True))]
    k = 0
    for T in sockgen.TIMEOUTS:
        for ev in ([1], [2, 5], [1, 1, 1, 2, 5], [0], [7, 11]):
            if T >= 0 and sum(ev) > T and T != 0:
                continue
            cases.append(("todos", "st%d" % k, ["clock 1000000000"] + ["eintr %d" % d for d in ev] + ["step %d" % T] if T >= 0 else
                          ["clock 1000000000", "stop"] + ["eintr %d" % d for d in ev] + ["step %d" % T]))
            k += 1
    n = 60 if tier == "quick" else 8000
    for k in range(n):
        ops = sockgen.c01_case(rng) if rng.random() < 0.7 else sockgen.udp_case(rng)
        cases.append(("sockops", "r%d" % k, ops))
    return cases


TECHNIQUE = ("Lean 4 theorems about the EINTR-retrying wait (any number/timing of interruptions) + trace validation under injected EINTR; the run-time "
             "predicates are their own Lean module (Spec/C16.lean) proved to accept every trace of the model")
LEVEL_TEXT = ("Machine-checked theorems about the wait every blocking call goes through: signals alone never produce an exception; "
              "with an unlimited timeout the result equals the result on the script with all signal deliveries deleted; with a limited "
              "timeout the re-issued polls stay within the remaining budget, total blocking <= T and 'timeout' exactly at start+T; a "
              "signal followed by readiness equals readiness after the summed delay; the pre-fix wait (F2) is refuted by witness. Tied "
              "to /repo by replaying the full timeout grid with scripted EINTR results on the real sockets/Acceptor and comparing every "
              "poll argument, result and virtual time with the model. The run-time predicates are typed, total Lean functions of their own module "
              "(Spec/C16.lean: specStep = Spec.C07.specStepM with the c16 flag - timeout semantics kept by every operation that met a signal, 'a signal "
              "made X fail'; specStepE for a Driver::Step under injected EINTR) and theorems of the model: spec_holds_on_model (every history, every number "
              "and timing of eintr answers; T < 2^31, no 'timed out' answer to an unlimited poll) and spec_holds_on_model_step (wait T on every script "
              "without a genuine poll failure) prove that they accept every trace the model can produce.")
LEVEL_NOTE = ("Trusted: Lean kernel; axioms propext/Quot.sound/Classical.choice; model validated on the grid; vos shim. "
              "Stop() from a signal handler making Run() return is proved in C08's model and exercised with a real SIGINT in thorough.")

# ---- real signals (testing, labelled as such: the sanity net below the model) -------------------------
SIGNAL_OPS = [
    ("recvfrom -1 3 data", "value 3"), ("recvfrom 200 3 none", "none"), ("recvfrom 200 2 data", "value 3"),
    ("recvfrom 0 1 none", "none"), ("listen -1 2 data", "value 1"), ("listen 150 3 none", "none"),
    ("tcprecv -1 3 data", "value 4"), ("tcprecv 100 2 none", "none"), ("run -1 1 sigint", "returned"),
    ("run -1 3 usr1first", "returned-after-stop"), ("step 120 3", "returned"), ("step -1 2", None),
]


def extra_checks(runner, rng, tier, stats, seed):
    import vlib
    exe = vlib.build_harness("signals", "plain", ["scen/signals.cpp"])
    ops = [o for o, e in SIGNAL_OPS if e is not None]
    reps = 1 if tier == "quick" else 5
    out = []
    n = 0
    for rep in range(reps):
        res = vlib.run_cases(exe, [("sig", ops)], jobs=1, timeout_per_case=120)["sig"]
        cur = None
        for line in res:
            if line.startswith("-> "):
                if cur is None:
                    continue
                exp = dict(SIGNAL_OPS).get(cur)
                got = line[3:]
                if got.startswith("event-failed"):
                    cur = None  # environment trouble, not a verdict
                    continue
                n += 1
                if exp is not None and not got.startswith(exp):
                    path = vlib.write_replay(ID, "C16_%s_signals.replay" % tier,
                                             "property: C16\nkind: impl-spec-failure (real signals)\nop: %s\nexpected: %s\nobserved: %s\n"
                                             "replay: build harness/scen/signals.cpp against /repo and feed the op line\n" % (cur, exp, got))
                    out.append(("spec", path, True, "real signal changed the outcome of '%s': %s (expected %s)" % (cur, got, exp)))
                cur = None
            else:
                cur = line.strip()
    stats["real_signal_runs"] = n
    return out


def extra_coverage(stats):
    return {"real_signal_operations_checked": stats.get("real_signal_runs", 0)}

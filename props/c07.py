"""C07  Timeouts mean what the documentation says, for every blocking call."""
from props import sockgen, c06, c18

ID = "C07"
HARNESSES = {
    "sockops": dict(sources=sockgen.SRC, flavour="asan", mode="C07s", timeout=30),
    "default": dict(name="sockops", sources=sockgen.SRC, flavour="asan", mode="C07s", timeout=30),
    "todos": dict(sources=c06.SRC, flavour="asan", mode="C06", timeout=30),
    # the TLS socket's waits (handshake rounds, BIO callbacks, HandleError): C18's harness and driver, whose spec carries
    # the timeout clauses (unlimited -> only unlimited waits, zero -> only zero waits, T > 0 -> every wait within the
    # remaining budget) and whose correspondence replays every wait against the glue model
    "tls": dict(c18.HARNESSES["tls"]),
}
RULE = ("complete grid: 7 blocking operations (TCP Receive basic/buffered, TCP Send, UDP SendTo, UDP ReceiveFrom basic/buffered, "
        "Acceptor::Listen) x T in {-1,0,1,2,17,1000,2^31-1} x arrival of the awaited event in {already there, T-1, T, T+1, never}, "
        "plus partial-send variants, under the virtual clock; Driver::Step x T x pending-ToDo constellations {none, overdue, due now, "
        "due before T, due at T, due after T, two tied, overdue+future, far beyond 2^31 ms}; plus random histories. Every poll timeout "
        "argument, the virtual time before/after and the result kind are compared with the model and checked against the documented "
        "semantics. TLS operations are covered by the C18 harness. non-trivial = the operation actually waited (a poll with T != 0 or "
        "a timeout result) ; distinct op sequences.")
ASSUMPTIONS = ["A-POLL: poll(t) returns 0 only after t ms and not later than t ms plus scheduling latency; nothing is measured on a wall clock",
               "|T| < 2^31 ms (documented domain)", "A-CLOCK: steady_clock monotone"]
TRUSTED = ["tools/cxx2lean_eff.py stage 3 (DESIGN.md 0.7.2): StepTodos over the abstract deque/task interface Gen.TodoWorld (front()->when, pop_front after move, task->what(), empty() recognised by canonical text + provenance of the locals); Model/GenTodoWorld.lean reads the ToDo model as that interface; string_view = cursor + immutable end",
           "tools/cxx2lean_eff.py (stage 2, DESIGN.md 0.7.1): world boundary (DoPoll, Interrupted, Clock::now, ::send, ::recv, SocketError opaque; handles dropped), C++ evaluation order, pointer = offset, string_view = (offset, length), objects = fields; Model/GenWorld.lean reads the model answers as C results",
           "tools/cxx2lean.py (source-derived tie, DESIGN.md 0.7): clang-14 JSON AST, chrono unit semantics read from the desugared types, unbounded Int for signed arithmetic (overflow = UB), abstract memcmp / container queries",
           "vos shim (virtual clock: a poll with nothing ready advances the clock by its timeout)",
           "the transcript parsers of Drive/C01.lean (lines -> Spec.C01.Obs) and Drive/C06.lean (lines -> Spec.C07.Step.Obs); the predicates "
           "themselves are Spec/C07.lean and are no longer trusted to be consistent with the model: spec_holds_on_model / "
           "spec_holds_on_model_step prove that they accept every trace of the model. The timeout clauses of the TLS slice are Spec/C18.lean: pollClause (Tls.Spec.specStep), accepted on every trace of the TLS glue model (Props/C18.lean: spec_holds_on_model_partial)"]
ALL_TAGS = ["recv.none", "recv.value", "recv.unl", "recv.zero", "recv.lim", "send.all", "send.try", "send.some", "sendto", "recvfrom",
            "listen", "step.unlimited", "step.zero", "step.limited", "wait.todo", "wait.full"]
EXHAUSTIVE = {"quick": True, "thorough": True}
MS = 1000000


def nontrivial(ops, tags):
    return any(t in tags for t in ("recv.none", "recv.lim", "send.some", "wait.todo", "wait.full", "recv.unl", "send.all", "listen", "sendto", "recvfrom",
                                   "recv.limited", "recv.unlimited", "send.limited", "send.unlimited"))


def step_grid():
    cases = []
    base = 1000 * MS
    for T in sockgen.TIMEOUTS:
        consts = {
            "none": [],
            "overdue": ["new 1 at %d" % (base - 5 * MS)],
            "duenow": ["new 1 at %d" % base],
            "before": ["new 1 at %d" % (base + max(T, 2) * MS // 2)] if T > 1 else ["new 1 at %d" % (base + 1 * MS)],
            "atT": ["new 1 at %d" % (base + T * MS)] if T > 0 else ["new 1 at %d" % (base + 3 * MS)],
            "afterT": ["new 1 at %d" % (base + (T + 7) * MS)] if T > 0 else ["new 1 at %d" % (base + 7 * MS)],
            "tied": ["new 1 at %d" % (base + MS), "new 2 at %d" % (base + MS)],
            "overdue+future": ["new 1 at %d" % (base - MS), "new 2 at %d adv:1000" % (base + 9 * MS)],
            "sub-ms": ["new 1 at %d" % (base + 500000)],
            "far": ["new 1 at %d" % (base + (2**31) * MS)],
            "farther": ["new 1 at %d" % (base + (2**32 + 5) * MS)],
            "task-overruns": ["new 1 at %d adv:%d" % (base, (max(T, 1) + 3) * MS)],
        }
        for name, pre in consts.items():
            if T < 0 and name == "none":
                continue  # sleeps forever by design
            cases.append(["clock %d" % base] + pre + ["step %d" % T, "step 0"])
    return cases


def gen(rng, tier):
    cases = [("sockops", "g%d" % i, ops) for i, ops in enumerate(sockgen.grid_cases(False))]
    cases += [("todos", "st%d" % i, ops) for i, ops in enumerate(step_grid())]
    n = 60 if tier == "quick" else 8000
    for k in range(n):
        ops = sockgen.c01_case(rng) if rng.random() < 0.7 else sockgen.udp_case(rng)
        cases.append(("sockops", "r%d" % k, ops))
    for k in range(100 if tier == "quick" else 30000):
        cases.append(("todos", "tr%d" % k, c06.rand_history(rng)))
    # TLS slice: synchronous endpoints only (the asynchronous ones have no timeout parameter)
    combos = [c for c in c18.matrix() if c[0] != "async" and c[1] != "async"]
    if tier == "quick":
        combos = rng.sample(combos, 70)
    for k, (cli, srv, ct, st, cf, sf, style, seg, shared) in enumerate(combos):
        csz, ssz = rng.choice([1, 100, 3000]), rng.choice([1, 100, 3000])
        ops = c18.case_ops(cli, srv, ct, st, cf, sf, style, seg, rng.randrange(10**6), csz, ssz, shared)
        if ops:
            cases.append(("tls", "tls%d" % k, ops))
    # congested full-duplex TLS transfers with limited timeouts: tiny socket buffers, multi-record payloads in both
    # directions, so that Send(T) really waits for a peer that is not reading at that moment (every wait of every call is
    # checked against the call's budget)
    for j in range(8 if tier == "quick" else 200):
        cli, srv = rng.choice(["basic", "buffered"]), rng.choice(["basic", "buffered"])
        T = rng.choice([50, 50, 17])
        ops = c18.case_ops(cli, srv, T, rng.choice([T, 0]), "s", "s", "poll", rng.choice([0, 100]), rng.randrange(10**6),
                           rng.choice([40000, 60000]), rng.choice([40000, 60000]), extra="bufs=8192")
        if ops:
            cases.append(("tls", "tlsc%d" % j, ops))
    return cases


TECHNIQUE = ("Lean 4 theorems about wait/receive/SendSome/StepTodos timeouts (all scripts, all T) + exhaustive timeout grid replayed on the real code under a virtual clock; "
             "the run-time predicates are their own Lean module (Spec/C07.lean) proved to accept every trace of the model (virtual clock followed through every poll; "
             "simulation relation with the reference scheduler for Step)")
LEVEL_TEXT = ("Machine-checked theorems: T<0 never yields 'nothing' and only issues unlimited polls; T=0 issues only zero polls and lets no "
              "time pass; T>0: every poll argument is within the remaining budget, total blocking <= T however many polls/partial sends, "
              "'nothing' exactly at start+T (receive, SendSome); Driver::Step: wait within [0,T] for T>=0 whatever the tasks do (step_bounded), full wait when idle, never a negative (unlimited) or "
              "over-long wait while a ToDo is pending - for every due time thanks to the F6 clamp, refuted for the shipped narrowing by "
              "witness. Tied to /repo by enumerating the complete operation x timeout x arrival grid and the Step constellations on the "
              "real code under a link-time virtual clock, comparing every poll argument, virtual time and result with the model and with "
              "the documented semantics. The run-time predicates are typed, total Lean functions of their own module (Spec/C07.lean: for the blocking "
              "socket operations specStepM/specTimeouts over Spec.C01.Obs - poll arguments against the observed elapsed time; for Driver::Step "
              "Step.specStep over begin/ran/poll/end items with the reference scheduler of Spec/C06.lean) and theorems of the model: "
              "spec_holds_on_model (= Spec.C07.model_satisfies_spec: every history of Send/Receive/SendTo/ReceiveFrom/Listen with arbitrary poll/send "
              "scripts, T < 2^31, the kernel never answers an unlimited poll with 0) and spec_holds_on_model_step (= Step.model_satisfies_spec: every "
              "history of construct/Shift/Cancel/drop/clock/Step with arbitrary task bodies, T < 2^31, fuel >= 1) prove that they accept every trace "
              "the model can produce, so a spec verdict on the implementation is provably a difference between implementation and model.")
LEVEL_NOTE = ("Trusted: Lean kernel; axioms propext/Quot.sound/Classical.choice; model validated on the grid; vos shim. Real elapsed "
              "time is the kernel's business (A-POLL). The budget theorems above are about the plain loops; for the TLS socket (the "
              "remainingTime budget threaded through HandleError, the BIO callbacks and UnderDeadline, handshake rounds included) the "
              "same three statements are theorems of the TLS glue model in Props/C18.lean, section 'C07 for the TLS glue' "
              "(tls_zero_never_blocks, tls_unlimited_waits / tls_unlimited_receive_never_nothing / tls_unlimited_send_complete, "
              "tls_limited_budget, tls_budget_never_negative: every engine, every world, every starting state, every wait read off a "
              "logging world), under the explicit hypotheses A-CLOCK (ClockOk) and A-SSL (FailStop / BlockingRead / WriteProgress), each "
              "shown necessary by a witness; the seeded 'BioRead without write-back' is refuted as a counter-model "
              "(seeded_bioRead_doubles_the_wait). The TLS socket's waits are additionally checked on the implementation (budget clauses of "
              "the C18 spec, correspondence with the glue model).")

"""C14  OS failures become exceptions and leak nothing."""

ID = "C14"
SRC = ["scen/faults.cpp", "vos/vos.cpp"]
HARNESSES = {
    "faults": dict(sources=SRC, flavour="asan", mode="C14", timeout=30),
    "default": dict(name="faults", sources=SRC, flavour="asan", mode="C14", timeout=30),
}
SCENARIOS = [
    "addr_uri", "addr_hostserv", "addr_port", "addr_tostring",
    "udp_ctor", "tcp_ctor", "acceptor_ctor", "udp_ops", "tcp_ops", "acceptor_listen", "acceptor_listen_timeout",
    "udp_buffered_ctor", "tcp_buffered_ctor", "udp_buffered_ops", "tcp_buffered_ops",
    "driver_ctor", "driver_step_empty", "driver_stop_step",
    "udp_async_attach", "tcp_async_attach", "acceptor_async_attach",
    "tcp_async_recv", "tcp_async_send", "udp_async_recv", "udp_async_send", "acceptor_async_accept",
]
# upper bound on the number of intercepted calls of one round of any scenario (checked: a case
# whose position lies beyond the end of round 1 answers "plan none"; the largest round has 14 calls)
KMAX = 18
MAXERR = 4      # longest per-call errno list in harness/scen/faults.cpp
RULE = ("every scenario (26: each public constructor, each send/receive/query at each API level, Listen, async attach, "
        "Driver(), Stop, Step with async receive/send/accept) x every position of its intercepted call trace x errno "
        "(quick: first errno of the call's plausible list; thorough: every errno) as single faults, exhaustively; "
        "pairs of positions over the two-round trace sampled by PRNG. Each run in a forked child; two rounds per run "
        "(round 2 = fault-free follow-up for single faults). non-trivial = a run in which a fault actually fired; "
        "distinct = distinct (scenario, positions, errnos).")
ASSUMPTIONS = [
    "faults are injected at the libc boundary by position; the errno lists per call are a choice "
    "(socket: EMFILE ENFILE EACCES ENOBUFS; bind: EADDRINUSE EACCES; listen: EADDRINUSE EBADF; connect: ECONNREFUSED ETIMEDOUT "
    "ENETUNREACH; accept: EMFILE ECONNABORTED; fcntl: EBADF EINVAL; set/getsockopt, getsockname, getpeername: EBADF EINVAL ...; "
    "send/sendto: EPIPE ECONNRESET ENOBUFS EMSGSIZE; recv/recvfrom: ECONNRESET ENOMEM; poll: ENOMEM EINVAL; "
    "getaddrinfo/getnameinfo: EAI_AGAIN EAI_FAIL EAI_MEMORY EAI_NONAME/EAI_OVERFLOW)",
    "calls issued from destructors (close, the wake-up datagram of a contended unregister) are not faulted (DESIGN section 3)",
    "UDP-receive and accept failures inside Step are discarded by the library on purpose (onError no-op); they are checked for "
    "'no handler call, no crash, ledger clean, driver usable' and counted (tag chan.discard)",
    "bad_alloc is not a system call here; TLS flavour not covered by this check",
]
TRUSTED = ["descriptor ledger and fail_at of the vos shim", "fork/waitpid isolation in harness/scen/faults.cpp",
           "the transcript parser of Drive/C14.lean (lines -> typed Spec.Obs); the predicate itself (Spec/C14.lean) is a theorem "
           "of the model (spec_holds_on_model), its clauses are read against the property text"]
ALL_TAGS = ["chan.exn", "chan.disconnect", "chan.future", "chan.discard", "discarded", "faults.0", "faults.1", "faults.2"] + \
           ["scen." + s for s in SCENARIOS] + \
           ["fault." + c for c in ["socket", "bind", "listen", "connect", "accept", "fcntl", "setsockopt", "getsockopt",
                                   "getsockname", "getpeername", "send", "sendto", "recv", "recvfrom", "poll",
                                   "getaddrinfo", "getnameinfo"]]
EXHAUSTIVE = {"quick": True, "thorough": True}
SHRINK = False


def nontrivial(ops, tags):
    return "faults.1" in tags or "faults.2" in tags


def gen(rng, tier):
    cases = []
    n = 0
    for s in SCENARIOS:
        cases.append(("faults", "f%d" % n, ["free %s" % s])); n += 1
        cases.append(("faults", "k%d" % n, ["probe %s %d" % (s, KMAX)])); n += 1
        sels = range(MAXERR) if tier == "thorough" else [0]
        for k in range(KMAX):
            for sel in sels:
                cases.append(("faults", "s%d" % n, ["single %s %d %d" % (s, k, sel)])); n += 1
    pairs = 300 if tier == "quick" else 5000
    for _ in range(pairs):
        s = rng.choice(SCENARIOS)
        k1 = rng.randrange(0, 2 * KMAX)
        k2 = rng.randrange(0, 2 * KMAX)
        cases.append(("faults", "p%d" % n, ["pair %s %d %d %d %d" % (s, k1, k2, rng.randrange(MAXERR), rng.randrange(MAXERR))])); n += 1
    return cases


def extra_coverage(stats):
    t = stats["tags"]
    return dict(silently_discarded_failures=t.get("chan.discard", 0),
                runs_without_effective_fault=t.get("plan.none", 0) + t.get("faults.0", 0),
                errno_plausibility_lists="harness/scen/faults.cpp: errnosFor()")


TECHNIQUE = ("Lean 4 theorems over all fault oracles (ownership calculus on an exception/ledger monad; the run-time oracle "
             "Spec/C14.lean is proved to accept every trace of the model: spec_holds_on_model) + exhaustive single-fault "
             "injection on the real library with model/implementation correspondence")
LEVEL_TEXT = ("Machine-checked theorems about a descriptor-ledger model in which every public constructor and throwing operation "
              "is a program over `sys` calls answered by an arbitrary fault oracle (any number of faults): a failed call ends in an "
              "exception or, inside Step, in the disconnect handler / future / exception (discards only for UDP sockets and acceptors); "
              "a throwing program leaves the ledger as it was (everything it opened closed exactly once, nothing closed twice or "
              "foreign; consuming constructors close exactly the descriptor they took over); success owns exactly the result, whose "
              "destruction restores the ledger; after a failure any next program behaves again as specified. Tied to /repo on every "
              "run by executing 26 scenarios of the real API with a fault at every position of their intercepted call trace "
              "(each in a forked child, under ASan/UBSan), comparing outcomes, events and closes with the model and evaluating the "
              "property predicate directly on the observed traces. The predicate is its own module (Spec/C14.lean: typed "
              "observations, total functions specStep/specRun, no model state; the driver only parses lines into them) and "
              "theorem spec_holds_on_model proves that it accepts the observations the model produces (every call with its answer, "
              "every close, events, outcomes, ledger line - read off the model's log) for every fault oracle and every history of "
              "rounds of constructors / operations / consuming constructors / driver steps on arbitrary driver states: a spec "
              "verdict on the implementation is therefore a difference between implementation and model, and the oracle is never "
              "stricter than the model.")
LEVEL_NOTE = ("Trusted: Lean kernel; axioms propext/Quot.sound/Classical.choice; the hand-written ownership model (tied to the code only "
              "through the scenarios run); vos shim (fail_at, ledger). Destructor-issued calls are not faulted; errno lists are a choice; "
              "pairs of faults are sampled, not exhaustive; the send future carries a sliced std::runtime_error (no errno), which the "
              "property accepts as 'through the send future'. spec_holds_on_model assumes that the scenario flag 'UDP/acceptor "
              "scenario' of the predicate is truthful (no Stop in such a scenario, no readable UDP socket / acceptor in the others) "
              "and that query is used with a socket call; both shown necessary by examples.")

"""C11  Address construction is total: a value or an exception for every string."""
import itertools

ID = "C11"
SRC = ["scen/address_parse.cpp", "vos/vos.cpp"]
HARNESSES = {
    # sanitizer build, every construction on a 128 KiB thread stack
    "address_parse": dict(sources=SRC, flavour="asan", mode="C11", args=("--stack", "128"), timeout=5),
    # the shipped configuration (-O2 -DNDEBUG), 64 KiB thread stack: length ladders in forked children
    "address_parse_small": dict(name="address_parse", sources=SRC, flavour="ndebug", mode="C11", args=("--stack", "64"), timeout=120),
    "default": dict(name="address_parse", sources=SRC, flavour="asan", mode="C11", args=("--stack", "128"), timeout=5),
}
RULE = ("(i) grammar-directed URIs and host/service pairs: [scheme://]host[:port][/path] with word / numeric / out-of-range / empty "
        "schemes, literal / named / bracketed / empty hosts, valid / signed / blank-prefixed / huge (up to 10^30, 2^63, 2^64) ports, "
        "paths and queries with separators; (ii) malformed stream: random strings over {a 1 _ : / [ ] . - + % ? # space NUL LF CR "
        "0x80 0xff} of length 0..12 and up to 300, only separators, nested brackets / schemes / colons, a line terminator or NUL "
        "inserted at every position of a valid URI; (iii) length ladders 0..10^5 (quick) / 10^7 (thorough) of 'a', digits, '/', ':', "
        "'[', ']', NUL, LF, blank, '://', mixed, alone and embedded as host, port, scheme, path, bracket content, service argument - "
        "each in a forked child on a 64 KiB thread stack in the -O2 -DNDEBUG build. thorough adds every string of length <= 5 over "
        "{a 1 : / [ ] LF - _ .}. Inputs <= 2000 bytes are also dissected by the pre-fix std::regex code (differential oracle). "
        "non-trivial = a case with at least one value and one exception; distinct op sequences.")
ASSUMPTIONS = [
    "getaddrinfo is interposed: numeric literals and 'localhost' are answered by the real resolver, every other name with EAI_NONAME "
    "(no DNS in the sandbox); its own memory/stack use on long names is exercised by the ladders but not modelled",
    "that the C++ scans are loops (stack use independent of the length) is evidenced by the small-stack ladders (testing), not by a theorem",
    "std::stoll = strtoll in the C locale: blanks, optional sign, digit run; ERANGE beyond int64",
]
TRUSTED = ["libstdc++ std::string / std::string_view / std::stoll semantics (modelled, not verified)",
           "Drive/Uri.lean: parsing of transcript lines into the typed observations of Spec/Uri.lean (toOutcome, toGai; no property clause)",
           "pre-fix regex dissection harness/legacy/legacy_uri.h as second oracle for inputs <= 2000 bytes"]
ALL_TAGS = ["op.uri", "op.pair", "op.ladder", "uri", "pair", "ok", "throw.invalid_argument", "throw.logic_error", "throw.out_of_range",
            "throw.runtime_error", "throw.system_error", "gai", "gai.numericserv", "legacy.match", "legacy.nomatch",
            "nul", "hi", "linebreak", "long"]
EXHAUSTIVE = {"thorough": False}
SHRINK = True


def hx(s):
    b = s.encode("latin-1") if isinstance(s, str) else s
    return b.hex() if b else "-"


def nontrivial(ops, tags):
    return "ok" in tags and any(t.startswith("throw.") for t in tags)


HOSTS = ["localhost", "127.0.0.1", "::1", "0.0.0.0", "255.255.255.255", "fe80::1%eth0", "::ffff:1.2.3.4", "example.com", "a", "h.x",
         "1.2.3", "256.1.1.1", "01.02.03.04", "0x7f.1", "", "[", "]", "[]", "::", ":", "*", "a b", "\xe4\xf6", "h\x00x", "-", "_h"]
PORTS = ["0", "1", "80", "8080", "65535", "65536", "65537", "99999", "4294967296", "4294967376", "2147483648", "9223372036854775807",
         "9223372036854775808", "18446744073709551615", "18446744073709551616", "18446744073709551696",
         "1000000000000000000000000000000", "00080", "0000000000000000000000080", "-1", "-0", "+80", " 80", "\t80", "80 ", "8o", "",
         "0x50", "1e3", "\xb2"]
SCHEMES = ["http", "https", "tcp", "x", "a_1", "HTTP", "80", "65535", "65536", "99999", "0", "00", "_", "9223372036854775808",
           "18446744073709551616", "", "ht tp", "-1", "+1", "h-t", "\xe9"]
PATHS = ["", "a", "a/b", "a?b=c", "#f", "//", ":", ":80", "[::1]:80", "x://y", "\n", "a\rb", "a\nb", "\x00", "\xff\xfe", "a b", "%41"]
ALPHA = ["a", "1", "_", ":", "/", "[", "]", ".", "-", "+", "%", "?", "#", " ", "\x00", "\n", "\r", "\x80", "\xff", "9", "z", "\t"]


def grammar_uri(rng):
    s = ""
    if rng.random() < 0.4:
        s += rng.choice(SCHEMES) + rng.choice(["://", "://", "://", ":/", ":", "//", ":///"])
    h = rng.choice(HOSTS)
    x = rng.random()
    if x < 0.3:
        h = "[" + h + "]"
    elif x < 0.35:
        h = "[[" + h + "]]"
    s += h
    if rng.random() < 0.7:
        s += rng.choice([":", ":", ":", "::", ""]) + rng.choice(PORTS)
    if rng.random() < 0.4:
        s += "/" + rng.choice(PATHS)
    return s


def rand_string(rng, n):
    return "".join(rng.choice(ALPHA) for _ in range(n))


def mutate(rng, s):
    x = rng.random()
    pos = rng.randrange(len(s) + 1)
    if x < 0.4:
        return s[:pos] + rng.choice(["\n", "\r", "\r\n", "\x00", "\x80", "\xff"]) + s[pos:]
    if x < 0.6:
        return s[:pos] + rng.choice(ALPHA) + s[pos:]
    if x < 0.8 and s:
        return s[:pos] + s[pos + 1:]
    return s[:pos] + s[pos:] * 2


def one_op(rng):
    x = rng.random()
    if x < 0.30:
        return "uri " + hx(grammar_uri(rng))
    if x < 0.45:
        return "uri " + hx(mutate(rng, grammar_uri(rng)))
    if x < 0.65:
        return "uri " + hx(rand_string(rng, rng.randrange(0, 13)))
    if x < 0.72:
        return "uri " + hx(rand_string(rng, rng.randrange(13, 300)))
    if x < 0.77:
        return "uri " + hx(rng.choice([":", "/", "[", "]", "://", "[]", "[]:", "]:[", ":/", "/:", "?", "#"]) * rng.randrange(1, 40))
    if x < 0.82:
        k = rng.randrange(1, 6)
        return "uri " + hx(rng.choice(["a://" * k + "h:80", "[" * k + "::1" + "]" * k + ":80", "h" + ":80" * k, "x:" * k + "//h",
                                        "[" * k + "]:80", "a:" * k, ":" * k + "80", "[a]:1" * k]))
    host = rng.choice(HOSTS) if rng.random() < 0.8 else rand_string(rng, rng.randrange(0, 8))
    serv = rng.choice(PORTS + SCHEMES) if rng.random() < 0.8 else rand_string(rng, rng.randrange(0, 8))
    if rng.random() < 0.2:
        serv = mutate(rng, serv)
    return "pair %s %s" % (hx(host), hx(serv))


UNITS = ["a", "1", "/", ":", "[", "]", "\x00", "\n", " ", "://", "a:1/[", "-", "\xff", "0"]
FRAMES = [("", ""), ("a:", ""), ("", "://h"), ("h:80/", ""), ("[", "]:80"), ("x://", ""), ("x://h:", ""), ("[::1]:", ""), ("h:1", "")]


def ladders(rng, tier, full):
    sizes = [0, 1, 2, 3, 10, 100, 1000, 10000, 100000]
    if tier == "thorough":
        sizes += [1000000, 10000000]
    ops = []
    for u in UNITS:
        for pre, suf in FRAMES:
            if not full and rng.random() < 0.6:
                continue
            for n in sizes:
                if n * len(u) > 10000000:
                    continue
                if n >= 1000000 and (pre, suf) not in (("", ""), ("a:", ""), ("", "://h"), ("[", "]:80")):
                    continue
                ops.append("ladder %s %s %d %s" % (hx(pre), hx(u), n, hx(suf)))
        for which in ("host", "serv"):
            for n in sizes:
                if n >= 1000000 and u not in ("a", "1", " ", "-"):
                    continue
                if not full and rng.random() < 0.5:
                    continue
                ops.append("ladderpair %s - %s %d -" % (which, hx(u), n))
    # blanks / sign in front of a numeric service of any length
    for n in sizes:
        ops.append("ladderpair serv - %s %d %s" % (hx(" "), n, hx("80")))
        ops.append("ladderpair serv %s %s %d -" % (hx("-"), hx("0"), n))
        ops.append("ladderpair serv %s %s %d %s" % (hx("+"), hx("0"), n, hx("80")))
    return ops


def gen(rng, tier):
    cases = []
    count = 2000 if tier == "quick" else 25000
    for k in range(count):
        cases.append(("address_parse", "g%d" % k, [one_op(rng) for _ in range(40)]))
    lad = ladders(rng, tier, tier == "thorough")
    per = 12
    for i in range(0, len(lad), per):
        cases.append(("address_parse_small", "l%d" % (i // per), lad[i:i + per]))
    if tier == "thorough":
        alpha = ["a", "1", ":", "/", "[", "]", "\n", "-", "_", "."]
        buf = []
        k = 0
        for L in range(0, 6):
            for t in itertools.product(alpha, repeat=L):
                buf.append("uri " + hx("".join(t)))
                if len(buf) == 400:
                    cases.append(("address_parse", "x%d" % k, buf))
                    buf = []
                    k += 1
        if buf:
            cases.append(("address_parse", "x%d" % k, buf))
    return cases


TECHNIQUE = "Lean 4 theorems (totality/classification and slice bounds of the URI dissection for all byte strings; the run-time oracle Spec/Uri.lean accepts every trace of the model over an arbitrary name service: spec_holds_on_model) + model/implementation correspondence incl. small-stack length ladders and a differential regex oracle"
LEVEL_TEXT = ("Machine-checked Lean 4 theorems about an executable model of UriDissect / ParseUri / ParseHostServ over arbitrary byte "
              "strings: every input ends in a value or in one of the named std::exception classes (invalid_argument only for empty "
              "input; std::stoll can never report 'no conversion'), every slice (host, service) is a contiguous part of the input, "
              "getaddrinfo receives NUL-free C strings cut out of the input, the host never contains '/', any ':'/'/'-free text of any "
              "length is accepted as a host, any text starting with '/' is rejected, and the plain-scan dissection equals a declarative reading of the "
              "three original regular expressions with ECMAScript priorities for every input (dissect_refines_regex: fix F4 changed no "
              "outcome) - all definitions are total compositions of "
              "single-pass list primitives (termination for every length by construction). Tied to /repo on every run: generated "
              "well-formed and malformed inputs (NUL, non-ASCII, separators only, nested brackets/schemes, line terminators everywhere) "
              "and length ladders to 10^5 / 10^7 run on the real constructors on 64-128 KiB thread stacks (ladders in forked children, "
              "-O2 -DNDEBUG and ASan builds); outcome class and the intercepted getaddrinfo arguments are compared with the model, the "
              "pre-fix std::regex dissection with the model's, and 'value or std::exception, no crash/signal/hang' is evaluated on the "
              "observations by the typed total predicate Spec/Uri.lean (specStep/specRun, mode totality; the driver only parses lines "
              "into Obs and calls it). spec_holds_on_model (Props/C11.lean): for EVERY name service (getaddrinfo / getnameinfo may answer "
              "anything) and every history of uri / pair constructions and literal / service-name groups of any length over arbitrary "
              "byte strings that predicate accepts the trace of the model (parseUri / parseHostServ + the name service) - no hypothesis; "
              "so a spec verdict is a difference between implementation and model and the oracle is never stricter than the model.")
LEVEL_NOTE = ("Trusted: Lean kernel; axioms propext/Quot.sound/Classical.choice; hand-written model (correspondence on generated inputs "
              "only); harness, vos getaddrinfo shim. Stack use / memory safety of the C++ scans and of glibc/libstdc++ internals is "
              "covered by the small-stack and sanitizer runs (testing), not by a theorem.")

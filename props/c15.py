"""C15  Peer failure at any point is reported, never fatal."""
import itertools
from props import c03

ID = "C15"
SRC = ["scen/peerfail.cpp", "vos/vos.cpp"]
HARNESSES = {
    "plain": dict(name="peerfail", sources=SRC, flavour="asan", mode="C15", timeout=40),
    "tls": dict(name="peerfail", sources=SRC, flavour="tls", mode="C15", libs=["-lssl", "-lcrypto"], timeout=40),
    "default": dict(name="peerfail", sources=SRC, flavour="asan", mode="C15", timeout=40),
    # peers failing around an ASYNCHRONOUS ACCEPTOR (between connect and accept, right after accept), with a connect handler
    # that upgrades the connection to a SocketTcpAsync and does NOT catch what that constructor throws (getpeername on a
    # connection the peer already reset): evaluated by the C03 driver - Step must not throw, later peers must still be served
    "aevents": dict(c03.HARNESSES["aevents"]),
}
KINDS = ["basic", "buffered", "async"]
FAILS = ["close", "shutwr", "rst"]
TIMEOUTS = [-1, 0, 30]
RULE = ("the harness is the peer (raw socket; for TLS a second TLS socket whose descriptor is shut down / reset underneath): "
        "close / shutdown(SHUT_WR) / SO_LINGER{1,0} reset after the peer has sent w and read r bytes of a small bidirectional "
        "transfer (1-byte sweeps of w and r up to 64, sampled offsets otherwise) or after k raw bytes of the TLS handshake, "
        "for basic / buffered / async x client / server role x timeout {-1 (only where a live peer cannot make it block), 0, 30 ms "
        "virtual} x plain / TLS, followed by receive-until-reported and/or send of up to 3 MB more. Every case in a forked child "
        "with SIGPIPE at default disposition. non-trivial = every case (each contains a peer failure); distinct op scripts.")
ASSUMPTIONS = [
    "K1: after the peer is gone poll reports the descriptor ready (HUP/ERR count), send fails from some call on, recv yields the "
    "unread data and then end-of-stream or ECONNRESET (Linux TCP); the model's allowed set is what it does with the kernel's "
    "actual answers, which are replayed",
    "A-TCP: the stream is a FIFO; a reset may discard data the local side has not read yet (so only 'prefix' is claimed for reset)",
    "TLS alerts and the engine's reaction to a truncated stream are OpenSSL's (replayed, not modelled)",
]
TRUSTED = ["fork/waitpid outcome classification in harness/scen/peerfail.cpp", "system OpenSSL 3 for the TLS half",
           "parsing of transcript lines into typed observations (Drive/C15.lean toObs / evObs; the predicate itself is "
           "Spec/C15.lean and proved to accept every trace of the plain-socket model: spec_holds_on_model_partial)",
           "TLS half of the predicate: the clauses about delivered data / reporting are statements about OpenSSL (the engine "
           "is replayed, not modelled), so spec_holds_on_model_partial covers the plain socket only"]
ALL_TAGS = ["send.unlimited", "send.zero", "send.limited", "recv.unlimited", "recv.zero", "recv.limited",
            "task.readable", "task.writable", "task.huperr", "enq"]
EXHAUSTIVE = {"thorough": False, "quick": False}
SHRINK = False


def nontrivial(ops, tags):
    if any(o.startswith('acceptor') for o in ops):
        return any(o.startswith('rst') or o.startswith('close') for o in ops)
    return any(o.startswith(("kill", "hskill")) for o in ops)


def case_ops(x, tls, role, T, kind, A, B, w, a, r, order, big, seed, hs=None):
    ops = ["setup x=%s tls=%d role=%s T=%d A=%d B=%d seed=%d rsz=4096" % (x, tls, role, T, A, B, seed)]
    if hs is None:
        ops.append("pre w=%d a=%d r=%d hsfull=%d" % (w, a, r, 0 if seed % 4 == 0 else 1))
        ops.append("kill kind=%s" % kind)
    else:
        ops.append("hskill k=%d kind=%s" % (hs, kind))
    ops.append("after order=%s big=%d cap=40" % (order, big))
    ops.append("final")
    return ops


def pick_after(rng, x, T, kind):
    order = rng.choice(["rs", "sr", "r", "s", "rs", "sr"])
    big = 0
    if "s" in order:
        if kind == "shutwr":
            big = 0 if T < 0 else rng.choice([0, 1000])      # a live peer that is not draining must not be flooded
        else:
            big = rng.choice([0, 1000, 3000000])
    if x == "async" and "s" in order and big > 1000:
        big = 400000
    return order, big


def gen(rng, tier):
    cases = []
    k = 0

    def add(h, ops):
        nonlocal k
        cases.append((h, "%s%d" % (h[0], k), ops))
        k += 1

    reps = 1 if tier == "quick" else 6
    for x, tls, kind, T in itertools.product(KINDS, (0, 1), FAILS, TIMEOUTS):
        if x == "async" and T == -1:
            continue   # the driver is stepped with a finite timeout by this single-threaded harness
        h = "tls" if tls else "plain"
        for _ in range(reps):
            role = rng.choice(["cli", "srv"])
            A, B = rng.choice([0, 1, 16, 64]), rng.choice([0, 1, 16, 64])
            a = rng.randrange(0, A + 1)
            r = rng.randrange(0, a + 1)
            w = rng.randrange(0, B + 1)
            order, big = pick_after(rng, x, T, kind)
            add(h, case_ops(x, tls, role, T, kind, A, B, w, a, r, order, big, rng.randrange(10**6)))
        # multi-buffer transfer, sampled offsets
        A, B = 20000, 30000
        a = rng.choice([0, 1, 4096, 4097, 20000])
        r = rng.choice([0, a // 2, a])
        w = rng.choice([0, 1, 4096, 16384, 16385, 30000])
        order, big = pick_after(rng, x, T, kind)
        add(h, case_ops(x, tls, rng.choice(["cli", "srv"]), T, kind, A, B, w, a, r, order, big, rng.randrange(10**6)))
    # 1-byte sweeps of the offsets in either direction
    sweep_cfgs = list(itertools.product(KINDS, (0, 1), FAILS))
    if tier == "quick":
        sweep_cfgs = rng.sample(sweep_cfgs, 4)
        offsets = sorted(rng.sample(range(0, 65), 8) + [0, 64])
    else:
        offsets = list(range(0, 65))
    for x, tls, kind in sweep_cfgs:
        h = "tls" if tls else "plain"
        T = 0 if x == "async" else rng.choice(TIMEOUTS)
        for off in offsets:
            order, big = pick_after(rng, x, T, kind)
            add(h, case_ops(x, tls, "cli", T, kind, 64, 64, off, 10, 10, order, big, rng.randrange(10**6)))       # peer -> X offset
            add(h, case_ops(x, tls, "srv", T, kind, 64, 64, 10, 64, off, order, big, rng.randrange(10**6)))       # X -> peer offset
    # TLS: the peer dies in the middle of the handshake, after k raw bytes
    ks = [0, 1, 5, 100, 296, 297, 298, 500, 1400, 1500, 2100]
    hs_cfgs = list(itertools.product(KINDS, FAILS, ("cli", "srv"), ks))
    if tier == "quick":
        hs_cfgs = rng.sample(hs_cfgs, 40)
    for x, kind, role, kk in hs_cfgs:
        T = 0 if x == "async" else rng.choice(TIMEOUTS)
        A = rng.choice([0, 40])
        order = rng.choice(["r", "s", "rs", "sr"])
        if A == 0 and "s" in order and x != "async":
            order = "r"
        add("tls", case_ops(x, 1, role, T, kind, A, 30 if A == 0 else rng.choice([0, 30]), 0, 0, 0, order, 0, rng.randrange(10**6), hs=kk))
    # F11 (fixed by b68eb89): TLS server that is busy after its first flight; the client completes the handshake, sends
    # and closes orderly - the data must still arrive before the closure is reported
    for x, T, B in (("buffered", 30, 16385), ("basic", 0, 1000), ("async", 0, 3000), ("basic", -1, 100)):
        ops = case_ops(x, 1, "srv", T, "close", 0, B, B, 0, 0, "r", 0, 4)
        ops[1] = "pre w=%d a=0 r=0 hsfull=0 xcalls=%d" % (B, 3 if x == "async" else 2)
        add("tls", ops)
    # the failure is seen by send() first (POLLIN would otherwise always win in DoOneSocketTask): the promise must fail
    for tls in (0, 1):
        for kind in ("close", "rst"):
            ops = ["setup x=async tls=%d role=cli T=0 A=5000 B=0 seed=%d rsz=4096" % (tls, rng.randrange(10**6)),
                   "pre w=0 a=100 r=100 hsfull=1", "inject sys=send err=32", "after order=s big=0 cap=10",
                   "kill kind=%s" % kind, "after order=r big=0 cap=10", "final"]
            add("tls" if tls else "plain", ops)
    for j in range(40 if tier == "quick" else 1500):
        ops = ["careless", "rx %d %d" % (rng.choice([1, 2, 0]), rng.choice([7, 4096])), "acceptor 1"]
        nxt = 2
        for _ in range(rng.randrange(1, 5)):
            i = nxt; nxt += 1
            ops.append("pconnect 1 %d" % i)
            x = rng.random()
            if x < 0.45:
                ops += ["rst %d" % i]                        # reset between connect and accept
            elif x < 0.6:
                ops += ["send %d 5" % i, "rst %d" % i]      # data, then reset, all before the accept
            elif x < 0.75:
                ops += ["close %d" % i]
            else:
                ops += ["step", "send %d 9" % i]
            ops += ["step"] * rng.randrange(0, 3)
        ops += ["step"] * 8
        cases.append(("aevents", "acc%d" % j, ops))
    return cases



def extra_checks(runner, rng, tier, stats, seed):
    """the CLOSING side is a library TLS socket, destroyed while its send path is congested and while it holds unread input
    (harness/scen/tls_close.cpp; real loopback, real time, no shim): every byte its Send calls reported must reach the peer
    before the peer's Receive reports the closure.  The verdict is the property's own wording (complete stream for an orderly
    close) evaluated on byte counts; testing of the runtime part the model cannot exhibit (kernel RST-on-close-with-unread-data),
    labelled as such."""
    import os
    import vlib
    out = []
    exe = vlib.build_harness("tls_close", "tls", ["scen/tls_close.cpp"], libs=["-lssl", "-lcrypto"])
    k = 4 if tier == "quick" else 40
    cases = [("tc%d" % i, ["close %d %s %d" % (rng.randrange(10**6), ("basic", "buffered")[i % 2], (0, 5, 0, 20)[i % 4])]) for i in range(k)]
    res = vlib.run_cases(exe, cases, jobs=4, env={"VERIF_CERTS": os.path.join(vlib.HARNESS, "certs")}, timeout_per_case=60)
    n = 0
    for cid, ops in cases:
        tr = res.get(cid, [])
        if any(l.startswith("-> ok") for l in tr):
            n += 1
            continue
        if any("set-up" in l for l in tr):       # environment (loopback refused): not a verdict
            continue
        path = vlib.write_replay(ID, "C15_%s_tls_close.replay" % tier,
                                 "property: C15\nkind: impl-spec-failure (library TLS socket destroyed while congested, with unread input)\n"
                                 "seed: %s   tier: %s   repo_tree: %s\nharness: extra:tls_close\ncase: %s\n"
                                 "verdict: every byte Send reported must reach the peer before the closure is reported\n"
                                 "(harness/scen/tls_close.cpp, flavour tls, real loopback; ./check C15 --replay <this file> runs it again)\n"
                                 "ops:\n%s\ntranscript (implementation):\n%s\n"
                                 % (seed, tier, vlib.repo_tree_hash(), cid, "\n".join("  " + o for o in ops), "\n".join("  " + t for t in tr)))
        out.append(("spec", path, True, "orderly close of a congested TLS sender: " + " ".join(tr)[-300:]))
        break
    stats["tls_close_runs"] = n
    return out


def replay_extra(name, ops):
    """./check C15 --replay <file> for a replay written by extra_checks"""
    import os
    import vlib
    if name != "tls_close":
        print("unknown standalone scenario %r" % name)
        return 2
    exe = vlib.build_harness("tls_close", "tls", ["scen/tls_close.cpp"], libs=["-lssl", "-lcrypto"])
    res = vlib.run_cases(exe, [("replay", ops)], jobs=1, env={"VERIF_CERTS": os.path.join(vlib.HARNESS, "certs")}, timeout_per_case=60)
    tr = res.get("replay", [])
    print("\n".join(tr))
    ok = any(l.startswith("-> ok") for l in tr)
    print("verdict:", "ok" if ok else "FAIL")
    return 0 if ok else 1


def extra_coverage(stats):
    return {"tls_congested_close_runs_ok": stats.get("tls_close_runs", 0)}


TECHNIQUE = ("Lean 4 theorems over all kernel answer scripts followed by K1 (dead-peer defaults) + replay correspondence of the real "
             "sockets against a peer that closes / half-closes / resets at chosen offsets, each case in a forked child; the run-time "
             "oracle is a separate typed module (Spec/C15.lean: specRun / specFinal over Obs) proved to accept every trace of the "
             "model (simulation relation + liveness counters, induction over histories)")
LEVEL_TEXT = ("Machine-checked theorems about the send/receive loops and the asynchronous layer for EVERY finite history of kernel "
              "answers followed by the kernel's dead-peer behaviour (K1): an unlimited Send ends in an exception after at most "
              "(scripted answers + 1) send calls and never waits without a following send (sendAll_dead_peer_terminates); the first "
              "recv/send that sees the failure turns it into an exception, for the TLS glue every fatal engine answer does, for the async "
              "socket the disconnect handler runs exactly once and every queued promise is resolved with an exception or stays queued "
              "until destruction (peer_failure_reported); what was delivered is exactly the sequence of chunks the kernel handed over - "
              "a prefix of the peer's stream, all of it for an orderly close (delivered_is_prefix); every send carries the extracted "
              "sendFlags with MSG_NOSIGNAL (nosignal_everywhere). Tied to /repo on every run: real plain and TLS sockets of all three API "
              "levels against a peer that fails at swept byte offsets and handshake stages, each in a forked child with SIGPIPE at default "
              "disposition; kernel (and OpenSSL) answers are replayed into the model, Spec.C15 is evaluated on the observations. "
              "The predicate evaluated at run time is Spec/C15.lean (typed observations, total functions specStep / specRun / specFinal; the "
              "driver only parses lines and calls them) and spec_holds_on_model_partial proves that it accepts EVERY trace of the plain-socket model: "
              "for every API level, buffer size, payload and every history of any length (peer sends in any segmentation, Send / Receive with "
              "any timeout and any scripted kernel answers, async Send and driver steps with any poll result, close / half close / reset at any "
              "point with or without loss of unread data, destruction) that satisfies the decidable environment assumptions histOk (kernel "
              "never accepts 0 bytes; K1; the scenario is played to its end) - so every clause of the oracle (runtime error only, nothing thrown "
              "out of Step, MSG_NOSIGNAL, waits within the timeout semantics, disconnect handler exactly once, promises resolved or broken, "
              "delivered = prefix / complete for an orderly close, failure reported) is a consequence of the model, the oracle is never "
              "stricter than the model, and a spec verdict on the implementation is a difference between implementation and model. For TLS "
              "endpoints the same predicate is evaluated, but the theorem does not cover them (engine replayed, not modelled).")
LEVEL_NOTE = ("Trusted: Lean kernel; axioms propext/Quot.sound/Classical.choice; hand-written model (replay correspondence on the generated "
              "cases only); harness incl. fork/wait classification; vos shim. K1 and TCP teardown timing are Linux behaviour (assumed, "
              "and replayed as observed); that a reset may drop unread data is why only 'prefix' is claimed for resets. C++ exceptions "
              "unwinding through libssl frames are exercised (ASan/UBSan TLS flavour), not modelled.")

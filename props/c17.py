"""C17  Every legal API history on driver, sockets and ToDos is memory-safe; futures never dangle."""
import itertools

ID = "C17"
SRC = ["scen/lifecycle.cpp"]
HARNESSES = {
    # asserts + ASan + UBSan + _GLIBCXX_ASSERTIONS + vector annotations
    "life": dict(name="lifecycle", sources=SRC, flavour="asanvec", mode="C17", timeout=30),
    # the shipped configuration (NDEBUG) under the sanitizers: asserts cannot mask an out-of-bounds access
    "life_nda": dict(name="lifecycle", sources=SRC, flavour="ndebugasan", mode="C17", timeout=30),
    # the shipped configuration as is
    "life_nd": dict(name="lifecycle", sources=SRC, flavour="ndebug", mode="C17", timeout=30),
    "default": dict(name="lifecycle", sources=SRC, flavour="asanvec", mode="C17", timeout=30),
}
RULE = ("histories over 2 drivers, up to 4 async sockets (TCP client with raw peer, UDP, acceptor; disconnect handler "
        "destroying the socket or not; receive handler keeping buffers or not), one send pool of 4, 3 ToDos: "
        "create / send / echo (a held RECEIVE buffer - owned by the socket's own receive pool - is handed back to Send/SendTo of "
        "the same socket, as the repo's performance test does; afterwards the socket is destroyed with that send queued, or its driver goes "
        "first, or the peer closes, or the send is carried out) / step / peer send-close-reset-connect / driver-side send failure (next send() = ECONNRESET) / release / destroy socket (also inside its disconnect handler, "
        "also with sends pending) / destroy driver before or after its sockets and ToDos / cancel-shift-drop of pending and "
        "finished ToDos / step of an empty driver; ops that would break a usage rule are refused by the harness and must be "
        "illegal in the model too. State-aware random walks (length 5..40); thorough adds every history of <= 4 (second prefix: 3) ops over a "
        "19-letter alphabet after a fixed prefix. Each history runs in its own process under three builds. "
        "non-trivial = a socket or driver was destroyed with something still attached/pending, or a send hit an unregistered "
        "socket / dead driver, or a socket was destroyed (explicitly or at the end) with an echoed receive buffer queued, or a finished "
        "ToDo was cancelled/shifted.")
ASSUMPTIONS = [
    "single-threaded histories (cross-thread management is C04)",
    "a peer reset is explored only when no inbound data is unread (kernel behaviour on RST with unread data is not modelled)",
    "a write to a peer that already closed may succeed or fail (model outcome 'either')",
    "object lifetime inside libstdc++ (std::function destroyed while executing, as the repo's own test does in its disconnect "
    "handler) is below the model; the sanitizers are the evidence there",
    "the model has no notion of the order in which the members of SocketAsyncImpl are destroyed (send queue before the receive "
    "pool): that a queued echoed receive buffer finds its pool alive is checked on the implementation only (crash clause under "
    "ASan / assertions), the model declares such a destruction legal",
    "usage rules taken from headers/tests: pools outlive their buffers (a socket is not destroyed while its receive buffers are "
    "held), no destruction of a socket inside its own receive handler, at most rxBufCount receive buffers held",
]
TRUSTED = ["ASan/UBSan/_GLIBCXX_ASSERTIONS/_GLIBCXX_SANITIZE_VECTOR as the detector of undefined behaviour in the implementation",
           "Linux loopback TCP/UDP semantics for the raw peers",
           "the transcript parser of Drive/C17.lean (lines -> typed observations of Spec/C17.lean); the predicate itself is "
           "Spec/C17.lean: specStep/specEnd, proved to accept every trace of the model (spec_holds_on_model), so a spec verdict "
           "is a difference between implementation and model"]
ALL_TAGS = ["send", "send.unregistered", "send.nodriver", "echo", "echo.unregistered", "echo.nodriver",
            "dsock", "dsock.pending", "dsock.echoed", "end.echoed", "ddriver.empty", "ddriver.busy",
            "step", "step.empty", "cancel", "cancel.finished", "shift", "shift.finished", "disc", "disc.selfdestroy",
            "fut.value", "fut.broken", "fut.exn", "skipped"]
EXHAUSTIVE = {"thorough": False}
SHRINK = True


def nontrivial(ops, tags):
    return any(t in tags for t in ("dsock.pending", "ddriver.busy", "send.unregistered", "send.nodriver",
                                   "echo.unregistered", "echo.nodriver", "dsock.echoed", "end.echoed",
                                   "cancel.finished", "shift.finished", "disc.selfdestroy"))


def walk(rng):
    """state-aware random walk: tracks what was created/destroyed explicitly (self-destruction inside the
    disconnect handler and pool exhaustion are resolved by harness + model: such ops come back 'skipped')"""
    ops = ["driver 0"]
    drivers = {0}
    dead_drivers = set()
    socks = {}      # id -> dict(kind, alive, hold)
    todos = {}      # id -> alive
    if rng.random() < 0.3:
        ops.append("driver 1"); drivers.add(1)
    n = rng.randrange(5, 40)
    for _ in range(n):
        if not drivers and rng.random() < 0.3:
            break           # nothing can be created any more; a few ops on the orphans are enough
        x = rng.random()
        alive = [i for i, s in socks.items() if s["alive"]]
        if x < 0.12 and len(socks) < 4 and drivers:
            i = len(socks)
            k = rng.choice(["tcp", "tcp", "tcp", "udp", "acc"])
            d = rng.choice(sorted(drivers))
            ondisc = 1 if (k == "tcp" and rng.random() < 0.4) else 0
            hold = 1 if (not ondisc and k != "acc" and rng.random() < 0.4) else 0
            socks[i] = dict(kind=k, alive=True, hold=hold, drv=d)
            ops.append("sock %d %s %d %d %d 0" % (i, k, d, ondisc, hold))
        elif x < 0.30 and socks:
            i = rng.choice(sorted(socks))
            ops.append("send %d" % i)
        elif 0.46 <= x < 0.52 and [i for i in alive if socks[i]["hold"]]:
            # the echo idiom: a received buffer (of the socket's own receive pool) goes back into Send of the same socket,
            # then the socket / its driver / its peer goes away with that send still queued - or the send is carried out
            i = rng.choice([i for i in alive if socks[i]["hold"]])
            d = socks[i]["drv"]
            for _ in range(rng.choice([1, 1, 2])):
                ops.append("psend %d" % i)
                ops.append("step %d" % d)
            ops.append("echo %d" % i)
            if rng.random() < 0.3:
                ops.append("echo %d" % i)
            y = rng.random()
            if y < 0.35:
                if rng.random() < 0.5:
                    ops.append("release %d" % i)
                ops.append("dsock %d" % i)
                socks[i]["alive"] = False
            elif y < 0.50 and d in drivers:
                ops.append("ddriver %d" % d)
                drivers.discard(d); dead_drivers.add(d)
                if rng.random() < 0.6:
                    ops.append("release %d" % i)
                    ops.append("dsock %d" % i)
                    socks[i]["alive"] = False
            elif y < 0.65 and socks[i]["kind"] == "tcp":
                ops.append(rng.choice(["pclose %d", "preset %d"]) % i)
                ops.append("step %d" % d)
                if rng.random() < 0.5:
                    ops.append("echo %d" % i)
            elif y < 0.85:
                ops.append("step %d" % d)
            # else: left queued (the end of the history destroys the socket with it)
        elif x < 0.52 and (drivers or dead_drivers):
            ops.append("step %d" % rng.choice(sorted(drivers | dead_drivers) if rng.random() < 0.05 else sorted(drivers) or [0]))
        elif x < 0.62 and socks:
            i = rng.choice(sorted(socks))
            k = socks[i]["kind"]
            ops.append(("pconn %d" if k == "acc" else "psend %d") % i)
        elif x < 0.68 and socks:
            i = rng.choice(sorted(socks))
            ops.append(rng.choice(["pclose %d", "pclose %d", "preset %d"]) % i)
        elif x < 0.70 and socks:
            # a driver-side send that fails: arm the failure, usually with something queued and a step to follow
            tcp = [i for i, s in socks.items() if s["kind"] == "tcp"] or sorted(socks)
            i = rng.choice(tcp)
            if rng.random() < 0.7:
                ops.append("send %d" % i)
            ops.append("sendfail %d" % i)
            if rng.random() < 0.7:
                ops.append("step %d" % socks[i]["drv"])
        elif x < 0.74 and socks:
            ops.append(rng.choice(["release %d", "echo %d"]) % rng.choice(sorted(socks)))
        elif x < 0.82 and socks:
            i = rng.choice(sorted(socks))
            if socks[i]["hold"] and rng.random() < 0.8:
                ops.append("release %d" % i)
            ops.append("dsock %d" % i)
            socks[i]["alive"] = False
        elif 0.82 <= x < 0.835 and drivers:
            d = rng.choice(sorted(drivers))
            ops.append("ddriver %d" % d)
            drivers.discard(d); dead_drivers.add(d)
        elif x < 0.91 and len(todos) < 3 and drivers:
            t = len(todos) + 1
            todos[t] = True
            ops.append("todo %d %d %d" % (t, rng.choice(sorted(drivers)), rng.choice([1, 1, 0])))
        elif todos:
            t = rng.choice(sorted(todos))
            ops.append(rng.choice(["cancel %d", "shift %d", "shift %d", "droptodo %d"]) % t)
        else:
            ops.append("step 0")
    return ops


ALPHABET = ["send 0", "sendfail 0", "step 0", "pclose 0", "preset 0", "psend 0", "dsock 0", "ddriver 0",
            "send 1", "psend 1", "dsock 1", "cancel 1", "shift 1", "droptodo 1", "pconn 2", "dsock 2", "release 1", "todo 2 0 1",
            "echo 1"]
PREFIXES = [
    ["driver 0", "sock 0 tcp 0 0 0 0", "sock 1 udp 0 0 1 0", "sock 2 acc 0 0 0 0", "todo 1 0 1"],
    ["driver 0", "sock 0 tcp 0 1 0 0", "sock 1 udp 0 0 0 0", "sock 2 acc 0 0 0 0", "todo 1 0 0"],
]


def gen(rng, tier):
    cases = []
    count = 350 if tier == "quick" else 8000
    for k in range(count):
        h = walk(rng)
        cases.append(("life", "w%d" % k, h))
        cases.append(("life_nda", "a%d" % k, h))
        if k % 3 == 0:
            cases.append(("life_nd", "n%d" % k, h))
    L = 3 if tier == "quick" else 4
    k = 0
    for pi, pre in enumerate(PREFIXES):
        for n in range(1, (L if pi == 0 else min(L, 3)) + 1):
            if tier == "quick" and n == 3:
                # quick: a PRNG sample of the length-3 layer
                tails = [tuple(rng.choice(ALPHABET) for _ in range(3)) for _ in range(150)]
            else:
                tails = itertools.product(ALPHABET, repeat=n)
            for t in tails:
                har = "life" if (k % 2 == 0) else "life_nda"
                cases.append((har, "x%d" % k, pre + list(t)))
                k += 1
    return cases


TECHNIQUE = ("Lean 4 theorems (invariant over all legal histories of a lifecycle state machine with explicit UB outcomes; proved "
             "negation for the pre-fix variant; the run-time oracle Spec/C17.lean is a typed executable predicate proved to accept "
             "every trace of the model for every history: spec_holds_on_model, by a simulation relation) + model/implementation "
             "correspondence on random and bounded-exhaustive histories under sanitizers")
LEVEL_TEXT = ("Machine-checked theorems about a lifecycle state machine of drivers (weakly referenced), async sockets with their "
              "registration in the two parallel vectors, peers, send queues with futures, pools and ToDos, in which every place where "
              "the C++ would be undefined is an explicit outcome: no legal history of any length reaches undefined behaviour; after a "
              "socket is destroyed none of its futures is pending (for every history); destruction in any order is legal and safe; the "
              "pre-fix AsyncWantSend variant provably reaches UB on [attach; peer close; step; step; send]. The operations include the echo "
              "idiom (a received buffer, owned by the socket's own receive pool, handed back to Send of the same socket; the socket may "
              "then be destroyed with it queued): the theorems cover it, but the model has no notion of C++ member destruction order, so "
              "that the queued buffer finds its pool alive is established on the implementation only (sanitizer/assert builds). Tied to /repo on every run by "
              "driving the real API with generated legal histories (each in its own process; asserts+ASan+UBSan+_GLIBCXX_ASSERTIONS+"
              "vector annotations, NDEBUG+ASan, and plain NDEBUG builds), comparing every handler invocation and future state with the "
              "model and evaluating the property on the observations (no crash, no handler after destruction, no dangling future). "
              "That run-time predicate is its own module (Spec/C17.lean: typed observations, total functions specStep/specRun/specEnd, "
              "no model state) and a theorem of the model: spec_holds_on_model - for every history of any length, legal or not "
              "(operations that break a usage rule are refused as the harness refuses them), and every kernel answer to writes "
              "towards a closed peer, the observations the model produces (including the harness' final destruction of everything "
              "that is left, proved to be a legal continuation of every reachable state that leaves no socket alive and no future "
              "pending) are accepted by every clause; hence the oracle is never stricter than the model and a spec verdict is a "
              "genuine difference between implementation and model.")
LEVEL_NOTE = ("Trusted: Lean kernel; axioms propext/Quot.sound/Classical.choice; the hand-written model (tied to the code by "
              "correspondence on the generated histories only); sanitizers as the UB detector on the implementation side; Linux loopback "
              "semantics. Lifetime of std::function objects destroyed while executing is below the model. Cross-thread histories are C04.")

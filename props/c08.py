"""C08  Stop always ends Run."""
from props import threadgen

ID = "C08"
SRC = threadgen.SRC
HARNESSES = {
    "threads": dict(sources=SRC, flavour="asan", mode="C08", timeout=40),
    "default": dict(name="threads", sources=SRC, flavour="asan", mode="C08", timeout=40),
}
RULE = ("Run / consecutive Runs on the driver thread against Stop() from another thread (at any point: the scheduler also decides the "
        "thread start order, so 'after the thread was started but before it entered Run' is explored), from a task, twice, and with "
        "management traffic, under the deterministic scheduler with PRNG schedules; thorough adds every choice prefix of depth 8 for the "
        "Stop-vs-Run and the two-Runs scenarios. A Run that never returns shows up as 'all parked, none enabled'. "
        "non-trivial = a Run returned after a Stop; distinct op+seed.")
ASSUMPTIONS = ["as C04/C05; the shouldStop store/load are placed at the API marker of the same uninterrupted segment",
               "Stop() from a signal handler is modelled as dStop (enabled at every driver pc); a real SIGINT delivery is exercised by C16 thorough"]
TRUSTED = ["harness/sched"]
ALL_TAGS = ["stop", "run-exit", "contended", "dpoll", "task"]
EXHAUSTIVE = {}
SHRINK = False  # removing threads/actions changes the scenario (e.g. drops the stopper); the replay is ops + schedule


def nontrivial(ops, tags):
    return "run-exit" in tags and "stop" in tags


def gen(rng, tier):
    n = 300 if tier == "quick" else 20000
    cases = []
    for k in range(n):
        seed = rng.randrange(1, 10**9)
        ops = threadgen.stop_case(rng, seed) if rng.random() < 0.8 else threadgen.mixed_case(rng, seed)
        cases.append(("threads", "s%d" % k, ops))
    if tier == "thorough":
        b1 = ["sched 7", "drv run", "usr u1 stop", "go"]
        b2 = ["sched 7", "drv runs 2", "usr u1 stop waitrun:1 stop", "go"]
        b3 = ["sched 7", "drv run", "usr u1 todostop:0", "go"]
        for i, ops in enumerate(threadgen.prefix_cases(b1, 8, 2) + threadgen.prefix_cases(b2, 8, 2) + threadgen.prefix_cases(b3, 8, 2)):
            cases.append(("threads", "x%d" % i, ops))
    return cases


TECHNIQUE = ("Lean 4 invariant over the Run/Stop part of the lock-protocol LTS (Stop enabled at every point, any number of Stops/Runs) + scheduled real "
             "executions; the run-time oracle (Spec/C04.lean, monitor stepC) is proved to accept every trace of the model")
LEVEL_TEXT = ("Machine-checked over the LTS of C04 extended with Run/Stop: a completed Stop makes the pipe readable for a Run that is "
              "before or in its poll (the poll cannot block), with the flag set the loop test can only leave (no further step), Run leaves "
              "only by reading the flag as set and clears it (runnable again), the flag is raised only by Stop, a Stop issued while no Run "
              "is in progress persists until the next Run consumes it (stop_not_lost, stop_before_run_returns); Stop from a task/handler/"
              "signal handler is a transition enabled at every driver pc. The shipped Run (flag cleared on entry, F1) is refuted by an "
              "explicit path. Tied to /repo by scheduled executions in which thread start order and every sync point are schedule choices; "
              "each trace must be a path of the model and must end with Run returned. The direct checks on the trace (Run begins at most one "
              "further step after a Stop() had returned, Run does not return without a Stop, no execution ends inside a Run after a Stop) are the "
              "monitor stepC of Spec/C04.lean (shared with C04/C05; the driver only parses lines); theorem C08.spec_holds_on_model "
              "(= Locks.Spec.model_satisfies_spec in mode C08, no hypothesis) proves that it accepts every trace of the model for every history: "
              "any number of Stops from any thread, from tasks/handlers/signal handlers (dStop at any driver pc), successive Runs, manual Steps.")
LEVEL_NOTE = ("Trusted: as C04. 'after at most the step in progress' is the theorem stop_at_most_one_step (along every execution fragment "
              "with the flag up, Run begins at most one step) together with stop_wakes_run (that step's poll cannot block); it is also "
              "checked directly on traces. That the step itself terminates depends on user handlers/tasks returning.")

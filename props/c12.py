"""C12  Address text round-trip, canonical accessors and port fidelity."""
import socket

ID = "C12"
SRC = ["scen/address_parse.cpp", "vos/vos.cpp"]
HARNESSES = {
    "address_parse": dict(sources=SRC, flavour="asan", mode="C12", args=("--stack", "128"), timeout=5),
    "default": dict(name="address_parse", sources=SRC, flavour="asan", mode="C12", args=("--stack", "128"), timeout=5),
}
RULE = ("literal endpoints: IPv4 / IPv6 addresses from raw bytes (unspecified, loopback, broadcast, v4-mapped, link-local with the "
        "interface scopes of this host, high-bit patterns, PRNG 32/128-bit values), ports {0,1,79,80,443,1023,1024,32767,32768,65534,"
        "65535} and random, each in every documented spelling (h:p, [h]:p, scheme://.., ../path?query, pair (h,\"p\"); for port 0 also "
        "the service-less host and host/path, whose first colon may sit inside the free-text path) built by the "
        "harness from its own inet_ntop text; service / scheme names present in this image's services database; numeric services "
        "{-1,-3,65536,65537,99999,2^31,2^32,2^32+80,2^63,2^64,2^64+80,10^30} and in-range ones with prefixes \"\", +, -, blank, tab, "
        "0, 00 in each of the three positions (after the colon, as scheme, as service argument). non-trivial = a case containing a "
        "literal group and at least one rejected numeric service; distinct op sequences.")
ASSUMPTIONS = [
    "G1: for a numeric host literal h and a service s that strtoul reads completely as v, getaddrinfo yields host h and port v mod 2^16 "
    "(glibc); checked on every ok outcome (Port() == v), not proved",
    "G2: getnameinfo(NI_NUMERICHOST|NI_NUMERICSERV) returns the canonical text (inet_ntop) and the decimal port; checked on every literal",
    "service names are resolved by the image's services database; names absent from it are skipped (count recorded)",
]
TRUSTED = ["Drive/Uri.lean: parsing of transcript lines into the typed observations of Spec/Uri.lean (toOutcome, toGai; no property clause)",
           "tools/cxx2lean.py (source-derived tie, DESIGN.md 0.7): clang-14 JSON AST, chrono unit semantics read from the desugared types, unbounded Int for signed arithmetic (overflow = UB), abstract memcmp / container queries",
           "glibc getaddrinfo / getnameinfo / inet_ntop (ground truth of the literal text)",
           "libstdc++ std::stoll / std::to_string semantics (modelled, not verified)"]
ALL_TAGS = ["op.uri", "op.pair", "op.lit", "op.name", "uri", "pair", "ok", "throw.runtime_error", "throw.out_of_range",
            "throw.system_error", "gai", "gai.numericserv", "legacy.match"]
EXHAUSTIVE = {"thorough": False}
SHRINK = True
SKIPPED = []


def hx(s):
    b = s.encode("latin-1") if isinstance(s, str) else s
    return b.hex() if b else "-"


def nontrivial(ops, tags):
    return "op.lit" in tags and ("throw.runtime_error" in tags or "throw.out_of_range" in tags)


def scopes():
    try:
        return [i for i, n in socket.if_nameindex()]
    except OSError:
        return []


def service_names():
    out = []
    for name in ["http", "https", "ftp", "ssh", "smtp", "domain", "telnet", "pop3", "imap", "ntp", "ldap", "echo", "nosuchservice"]:
        try:
            out.append((name, socket.getservbyname(name, "tcp")))
        except OSError:
            if name not in SKIPPED:
                SKIPPED.append(name)
    return out


SPECIAL4 = [bytes(4), bytes([127, 0, 0, 1]), bytes([255] * 4), bytes([128, 0, 0, 0]), bytes([127, 255, 255, 255]),
            bytes([1, 2, 3, 4]), bytes([192, 0, 2, 2]), bytes([224, 0, 0, 1]), bytes([10, 0, 0, 1]), bytes([0, 0, 0, 1])]
SPECIAL6 = [bytes(16), bytes(15) + b"\x01", bytes(10) + b"\xff\xff\x01\x02\x03\x04", bytes(12) + b"\x01\x02\x03\x04",
            b"\xfe\x80" + bytes(13) + b"\x01", b"\xff\x02" + bytes(13) + b"\x01", b"\x80" + bytes(15), b"\xff" * 16,
            b"\x7f" + b"\xff" * 15, b"\x20\x01\x0d\xb8" + bytes(11) + b"\x01", bytes(14) + b"\x01\x00",
            b"\x00\x01" + bytes(14), b"\x00\x64\xff\x9b" + bytes(8) + b"\x01\x02\x03\x04"]
PORTS = [0, 1, 79, 80, 443, 1023, 1024, 32767, 32768, 65534, 65535]
BAD = ["-1", "-3", "65536", "65537", "99999", "2147483648", "4294967296", "4294967376", "9223372036854775808",
       "18446744073709551616", "18446744073709551696", "1000000000000000000000000000000", "-65536", "-18446744073709551615",
       "-18446744073709551536"]
GOOD = ["0", "80", "65535", "1"]
PREFIX = ["", "+", "-", " ", "\t", "0", "00", " +", "\n", "  -", "+0", "\x0b", "\x0c\r"]
SCHEMES = ["tcp", "udp", "http", "x", "a_1", "HTTP", "s9", "_"]
PATHCH = "abz/?&=#:[]@%._-~ 09"


FRAGMENTS = ["://", "http://x", "?url=http://h:80/", ":80", ":", "::", "[::1]:9", "//", "a://b://c", "@h:1", "%3A%2F%2F", ":99999"]


def rand_path(rng):
    p = "".join(rng.choice(PATHCH) for _ in range(rng.randrange(0, 12)))
    if rng.random() < 0.35:
        # a path / query is free text: it may itself contain scheme separators, colons, ports, brackets
        k = rng.randrange(0, len(p) + 1)
        p = p[:k] + rng.choice(FRAGMENTS) + p[k:]
    return p


def lit_op(rng):
    if rng.random() < 0.5:
        ip = rng.choice(SPECIAL4) if rng.random() < 0.5 else rng.getrandbits(32).to_bytes(4, "big")
        v6, scope = 0, 0
    else:
        ip = rng.choice(SPECIAL6) if rng.random() < 0.5 else rng.getrandbits(128).to_bytes(16, "big")
        v6, scope = 1, 0
        if ip[0] == 0xfe and (ip[1] & 0xc0) == 0x80 and rng.random() < 0.8:   # link-local: may carry a scope
            sc = scopes()
            scope = rng.choice(sc) if sc else 0
        if rng.random() < 0.15:
            ip = b"\xfe\x80" + bytes(6) + rng.getrandbits(64).to_bytes(8, "big")
            sc = scopes()
            scope = rng.choice(sc + [0]) if sc else 0
    port = rng.choice(PORTS) if rng.random() < 0.6 else rng.randrange(65536)
    return "lit %d %s %d %d %s %s" % (v6, ip.hex(), scope, port, hx(rng.choice(SCHEMES)), hx(rand_path(rng)))


def numeric_op(rng):
    host = rng.choice(["127.0.0.1", "localhost", "::1", "192.0.2.2"])
    num = rng.choice(PREFIX) + (rng.choice(BAD) if rng.random() < 0.7 else rng.choice(GOOD))
    if rng.random() < 0.15:
        # what reaches getaddrinfo is the C string: anything after an embedded NUL is cut off
        num += rng.choice(["\x00", "\x00/tcp", "\x00junk", "\x00 80"])
    where = rng.randrange(3)
    if where == 0:
        hp = ("[%s]" % host) if (":" in host or rng.random() < 0.3) else host
        return "uri " + hx(rng.choice(["", "tcp://"]) + hp + ":" + num + rng.choice(["", "/p"]))
    if where == 1:
        return "uri " + hx(num + "://" + host + rng.choice(["", "/p"]))
    return "pair %s %s" % (hx(host), hx(num))


def rand_case(rng, names):
    ops = []
    for _ in range(rng.randrange(2, 6)):
        ops.append(lit_op(rng))
    for _ in range(rng.randrange(4, 16)):
        ops.append(numeric_op(rng))
    if names and rng.random() < 0.7:
        name, port = rng.choice(names)
        if rng.random() < 0.5:
            ip, v6 = rng.choice(SPECIAL4), 0
        else:
            ip, v6 = rng.choice(SPECIAL6), 1
        ops.append("name %d %s 0 %s %d" % (v6, ip.hex(), hx(name), port))
    rng.shuffle(ops)
    return ops


def gen(rng, tier):
    names = service_names()
    count = 1500 if tier == "quick" else 20000
    return [("address_parse", "f%d" % k, rand_case(rng, names)) for k in range(count)]


def extra_coverage(stats):
    return {"service_names_skipped": list(SKIPPED)}


TECHNIQUE = "Lean 4 theorems (spellings agree, to_string round trip, decimal round trip, no silent wrap for all inputs; proved negation for the pre-fix code; the run-time oracle Spec/Uri.lean accepts every trace of the model over every name service satisfying G1/G2: spec_holds_on_model) + model/implementation correspondence on generated literals and numeric services"
LEVEL_TEXT = ("Machine-checked Lean 4 theorems about the executable model of UriDissect / ParseHostServ / to_string: for every host text "
              "(subject to the stated side conditions: no ':' '/' for the plain form, no '/' and line terminators for the bracketed "
              "form), every port < 65536, every \\w* scheme and every single-line path, all documented spellings (incl. the service-less host/path whose first colon sits inside the free-text path: hostpath_spelling) are dissected to the "
              "same (host, decimal port) and the pair hands the same arguments to getaddrinfo; the text composed by to_string is "
              "dissected back to exactly (host, port); decimal rendering round-trips; and for EVERY input (URI or pair, any bytes) a "
              "service that reaches getaddrinfo and that strtoul reads completely is <= 65535 (no silent wrap; strict form: the written "
              "number itself, sign applied and without strtoul's modulo, is in 0..65535) - with a proved "
              "negation for the pre-fix code by the witnesses 99999://localhost, (localhost,+99999), (localhost,' 99999'). Tied to "
              "/repo on every run: literal endpoints from raw bytes in every spelling, service names, and out-of-range / prefixed "
              "numeric services in all three positions run on the real constructors; the intercepted getaddrinfo arguments and the "
              "outcome class are compared with the model; Host()/Port()/Service()/IsV6()/to_string()/re-parse/equality of spellings "
              "are checked against the harness's own inet_ntop / integer ground truth by the typed total predicate Spec/Uri.lean "
              "(specStep/specRun, mode fidelity; the driver only parses lines into Obs and calls it). spec_holds_on_model "
              "(Props/C12.lean): for EVERY name service ns (getaddrinfo, getnameinfo, port and family of a socket address as explicit "
              "parameters) that satisfies G1/G2 stated as the hypothesis structure NameService.Lawful (satisfiable: toyNS_lawful for a "
              "concrete resolver) and every history of any length in the decidable domain histOk (uri / pair with arbitrary bytes; "
              "literal groups of addresses the resolver knows by their numeric text with \\w* schemes and single-line paths; service "
              "names the database maps to the port) that predicate accepts the trace of the model (parseUri / parseHostServ / "
              "Addr.toString + ns) - every spelling yields the ground-truth address, Port()/Service()/to_string/re-parse agree, nothing "
              "is wrapped; so a spec verdict is a difference between implementation and model (or a violated G1/G2).")
LEVEL_NOTE = ("Trusted: Lean kernel; axioms propext/Quot.sound/Classical.choice; hand-written model (correspondence on generated inputs "
              "only); harness, vos getaddrinfo shim. G1/G2 (what glibc does with a literal and a numeric service; canonical text) are "
              "assumptions of the 'same Address' reading of the theorems - since Spec/Uri.lean they are the explicit hypothesis "
              "NameService.Lawful of spec_holds_on_model; the check exercises them on every literal but does not prove them.")

"""C02  Async send pipeline: FIFO, whole buffers, futures tell the truth."""
import itertools

ID = "C02"
SRC = ["scen/async_send.cpp", "vos/vos.cpp"]
HARNESSES = {
    "asend": dict(sources=SRC, flavour="asan", mode="C02", timeout=30),
    "default": dict(name="asend", sources=SRC, flavour="asan", mode="C02", timeout=30),
    # the real-thread runs again under ThreadSanitizer (thorough tier): a data race on the send queue is a crash observation
    # producers and the driver under the deterministic cooperative scheduler: every lock/unlock of sendQMtx, stepMtx,
    # pauseMtx and the pool mutex is a schedule point (systematic exploration of the empty/refill race)
    "asend_sched": dict(name="async_send_sched", sources=["scen/async_send_sched.cpp", "sched/sched.cpp"], flavour="asan",
                        mode="C02", timeout=40),
    "asend_tsan": dict(name="asend_tsan", sources=SRC, flavour="tsan", mode="C02", timeout=30,
                       env={"TSAN_OPTIONS": "exitcode=66:halt_on_error=1:report_signal_unsafe=0"}),
}
RULE = ("sequential histories of Send(buffer of size s) / Step(0) under a send script (pass | short k | fail | zero) / "
        "peer-drain / peer-close / destroy on one SocketTcpAsync over loopback, s in {0,1,2,3,7,64,1000,5000} plus "
        "9k-70k buffers against a 4.6 kB SO_SNDBUF (real partial writes), send pool N in {1,2,3,#sends}; plus real-thread "
        "runs (1-4 producer threads x 1-6 buffers + a Run() thread, scripted short writes) checked against the property only. "
        "thorough adds every script of length <= 6 over {pass, short 1, short 3, fail} for 3 queued buffers. Plus 1-3 producer threads and the "
        "driver under the deterministic cooperative scheduler (every mutex operation, poll and pipe operation is a schedule point; PRNG "
        "schedules, thorough: all choice prefixes of depth 9), a lost transmission shows up as 'all parked, none enabled'. "
        "non-trivial = at least one partial write or failed send happened and at least two buffers were queued at once, or an mt run; "
        "distinct op sequences.")
ASSUMPTIONS = [
    "std::promise/std::future and the mutexes are sequentially consistent at critical-section granularity (actions of the model)",
    "loopback TCP delivers the accepted bytes to the peer unchanged and in order (the peer socket is the harness' observer)",
    "a socket whose accepted bytes were all read by the peer is reported writable by poll (used only to decide that a missing send attempt is a violation)",
]
TRUSTED = ["tools/cxx2lean_eff.py stage 4 (DESIGN.md 0.7.3): the async send queue over Gen.QueueWorld (operations recognised by canonical callee text + argument patterns + provenance of the structured binding), try/catch as M.tryCatch (system_error is-a runtime_error), lock_guard as lock/unlock calls on normal exits only; Model/GenQueueWorld.lean reads the queue models as that interface; dispatch chain: poll bit values from the macro expansion, branches recognised by exact statement text",
           "std::queue/std::string::erase semantics (modelled, not verified)",
           "the deterministic-scheduler exploration of DESIGN.md 4.3 is replaced by real-thread runs (property only) - the interleaving coverage of the "
           "correspondence is therefore the sequential one; all interleavings are covered by the theorems",
           "the transcript parser of Drive/C02.lean (lines -> typed observations AsyncQ.Obs; the predicate itself is Spec/C02.lean and is "
           "covered by spec_holds_on_model) and the byte-stream parser specMt of the multi-threaded runs (stays in the driver, enters the "
           "spec only as Obs.external, not covered by spec_holds_on_model)",
           "spec_holds_on_model quantifies over sequential API histories (Send = enq;arm, Step = writable;disarm or unregister - the "
           "compositions the correspondence uses, mSend/mWritable) and assumes the kernel does not answer 0 to an unscripted send() (Op.sane)"]
ALL_TAGS = ["enq.empty", "enq.nonempty", "w.full", "w.partial", "w.fail", "w.zero", "disarm", "unregister",
            "arm.unregistered", "destroy.pending", "destroy.idle", "drain", "nobuf", "mt"]
EXHAUSTIVE = {"thorough": False}
SHRINK = True


def nontrivial(ops, tags):
    if "mt" in tags:
        return True
    return ("w.partial" in tags or "w.fail" in tags) and "enq.nonempty" in tags


SIZES = [0, 1, 2, 3, 7, 64, 1000, 5000]
BIG = [9000, 20000, 40000, 70000]


def script(rng, big):
    x = rng.random()
    if x < 0.40:
        return "pass"
    if x < 0.80:
        return "short %d" % rng.choice([1, 1, 2, 3, 5, 100, 4096] + ([30000] if big else []))
    if x < 0.93:
        return "fail"
    return "zero"


def rand_history(rng, big=False):
    nsend = rng.randrange(1, 9)
    pool = rng.choice([nsend, nsend, nsend + 2, 1, 2, 3])
    ops = ["sock %d %d" % (pool, 4608 if big else 0)]
    nid = 1
    closed = False
    destroyed = False
    for _ in range(rng.randrange(3, 30)):
        x = rng.random()
        if destroyed:
            break
        if x < 0.35 and nid <= nsend:
            size = rng.choice(BIG) if (big and rng.random() < 0.5) else rng.choice(SIZES)
            ops.append("send %d %d" % (nid, size))
            nid += 1
        elif x < 0.80:
            ops.append("step " + script(rng, big))
        elif x < 0.93:
            ops.append("drain")
        elif x < 0.96 and not closed:
            ops.append("drain")
            ops.append("peerclose")
            closed = True
        elif x < 0.98:
            ops.append("destroy")
            destroyed = True
    if not destroyed:
        if not closed:
            for _ in range(rng.randrange(0, 14 if big else 6)):
                ops.append("step pass")
                if big:
                    ops.append("drain")
            ops.append("drain")
        ops.append("destroy")
    return ops


def gen(rng, tier):
    cases = []
    count = 800 if tier == "quick" else 30000
    for k in range(count):
        cases.append(("asend", "s%d" % k, rand_history(rng, big=False)))
    for k in range(30 if tier == "quick" else 1000):
        cases.append(("asend", "b%d" % k, rand_history(rng, big=True)))
    for k in range(80 if tier == "quick" else 2000):
        th = rng.randrange(1, 5)
        per = rng.randrange(1, 7)
        cases.append(("asend", "m%d" % k, ["mt %d %d %d %d %d" % (th, per, rng.choice([0, 1, 5, 40, 300]),
                                                                 rng.choice([0, 3, 10, 40]), rng.randrange(1000))]))
    if tier == "thorough":
        for k in range(400):
            th = rng.randrange(2, 5)
            per = rng.randrange(2, 7)
            cases.append(("asend_tsan", "t%d" % k, ["mt %d %d %d %d %d" % (th, per, rng.choice([0, 1, 5, 40, 300]),
                                                                      rng.choice([0, 3, 10, 40]), rng.randrange(1000))]))
        alphabet = ["step pass", "step short 1", "step short 3", "step fail"]
        k = 0
        for L in range(1, 7):
            for h in itertools.product(alphabet, repeat=L):
                ops = ["sock 3 0", "send 1 5", "send 2 0", "send 3 4"] + list(h) + \
                      ["drain"] + ["step pass"] * 9 + ["drain", "destroy"]
                cases.append(("asend", "x%d" % k, ops))
                k += 1
    # scheduled multi-producer runs (PRNG schedules; thorough: plus every choice prefix of depth 9 for 2 producers x 1 buffer)
    for k in range(300 if tier == "quick" else 20000):
        th = rng.choice([1, 2, 2, 3])
        per = rng.choice([1, 1, 2, 3])
        cases.append(("asend_sched", "s%d" % k, ["mt %d %d %d %d %d" % (th, per, rng.choice([0, 1, 5, 40]),
                                                                      rng.choice([0, 0, 2, 5, 9]), rng.randrange(1, 10**9))]))
    if tier == "thorough":
        for i, pref in enumerate(itertools.product(range(3), repeat=9)):
            cases.append(("asend_sched", "sx%d" % i, ["mt 2 1 5 2 7 " + " ".join(str(c) for c in pref)]))
    return cases


TECHNIQUE = ("Lean 4 theorems (invariant over all interleavings of enq/arm/writable/disarm/unregister/destroy actions, any number of threads, "
             "any partial-write pattern) + model/implementation correspondence under a scripted send() + real-thread property runs")
LEVEL_TEXT = ("Machine-checked Lean 4 theorems about an executable model of the async TCP send pipeline (SendQ, POLLOUT arming, DriverSend "
              "partial-write bookkeeping, promise resolution, buffer recycling, queue destruction) at the granularity of the sendQMtx/stepMtx "
              "critical sections, so that every interleaving of any number of producer threads with the driver is a list of model actions: "
              "FIFO/contiguity/no loss/no duplication of the byte stream for every partial-write pattern (asyncq_wire), value only after all bytes "
              "of this and all earlier buffers were accepted (asyncq_future_truth), exception/value/broken only from the matching action "
              "(asyncq_future_origin), resolved futures never change (asyncq_future_once), POLLOUT armed or an arming thread on its way whenever the "
              "queue is non-empty incl. the empty/refill race (asyncq_armed), strict progress per writable event (asyncq_drains, asyncq_no_new_work), "
              "buffer returned iff future resolved (asyncq_buffer_return), destruction breaks every pending promise (asyncq_destroy). "
              "The run-time property predicate is a typed, total Lean function of its own module (Spec/C02.lean: Obs, specStep, specRun; the driver "
              "only parses lines into Obs and calls it) and is itself a theorem of the model: spec_holds_on_model (= model_satisfies_spec) proves that "
              "it accepts the observations the model produces (modelTrace, built from the same step function) for every history of Sends, driver "
              "steps with arbitrary poll readiness and send() answers, peer reads, peer close, pool exhaustion and destruction, of any length - a "
              "spec failure on the implementation is therefore a difference between implementation and model, never an over-strict oracle. "
              "Tied to /repo on every run: the real SocketTcpAsync/Driver are driven over loopback against a raw peer under a send() script "
              "(short k / fail / zero, and real partial writes against a small SO_SNDBUF); futures, pool occupancy, send() arguments and the peer's "
              "bytes are compared with the model after every op, and the property (an ideal FIFO pipeline on the same OS answers) is evaluated on "
              "the implementation's observations; real multi-producer runs with a Run() thread are checked against the property.")
LEVEL_NOTE = ("Trusted: Lean kernel; axioms propext/Quot.sound/Classical.choice; the hand-written model (correspondence on generated sequential "
              "histories only - thread interleavings inside Send() are covered by the theorems and sampled by real-thread runs, not enumerated by "
              "a deterministic scheduler); harness and vos shim; memory ordering of std::promise and the mutexes assumed sequentially consistent.")

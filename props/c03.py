"""C03  Async events: in-order data, exactly-one disconnect, exactly-one connect."""
import itertools
from props import c18

ID = "C03"
SRC = ["scen/async_events.cpp", "vos/vos.cpp"]
HARNESSES = {
    "aevents": dict(sources=SRC, flavour="asan", mode="C03", timeout=30),
    "default": dict(name="aevents", sources=SRC, flavour="asan", mode="C03", timeout=30),
    # asynchronous TLS sockets (C18: "... after which C01, C02, C03, C07 and C15 hold unchanged"): the same event guarantees
    # - every byte delivered in order in non-empty chunks, nothing held back although it was received, exactly one disconnect -
    # through C18's harness and driver (real OpenSSL): receive buffers smaller than a TLS record, records arriving in
    # several segments, data queued before / during the handshake
    "tls": dict(c18.HARNESSES["tls"]),
}
RULE = ("histories over one Driver with 1-4 raw peers played by the harness: library client sockets (peer = harness listener) and "
        "AcceptorAsync + peer connects (connect handler upgrades to SocketTcpAsync), peer send (1..10000 bytes, distinct content per "
        "connection and offset) / close / reset, library-side Send (arms POLLOUT), destroy (outside and inside handlers of other "
        "sockets), Step(0) on the calling or on a fresh thread; rx pool (count,size) from {1,2,0}x{1,7,4096}; the harness waits with "
        "the real poll until the kernel shows the scripted readiness, so the order in which several sockets are ready is the scripted "
        "one. thorough adds every history of <= 6 ops over 2 peers. non-trivial = data, a disconnect and at least two sockets "
        "ready in one step or a handler destroying a socket; distinct op sequences.")
ASSUMPTIONS = [
    "A-POLL: poll reports POLLIN for a TCP socket iff data, EOF or an error is pending, for a listening socket iff a connection is "
    "established; POLLHUP|POLLERR come together with POLLIN for a reset connection",
    "data queued before a reset stays readable (Linux keeps the receive queue); the model delivers it before the failure",
    "the segmentation the kernel chooses for recv() is an oracle: the observed chunk sizes are fed to the model (validated 1..rxBufSize)",
]
TRUSTED = ["tools/cxx2lean_eff.py stage 4 (DESIGN.md 0.7.3): the async send queue over Gen.QueueWorld (operations recognised by canonical callee text + argument patterns + provenance of the structured binding), try/catch as M.tryCatch (system_error is-a runtime_error), lock_guard as lock/unlock calls on normal exits only; Model/GenQueueWorld.lean reads the queue models as that interface; dispatch chain: poll bit values from the macro expansion, branches recognised by exact statement text",
           "kernel TCP over loopback; std::vector erase/emplace_back order of sockets/pfds (modelled as list filter/append)",
           "the run-time oracle itself is no longer trusted to be consistent with the model: Spec/C03.lean `specStep` (the only place "
           "where property clauses are evaluated; Drive/C03.lean merely parses transcript lines into typed `Spec.Obs`) is proved to "
           "accept every trace of the model (spec_holds_on_model); what stays trusted is that its clauses say what the property text "
           "says, and the line parser of the driver"]
ALL_TAGS = ["client", "acceptor", "pconnect", "send", "close", "rst", "arm", "arm.unregistered", "destroy", "step.idle", "step.send",
            "data", "data.full", "disconnect.eof", "disconnect.fail", "connect", "handler.destroys", "step.thread"]
EXHAUSTIVE = {"thorough": False}
SHRINK = True


def nontrivial(ops, tags):
    if any(t.startswith("pair.tls") for t in tags):
        return "task.readable" in tags
    return ("data" in tags or "data.full" in tags) and any(t.startswith("disconnect") for t in tags) and \
        (("connect" in tags) or ("handler.destroys" in tags) or sum(1 for o in ops if o.startswith("client")) >= 2)


def rand_history(rng):
    ops = []
    if rng.random() < 0.15:
        ops.append("careless")   # the connect handler lets the exception of a failed upgrade (peer already reset) escape
    rxsize = rng.choice([1, 7, 4096])
    ops.append("rx %d %d" % (rng.choice([1, 2, 0]), rxsize))
    nxt = 1
    accs = []
    conns = {}      # i -> dict(closed, lib(bool: library has/will have a socket), destroyed)
    npeers = rng.randrange(1, 5)
    owed = 0        # rough count of steps needed
    maxlen = {1: 10, 7: 40, 4096: 10000}

    def new_id():
        nonlocal nxt
        nxt += 1
        return nxt - 1

    # opening: a few connections of both kinds so that several sockets are ready at once later
    for _ in range(rng.randrange(0, 4)):
        if len(conns) >= npeers:
            break
        if rng.random() < 0.45:
            i = new_id()
            ops.append("client %d" % i)
            conns[i] = dict(closed=False)
        else:
            if not accs or (len(accs) < 2 and rng.random() < 0.2):
                a = new_id()
                ops.append("acceptor %d" % a)
                accs.append(a)
            i = new_id()
            ops.append("pconnect %d %d" % (rng.choice(accs), i))
            conns[i] = dict(closed=False)
            owed += 1
    for _ in range(rng.randrange(4, 40)):
        x = rng.random()
        live = [i for i, c in conns.items() if not c["closed"]]
        if x < 0.10 and len(conns) < npeers:
            i = new_id()
            ops.append("client %d" % i)
            conns[i] = dict(closed=False)
        elif x < 0.15 and len(accs) < 2:
            a = new_id()
            ops.append("acceptor %d" % a)
            accs.append(a)
        elif x < 0.27 and accs and len(conns) < npeers:
            i = new_id()
            ops.append("pconnect %d %d" % (rng.choice(accs), i))
            conns[i] = dict(closed=False)
            owed += 1
        elif x < 0.47 and live:
            rx = rxsize
            ln = rng.choice([1, 2, 3, rx, rx + 1, 2 * rx, rng.randrange(1, maxlen[rxsize] + 1)])
            ln = max(1, min(ln, maxlen[rxsize]))
            ops.append("send %d %d" % (rng.choice(live), ln))
            owed += (ln + rx - 1) // rx
        elif x < 0.53 and live:
            i = rng.choice(live)
            ops.append("%s %d" % (rng.choice(["close", "close", "rst"]), i))
            conns[i]["closed"] = True
            owed += 1
        elif x < 0.57 and conns:
            ops.append("arm %d" % rng.choice(sorted(conns)))
            owed += 1
        elif x < 0.60 and (conns or accs):
            ops.append("destroy %d" % rng.choice(sorted(conns) + accs))
        elif x < 0.64 and len(conns) + len(accs) >= 2:
            i, j = rng.sample(sorted(conns) + accs, 2)
            ops.append("onev %d %d" % (i, j))
        elif x < 0.67:
            ops.append("rx %d %d" % (rng.choice([1, 2, 0]), rxsize))
        else:
            ops.append("step" if rng.random() < 0.85 else "step thread")
            owed = max(0, owed - 1)
    for _ in range(min(owed + 2, 60)):
        ops.append("step")
    return ops


def gen(rng, tier):
    cases = []
    count = 800 if tier == "quick" else 30000
    for k in range(count):
        cases.append(("aevents", "e%d" % k, rand_history(rng)))
    # TLS slice: at least one asynchronous endpoint
    combos = [c for c in c18.matrix() if "async" in (c[0], c[1])]
    if tier == "quick":
        combos = rng.sample(combos, 40)
    for k, (cli, srv, ct, st, cf, sf, style, seg, shared) in enumerate(combos):
        csz, ssz = rng.choice([1, 100, 3000, 20000]), rng.choice([1, 100, 3000, 20000])
        if seg == 1:
            csz, ssz = min(csz, 3000), min(ssz, 3000)
        ops = c18.case_ops(cli, srv, ct, st, cf, sf, style, seg, rng.randrange(10**6), csz, ssz, shared,
                           rsz=rng.choice([20000, 20000, 4096, 777]))
        if ops:
            cases.append(("tls", "tls%d" % k, ops))
    # receive buffer smaller than one TLS record, the peer goes quiet after it (F8)
    for csz, rsz in ((10000, 4096), (40000, 1000), (16384, 16383)):
        cases.append(("tls", "tlsf8_%d" % rsz, c18.case_ops("basic", "async", 0, 0, "s", "r", "seq", 0, rng.randrange(10**6), csz, 0, rsz=rsz)))
    if tier == "thorough":
        alphabet = ["send 2 3", "send 4 2", "close 2", "rst 4", "step", "arm 2", "onev 2 4"]
        k = 0
        for L in range(1, 7):
            for h in itertools.product(alphabet, repeat=L):
                if "step" not in h:
                    continue
                ops = ["rx 1 2", "client 2", "acceptor 3", "pconnect 3 4"] + list(h) + ["step"] * 6
                cases.append(("aevents", "x%d" % k, ops))
                k += 1
                if k >= 20000:
                    break
            if k >= 20000:
                break
    return cases


TECHNIQUE = ("Lean 4 theorems (invariant over all histories of peer/user operations and driver steps, any segmentation, any handler-side "
             "destruction, any registration order) + model/implementation correspondence over loopback with raw peers")
LEVEL_TEXT = ("Machine-checked Lean 4 theorems about an executable model of StepSockets/DoOneSocketTask (one task per step, first ready socket "
              "in list order, readiness tests in the order extracted from the source), DriverReceive (chunk of 1..rxBufSize bytes to the receive "
              "handler; EOF/failure: unregister then disconnect handler with the cached address), DriverConnect (accept, handler) and "
              "AsyncUnregister: nothing of a socket after its disconnect, at most one disconnect (handler_shape); delivered chunks ++ queued "
              "bytes = bytes the peer sent, chunk sizes within 1..rxBufSize (data_in_order); a disconnect only on an ended connection whose bytes "
              "were all delivered (disconnect_after_drain, depends on POLLIN being tested before HUP|ERR); address = the one cached at "
              "construction, socket unregistered before the handler (disconnect_address); reported ++ waiting connections = established "
              "connections, ids unique (connect_exactly_once); the extracted dispatch order serves readable first (dispatch_order); whenever "
              "anything is owed to a registered socket a step performs a task and the amount owed strictly decreases, independent of list "
              "position (events_progress); handler events only inside steps, at most one per step (handlers_in_step, one_handler_per_step). "
              "spec_holds_on_model (= Spec.model_satisfies_spec, Spec/C03.lean): the executable predicate the check evaluates on the "
              "implementation's observations - Spec.specStep over typed observations, total, no model state: one socket task per step, "
              "handlers on the Step thread, chunk non-empty / within rxBufSize / the next bytes of the peer's stream, disconnect only "
              "after the peer ended and everything was delivered and with the address the socket was created for, nothing after "
              "disconnect or destruction, connect exactly once, in order, with the right peer and socket, no idle step while anything "
              "is owed - ACCEPTS the observations the model produces (the operations and what every step appends to the model's "
              "handler log) for every history of any length, any segmentation, buffer size and handler-side destruction, with the "
              "dispatch order extracted from the source; hypothesis histWf: peers only send/close/reset connections that exist. So a "
              "spec verdict on the implementation is provably a difference between implementation and model, and the oracle is never "
              "stricter than the model. "
              "Tied to /repo on every run: real SocketTcpAsync/AcceptorAsync on one Driver against raw peers (connect/send/close/reset), "
              "rx pools (count,size) in {1,2,0}x{1,7,4096}, handler-side destruction, Step on a foreign thread; every handler call (kind, socket, "
              "length+hash, address, thread) is compared with the model and the property is evaluated on the observations.")
LEVEL_NOTE = ("Trusted: Lean kernel; axioms propext/Quot.sound/Classical.choice; hand-written model (correspondence on generated histories only); "
              "kernel revents behaviour (A-POLL) and recv segmentation (oracle); harness and vos shim. 'on the thread executing Step/Run' is "
              "handlers_in_step + the harness' thread-id observation; the lock protocol itself is C04/C05.")

#!/bin/sh
# Build the framework from files on disk only (offline): the Lean package and
# the default implementation flavour.  Every check rebuilds what it needs on
# demand, so this only warms the caches.
set -e
cd "$(dirname "$0")"
python3 - <<'PY'
import sys
sys.path.insert(0, "tools")
import vlib
ok, out = vlib.lean_build()
if not ok:
    print(out[-3000:]); sys.exit(1)
vlib.build_impl("asan")
print("setup ok")
PY

import SockModel.Basic
import SockModel.Drive.Common
import SockModel.Drive.C10
import SockModel.Props.C10

import SockModel.Basic
import SockModel.Drive.Common
import SockModel.Drive.C10
import SockModel.Props.C10
import SockModel.Drive.C06
import SockModel.Props.C06
import SockModel.Generated.Consts

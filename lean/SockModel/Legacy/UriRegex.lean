import SockModel.Model.UriLemmas
/-!
A *declarative reading* of the three regular expressions of the pinned commit
(src/address_impl.cpp before fix F4, kept verbatim in harness/legacy/legacy_uri.h):

```
reServ        ((^\w+)?://)?([^/]+)/?.*$
rePortBracket ^\[(.*)\]:(\d+$)
rePort        (^[^:]+):(\d+$)
```

read with ECMAScript semantics in the "C" locale: `regex_match` matches the whole input,
quantifiers are greedy, an optional group is tried first (leftmost alternative first),
`.` excludes the line terminators LF and CR, `\w = [A-Za-z0-9_]`, `\d = [0-9]`.

The reading is relational: which decompositions `s = scheme ++ "://" ++ host ++ rest` exist,
and which of them the priority rules select (optional group present if any such match exists;
longest host among the candidates).  For the two port expressions the decomposition is unique.
`RegexDissects s d` is the result of `UriDissect` of the pinned commit on a matching input.

The lemmas below prove that the plain-scan functions of `Model/Uri.lean` compute exactly this
relation; the property theorem `dissect_refines_regex` is in `Props/C11.lean`.
-/
namespace SockModel.Uri.Regex
open SockModel.Decimal SockModel.Uri

/-- `([^/]+)/?.*$` anchored at the start of `r`, capture `h` -/
def HostPath (r h : Bytes) : Prop :=
  h ≠ [] ∧ (0x2f : UInt8) ∉ h ∧
  ∃ sl tail, r = h ++ sl ++ tail ∧ (sl = [] ∨ sl = [0x2f]) ∧ hasLineBreak tail = false

/-- group 1 `((^\w+)?://)` participates with scheme `w` (`w = []`: group 2 did not participate),
followed by `HostPath` -/
def SchemeMatch (s w h : Bytes) : Prop :=
  (∀ c ∈ w, isWord c = true) ∧ ∃ r, s = w ++ 0x3a :: 0x2f :: 0x2f :: r ∧ HostPath r h

/-- `reServ` with the priorities of a backtracking matcher: `(serv, h)` = (group 2, group 3) -/
def ReServ (s serv h : Bytes) : Prop :=
  (SchemeMatch s serv h ∧ ∀ w' h', SchemeMatch s w' h' → h'.length ≤ h.length) ∨
  ((¬ ∃ w' h', SchemeMatch s w' h') ∧ serv = [] ∧ HostPath s h ∧ ∀ h', HostPath s h' → h'.length ≤ h.length)

/-- `rePortBracket` -/
def BracketMatch (u h d : Bytes) : Prop :=
  u = 0x5b :: (h ++ 0x5d :: 0x3a :: d) ∧ hasLineBreak h = false ∧ isDigits d = true

/-- `rePort` -/
def PlainMatch (u h d : Bytes) : Prop :=
  u = h ++ 0x3a :: d ∧ h ≠ [] ∧ (0x3a : UInt8) ∉ h ∧ isDigits d = true

/-- `rePortBracket || rePort` (short-circuit: the bracket form first) -/
def RePort (u h d : Bytes) : Prop :=
  BracketMatch u h d ∨ ((¬ ∃ h' d', BracketMatch u h' d') ∧ PlainMatch u h d)

/-- what the pinned `UriDissect` computes on `s` -/
def RegexDissects (s : Bytes) (d : Dissect) : Prop :=
  ∃ serv u, ReServ s serv u ∧
    ((d.numeric = true ∧ RePort u d.host d.serv) ∨
     (d.numeric = false ∧ (¬ ∃ h p, RePort u h p) ∧ d.host = u ∧ d.serv = serv))

/-! ### HostPath vs. trimPath -/

theorem hasLineBreak_suffix {a b : Bytes} (h : a <:+ b) (hb : hasLineBreak b = false) : hasLineBreak a = false := by
  obtain ⟨t, rfl⟩ := h
  simp only [hasLineBreak, List.any_append, Bool.or_eq_false_iff] at hb
  exact hb.2

theorem slashFree_all {h : Bytes} (hs : (0x2f : UInt8) ∉ h) : ∀ x ∈ h, (x != 0x2f) = true := by
  intro x hx
  cases hb : x != 0x2f
  · have : x = 0x2f := by simpa using hb
    subst this; exact absurd hx hs
  · rfl

theorem hostPath_of_trimPath {r h : Bytes} (e : trimPath r = some h) : HostPath r h := by
  obtain ⟨hh, hne, hlb⟩ := trimPath_some e
  have hsplit := List.takeWhile_append_dropWhile (p := (· != (0x2f : UInt8))) (l := r)
  rw [← hh] at hsplit
  have hdrop : r.drop h.length = r.dropWhile (· != (0x2f : UInt8)) := by
    conv => lhs; rw [← hsplit]
    rw [List.drop_left]
  refine ⟨hne, ?_, ?_⟩
  · intro hm
    rw [hh] at hm
    have := (mem_takeWhile hm).1
    simp at this
  · cases hd : r.dropWhile (· != (0x2f : UInt8)) with
    | nil =>
      refine ⟨[], [], ?_, Or.inl rfl, by simp [hasLineBreak]⟩
      rw [hd, List.append_nil] at hsplit
      simp [hsplit]
    | cons c p =>
      have hc : (c != 0x2f) = false := dropWhile_head_false (p := fun y => y != (0x2f : UInt8)) hd
      have hc' : c = 0x2f := by simpa using hc
      subst hc'
      refine ⟨[0x2f], p, ?_, Or.inr rfl, ?_⟩
      · rw [hd] at hsplit
        rw [← hsplit]; simp
      · rw [hdrop, hd] at hlb
        simpa using hlb

theorem hostPath_prefix {r h : Bytes} (hp : HostPath r h) :
    ∃ x, r.takeWhile (· != (0x2f : UInt8)) = h ++ x := by
  obtain ⟨_, hs, sl, tail, hr, _, _⟩ := hp
  rw [hr, List.append_assoc, List.takeWhile_append_of_pos (slashFree_all hs)]
  exact ⟨_, rfl⟩

theorem hostPath_length_le {r h hm : Bytes} (hp : HostPath r h) (e : trimPath r = some hm) : h.length ≤ hm.length := by
  obtain ⟨x, hx⟩ := hostPath_prefix hp
  rw [(trimPath_some e).1, hx]
  simp

theorem trimPath_of_hostPath {r h : Bytes} (hp : HostPath r h) : ∃ hm, trimPath r = some hm := by
  obtain ⟨hne, hs, sl, tail, hr, hsl, hlb⟩ := hp
  have hall := slashFree_all hs
  rcases hsl with rfl | rfl
  · -- no slash consumed: the greedy host may extend into `tail`, the rest is a suffix of `tail`
    simp only [List.append_nil] at hr
    have htw : r.takeWhile (· != (0x2f : UInt8)) = h ++ tail.takeWhile (· != (0x2f : UInt8)) := by
      rw [hr, List.takeWhile_append_of_pos hall]
    have hdrop : r.drop (r.takeWhile (· != (0x2f : UInt8))).length = tail.dropWhile (· != (0x2f : UInt8)) := by
      rw [htw]
      conv => lhs; arg 2; rw [hr, ← List.takeWhile_append_dropWhile (p := (· != (0x2f : UInt8))) (l := tail), ← List.append_assoc]
      rw [List.drop_left]
    refine ⟨r.takeWhile (· != (0x2f : UInt8)), ?_⟩
    unfold trimPath
    have hemp : (r.takeWhile (· != (0x2f : UInt8))).isEmpty = false := by
      rw [htw]; cases h <;> simp at hne ⊢
    simp only [hemp, Bool.false_eq_true, if_false, hdrop]
    have hsuf : (tail.dropWhile (· != (0x2f : UInt8))).drop 1 <:+ tail :=
      List.IsSuffix.trans (List.drop_suffix _ _) (List.dropWhile_suffix _)
    have := hasLineBreak_suffix hsuf hlb
    simpa using this
  · have := trimPath_eval (a := h) (tail := 0x2f :: tail) hs hne (Or.inr ⟨tail, rfl, hlb⟩)
    refine ⟨h, ?_⟩
    rw [hr]
    simpa using this

/-- `trimPath` selects the greedy match of `([^/]+)/?.*$` -/
theorem trimPath_iff {r h : Bytes} :
    trimPath r = some h ↔ (HostPath r h ∧ ∀ h', HostPath r h' → h'.length ≤ h.length) := by
  constructor
  · intro e
    exact ⟨hostPath_of_trimPath e, fun h' hp => hostPath_length_le hp e⟩
  · intro ⟨hp, hmax⟩
    obtain ⟨hm, e⟩ := trimPath_of_hostPath hp
    have h1 := hostPath_length_le hp e
    have h2 := hmax hm (hostPath_of_trimPath e)
    obtain ⟨x, hx⟩ := hostPath_prefix hp
    have hmeq := (trimPath_some e).1
    rw [hx] at hmeq
    have hlen : x.length = 0 := by
      have := congrArg List.length hmeq
      simp only [List.length_append] at this
      omega
    have : x = [] := List.eq_nil_of_length_eq_zero hlen
    subst this
    rw [e, hmeq]; simp

theorem trimPath_none_iff {r : Bytes} : trimPath r = none ↔ ¬ ∃ h, HostPath r h := by
  constructor
  · intro e ⟨h, hp⟩
    obtain ⟨hm, e'⟩ := trimPath_of_hostPath hp
    rw [e] at e'; cases e'
  · intro hno
    cases e : trimPath r with
    | none => rfl
    | some h => exact absurd ⟨h, hostPath_of_trimPath e⟩ hno

/-! ### SchemeMatch / ReServ vs. trimServAndPath -/

theorem schemeMatch_shape {s w h : Bytes} (m : SchemeMatch s w h) :
    s.takeWhile isWord = w ∧ (s.drop w.length).take 3 = [0x3a, 0x2f, 0x2f] ∧ HostPath ((s.drop w.length).drop 3) h := by
  obtain ⟨hw, r, hs, hp⟩ := m
  have htw : s.takeWhile isWord = w := by
    rw [hs]; exact takeWhile_stop hw (by decide)
  refine ⟨htw, ?_, ?_⟩
  · rw [hs, List.drop_left]; rfl
  · rw [hs, List.drop_left]; exact hp

theorem schemeMatch_of_shape {s h : Bytes}
    (h3 : (s.drop (s.takeWhile isWord).length).take 3 = [0x3a, 0x2f, 0x2f])
    (hp : HostPath ((s.drop (s.takeWhile isWord).length).drop 3) h) : SchemeMatch s (s.takeWhile isWord) h := by
  refine ⟨fun c hc => (mem_takeWhile hc).1, (s.drop (s.takeWhile isWord).length).drop 3, ?_, hp⟩
  have h1 : s = s.takeWhile isWord ++ s.drop (s.takeWhile isWord).length := by
    conv => lhs; rw [← List.take_append_drop (s.takeWhile isWord).length s]
    congr 1
    have := List.takeWhile_prefix (l := s) isWord
    exact (List.prefix_iff_eq_take.mp this).symm
  have h2 : s.drop (s.takeWhile isWord).length =
      [0x3a, 0x2f, 0x2f] ++ (s.drop (s.takeWhile isWord).length).drop 3 := by
    conv => lhs; rw [← List.take_append_drop 3 (s.drop (s.takeWhile isWord).length)]
    rw [h3]
  conv => lhs; rw [h1, h2]
  simp

/-- `trimServAndPath` computes `reServ` with its priorities -/
theorem trimServAndPath_iff {s u serv : Bytes} : trimServAndPath s = some (u, serv) ↔ ReServ s serv u := by
  have fallback_iff : (trimPath s).map (·, ([] : Bytes)) = some (u, serv) ↔
      (serv = [] ∧ HostPath s u ∧ ∀ h', HostPath s h' → h'.length ≤ u.length) := by
    cases e : trimPath s with
    | none =>
      constructor
      · intro h; cases h
      · intro ⟨_, hp, _⟩
        exact absurd ⟨u, hp⟩ (trimPath_none_iff.mp e)
    | some h =>
      simp only [Option.map_some, Option.some.injEq, Prod.mk.injEq]
      constructor
      · intro ⟨a, b⟩
        subst a; subst b
        exact ⟨rfl, trimPath_iff.mp e⟩
      · intro ⟨a, hp, hmax⟩
        have := trimPath_iff.mpr ⟨hp, hmax⟩
        rw [e] at this
        cases this
        exact ⟨rfl, a.symm⟩
  unfold trimServAndPath
  by_cases hsch : ((s.drop (s.takeWhile isWord).length).take 3 == [0x3a, 0x2f, 0x2f]) = true
  · have h3 : (s.drop (s.takeWhile isWord).length).take 3 = [0x3a, 0x2f, 0x2f] := by simpa using hsch
    simp only [hsch, if_true]
    cases e : trimPath ((s.drop (s.takeWhile isWord).length).drop 3) with
    | some h =>
      simp only [Option.some.injEq, Prod.mk.injEq]
      have hm : SchemeMatch s (s.takeWhile isWord) h := schemeMatch_of_shape h3 (hostPath_of_trimPath e)
      constructor
      · intro ⟨a, b⟩
        subst a; subst b
        refine Or.inl ⟨hm, ?_⟩
        intro w' h' m'
        obtain ⟨hw', _, hp'⟩ := schemeMatch_shape m'
        rw [← hw'] at hp'
        exact hostPath_length_le hp' e
      · intro hre
        rcases hre with ⟨m, hmax⟩ | ⟨hno, _⟩
        · obtain ⟨hw, _, hp⟩ := schemeMatch_shape m
          rw [← hw] at hp
          have hmax' : ∀ h', HostPath ((s.drop (s.takeWhile isWord).length).drop 3) h' → h'.length ≤ u.length := by
            intro h' hp'
            exact hmax _ h' (schemeMatch_of_shape h3 hp')
          have := trimPath_iff.mpr ⟨hp, hmax'⟩
          rw [e] at this
          cases this
          exact ⟨rfl, hw⟩
        · exact absurd ⟨_, _, hm⟩ hno
    | none =>
      simp only
      rw [fallback_iff]
      have hno : ¬ ∃ w' h', SchemeMatch s w' h' := by
        intro ⟨w', h', m'⟩
        obtain ⟨hw', _, hp'⟩ := schemeMatch_shape m'
        rw [← hw'] at hp'
        exact (trimPath_none_iff.mp e) ⟨h', hp'⟩
      constructor
      · intro ⟨a, hp, hmax⟩
        exact Or.inr ⟨hno, a, hp, hmax⟩
      · intro hre
        rcases hre with ⟨m, _⟩ | ⟨_, a, hp, hmax⟩
        · exact absurd ⟨_, _, m⟩ hno
        · exact ⟨a, hp, hmax⟩
  · simp only [hsch, if_false, Bool.false_eq_true]
    rw [fallback_iff]
    have hno : ¬ ∃ w' h', SchemeMatch s w' h' := by
      intro ⟨w', h', m'⟩
      obtain ⟨hw', h3', _⟩ := schemeMatch_shape m'
      rw [← hw'] at h3'
      rw [h3'] at hsch
      simp at hsch
    constructor
    · intro ⟨a, hp, hmax⟩
      exact Or.inr ⟨hno, a, hp, hmax⟩
    · intro hre
      rcases hre with ⟨m, _⟩ | ⟨_, a, hp, hmax⟩
      · exact absurd ⟨_, _, m⟩ hno
      · exact ⟨a, hp, hmax⟩

theorem trimServAndPath_none_iff {s : Bytes} : trimServAndPath s = none ↔ ¬ ∃ serv u, ReServ s serv u := by
  constructor
  · intro e ⟨serv, u, hre⟩
    rw [trimServAndPath_iff.mpr hre] at e
    cases e
  · intro hno
    cases e : trimServAndPath s with
    | none => rfl
    | some p => exact absurd ⟨p.2, p.1, trimServAndPath_iff.mp e⟩ hno

/-! ### RePort vs. splitPort -/

theorem bracket_shape {before : Bytes} (hlen : 2 ≤ before.length) (hh : before.head? = some 0x5b)
    (hl : before.getLast? = some 0x5d) :
    before = 0x5b :: ((before.drop 1).take (before.length - 2) ++ [0x5d]) := by
  cases before with
  | nil => simp at hlen
  | cons x t =>
    simp only [List.head?_cons, Option.some.injEq] at hh
    subst hh
    simp only [List.length_cons] at hlen
    have htne : t ≠ [] := by intro e; subst e; simp at hlen
    have hl' : t.getLast? = some 0x5d := by
      rw [List.getLast?_cons_of_ne_nil htne] at hl; exact hl
    have := List.dropLast_concat_getLast htne
    have hg : t.getLast htne = 0x5d := by
      have h2 := List.getLast?_eq_some_getLast htne
      rw [hl'] at h2
      exact (Option.some.inj h2).symm
    rw [hg] at this
    simp only [List.drop_succ_cons, List.drop_zero, List.length_cons]
    have hk : t.length + 1 - 2 = t.length - 1 := by omega
    rw [hk, ← List.dropLast_eq_take, this]

theorem splitLast_unique {c : UInt8} {s a b : Bytes} (hs : s = a ++ c :: b) (hb : c ∉ b) : splitLast c s = some (a, b) := by
  rw [hs]; exact splitLast_append hb

/-- `splitPort` computes `rePortBracket || rePort` -/
theorem splitPort_iff {u h d : Bytes} : splitPort u = some (h, d) ↔ RePort u h d := by
  constructor
  · intro e
    have e0 := e
    unfold splitPort at e
    cases hs : splitLast 0x3a u with
    | none => rw [hs] at e; simp at e
    | some bp =>
      obtain ⟨before, port⟩ := bp
      simp only [hs] at e
      have ⟨hu, hnc⟩ := splitLast_sound hs
      by_cases hd : isDigits port = true
      · simp only [hd, Bool.not_true, Bool.false_eq_true, if_false] at e
        by_cases hbr : (2 ≤ before.length && before.head? == some 0x5b && before.getLast? == some 0x5d &&
            !hasLineBreak ((before.drop 1).take (before.length - 2))) = true
        · simp only [hbr, if_true, Option.some.injEq, Prod.mk.injEq] at e
          obtain ⟨rfl, rfl⟩ := e
          simp only [Bool.and_eq_true, decide_eq_true_eq, beq_iff_eq, Bool.not_eq_true'] at hbr
          obtain ⟨⟨⟨hlen, hh⟩, hl⟩, hlb⟩ := hbr
          have hshape := bracket_shape hlen hh hl
          refine Or.inl ⟨?_, hlb, hd⟩
          rw [hu]
          conv => lhs; rw [hshape]
          simp
        · simp only [hbr, if_false, Bool.false_eq_true] at e
          by_cases hpl : (1 ≤ before.length && !before.contains 0x3a) = true
          · simp only [hpl, if_true, Option.some.injEq, Prod.mk.injEq] at e
            obtain ⟨rfl, rfl⟩ := e
            simp only [Bool.and_eq_true, decide_eq_true_eq, Bool.not_eq_true', List.contains_eq_mem,
              decide_eq_false_iff_not] at hpl
            refine Or.inr ⟨?_, hu, by intro e; rw [e] at hpl; simp at hpl, hpl.2, hd⟩
            intro ⟨h', d', hb', hlb', hd'⟩
            -- a bracket match of the same text would have been found by the scan
            have hu' : u = (0x5b :: (h' ++ [0x5d])) ++ 0x3a :: d' := by rw [hb']; simp
            have := splitLast_unique hu' (digits_no_colon hd')
            rw [hs] at this
            simp only [Option.some.injEq, Prod.mk.injEq] at this
            obtain ⟨rfl, rfl⟩ := this
            apply hbr
            have hinner : ((0x5b :: (h' ++ [0x5d])).drop 1).take ((0x5b :: (h' ++ [0x5d])).length - 2) = h' := by
              simp only [List.drop_succ_cons, List.drop_zero, List.length_cons, List.length_append, List.length_nil]
              have : h'.length + (0 + 1) + 1 - 2 = h'.length := by omega
              rw [this, List.take_left]
            have hlast : (0x5b :: (h' ++ [0x5d])).getLast? = some 0x5d := by
              have : 0x5b :: (h' ++ [0x5d]) = (0x5b :: h') ++ [0x5d] := by simp
              rw [this, List.getLast?_concat]
            rw [hinner, hlast, hlb']
            simp
          · simp only [hpl, if_false, Bool.false_eq_true] at e
            cases e
      · simp [hd] at e
  · intro hre
    rcases hre with ⟨hu, hlb, hd⟩ | ⟨hno, hu, hne, hc, hd⟩
    · rw [hu]; exact splitPort_bracket hlb hd
    · unfold splitPort
      rw [hu, splitLast_append (digits_no_colon hd)]
      simp only [hd, Bool.not_true, Bool.false_eq_true, if_false]
      have hbr : ¬ (2 ≤ h.length && h.head? == some 0x5b && h.getLast? == some 0x5d &&
          !hasLineBreak ((h.drop 1).take (h.length - 2))) = true := by
        intro hbr
        simp only [Bool.and_eq_true, decide_eq_true_eq, beq_iff_eq, Bool.not_eq_true'] at hbr
        obtain ⟨⟨⟨hlen, hh⟩, hl⟩, hlb⟩ := hbr
        have hshape := bracket_shape hlen hh hl
        apply hno
        refine ⟨(h.drop 1).take (h.length - 2), d, ?_, hlb, hd⟩
        rw [hu]
        conv => lhs; rw [hshape]
        simp
      have hlen : 1 ≤ h.length := by cases h <;> simp at hne ⊢
      have hpl : (decide (1 ≤ h.length) && !h.contains 0x3a) = true := by simp [hlen, hc]
      rw [if_neg hbr, if_pos hpl]

theorem splitPort_none_iff {u : Bytes} : splitPort u = none ↔ ¬ ∃ h d, RePort u h d := by
  constructor
  · intro e ⟨h, d, hre⟩
    rw [splitPort_iff.mpr hre] at e
    cases e
  · intro hno
    cases e : splitPort u with
    | none => rfl
    | some p => exact absurd ⟨p.1, p.2, splitPort_iff.mp e⟩ hno

end SockModel.Uri.Regex

import SockModel.Drive.Common
import SockModel.Model.Pool
import SockModel.Spec.C10
/-! Driver for C10: validates pool transcripts against `Model/Pool.lean` and
evaluates the property directly on the observations. -/
namespace SockModel.Drive.C10
open SockModel SockModel.Drive SockModel.Pool

structure St where
  n : Nat := 0
  r : Nat := 0
  pool : Pool := create 0 0
  map : List (Nat × Nat) := []      -- impl ordinal ↦ model id
  out : List Nat := []              -- impl ordinals outstanding (spec side)
  known : List Nat := []            -- impl ordinals ever seen (spec side)
  tags : List String := []

def lookupOrd (m : List (Nat × Nat)) (ord : Nat) : Option Nat := (m.find? (·.1 = ord)).map (·.2)
def lookupId (m : List (Nat × Nat)) (id : Nat) : Option Nat := (m.find? (·.2 = id)).map (·.1)

/-- the observer's book-keeping for `Spec.C10` (defined in `Spec/C10.lean`, proved there to accept every
trace of the model: `model_satisfies_spec`) -/
def St.spec (s : St) : SpecSt := { out := s.out, known := s.known }

partial def go (s : St) : List String → Verdict
  | [] => { tags := s.tags }
  | l :: rest =>
    match words l with
    | ["pool", n, r] =>
      match n.toNat?, r.toNat? with
      | some n, some r => go { s with n := n, r := r, pool := create n r } rest
      | _, _ => Verdict.corr s!"bad line {l}"
    | ["get"] =>
      match rest with
      | o :: rest' =>
        match obs? o with
        | some ["ok", ord, size, cap] =>
          match ord.toNat?, size.toNat?, cap.toNat? with
          | some ord, some size, some cap =>
            match Pool.specGetOk s.n s.r s.spec ord size cap with
            | some msg => Verdict.spec msg s.tags
            | none =>
              match get s.pool with
              | .outOfBuffers => Verdict.corr s!"model: out of buffers, impl: ok {ord}" s.tags
              | .ok b p' =>
                let tag := if s.pool.idle.isEmpty then "get.alloc" else "get.idle"
                match lookupId s.map b, lookupOrd s.map ord with
                | some o', _ =>
                  if o' ≠ ord then Verdict.corr s!"model hands out buffer seen as {o'}, impl {ord}" s.tags
                  else if size ≠ p'.len b then Verdict.corr s!"size {size} vs model {p'.len b}" s.tags
                  else if cap < p'.cap b then Verdict.corr s!"capacity {cap} below model {p'.cap b} (storage not intact)" s.tags
                  else go { s with pool := p', out := s.out ++ [ord], tags := tag :: s.tags } rest'
                | none, some _ => Verdict.corr s!"model allocates a new buffer, impl reuses {ord}" s.tags
                | none, none =>
                  if size ≠ p'.len b then Verdict.corr s!"size {size} vs model {p'.len b}" s.tags
                  else if cap < p'.cap b then Verdict.corr s!"capacity {cap} below model {p'.cap b}" s.tags
                  else go { s with pool := p', map := (ord, b) :: s.map, out := s.out ++ [ord],
                                   known := s.known ++ [ord], tags := tag :: s.tags } rest'
          | _, _, _ => Verdict.corr s!"bad observation {o}"
        | some ["throw"] =>
          match Pool.specGetThrow s.n s.spec with
          | some msg => Verdict.spec msg s.tags
          | none =>
            match get s.pool with
            | .outOfBuffers => go { s with tags := "get.throw" :: s.tags } rest'
            | .ok b _ => Verdict.corr s!"model: ok {b}, impl: throw" s.tags
        | some ("crash" :: w) => Verdict.spec ("crash in Get: " ++ " ".intercalate w) s.tags
        | _ => Verdict.corr s!"missing observation after get: {o}"
      | [] => Verdict.corr "missing observation after get"
    | ["fill", ord, n] =>
      match ord.toNat?, n.toNat? with
      | some ord, some n =>
        match lookupOrd s.map ord with
        | some b => go { s with pool := fill s.pool b n, tags := "fill" :: s.tags } rest
        | none => Verdict.corr s!"fill of unknown buffer {ord}"
      | _, _ => Verdict.corr s!"bad line {l}"
    | ["rel", ord] =>
      match ord.toNat? with
      | some ord =>
        match lookupOrd s.map ord with
        | some b =>
          match recycle s.pool b with
          | some p' => go { s with pool := p', out := s.out.erase ord, tags := "rel" :: s.tags } rest
          | none => Verdict.corr s!"model rejects release of {ord}"
        | none => Verdict.corr s!"release of unknown buffer {ord}"
      | none => Verdict.corr s!"bad line {l}"
    | "->" :: "crash" :: w => Verdict.spec ("crash: " ++ " ".intercalate w) s.tags
    | [] => go s rest
    | _ => Verdict.corr s!"unknown line {l}"

def runCase (body : List String) : Verdict := go {} body

/-! ### receive pools of buffered sockets (transcripts of harness scen/sockops.cpp) -/

structure RSt where
  n : Nat := 0
  size : Nat := 0
  rx : RxState := { pool := create 0 0, held := [] }
  map : List (Nat × Nat) := []     -- impl ordinal ↦ model id
  heldObs : List Nat := []         -- impl ordinals the harness holds (observation side)
  tags : List String := []

def findRx : List String → Option (Nat × Nat)
  | "rx" :: c :: z :: _ => do pure (← c.toNat?, ← z.toNat?)
  | _ :: t => findRx t
  | [] => none

partial def goRx (s : RSt) : List String → Verdict
  | [] => { tags := s.tags }
  | l :: rest =>
    let w := words l
    match w with
    | "tcp" :: _ | "udp" :: _ =>
      -- `... rx <count> <size>`
      match findRx w with
      | some (n, size) => goRx { s with n := n, size := size, rx := { pool := create n size, held := [] } } rest
      | none => Verdict.corr s!"no rx parameters in {l}"
    | ["toasync"] => goRx s rest
    | ["astep"] =>
      -- the driver's receive on the SAME pool (SocketTcpAsync built from the buffered socket): one task per step
      let obsLines := rest.takeWhile (fun x => (obs? x).isSome)
      let rest' := rest.dropWhile (fun x => (obs? x).isSome)
      let obs := obsLines.filterMap obs?
      match obs.find? (fun o => o.head? == some "crash" ∨ o.head? == some "hang") with
      | some o => Verdict.spec (" ".intercalate o) s.tags
      | none =>
      match obs.find? (fun o => o.head? == some "arx" ∨ o.head? == some "adisc") with
      | some ["arx", ord, size] =>
        match ord.toNat?, size.toNat? with
        | some ord, some size =>
          if s.heldObs.contains ord then Verdict.spec s!"driver receive handed out buffer {ord} that the user still holds" s.tags
          else if s.n > 0 ∧ s.heldObs.length ≥ s.n then Verdict.spec s!"driver receive succeeded with {s.heldObs.length} of N={s.n} buffers held" s.tags
          else if size = 0 ∨ size > s.size then Verdict.spec s!"receive handler got {size} bytes with rxBufSize {s.size}" s.tags
          else
            match rx s.rx.pool s.size (.value size) with
            | .value b q =>
              let consistent := match lookupId s.map b, lookupOrd s.map ord with
                | some o', _ => o' == ord
                | none, some _ => false
                | none, none => true
              if !consistent then Verdict.corr s!"model recycles a different buffer than the implementation ({ord})" s.tags
              else goRx { s with rx := { pool := q, held := s.rx.held ++ [b] },
                                 map := if (lookupId s.map b).isSome then s.map else (ord, b) :: s.map,
                                 heldObs := s.heldObs ++ [ord], tags := "arx.value" :: s.tags } rest'
            | _ => Verdict.corr s!"model: out of buffers, implementation: driver received into buffer {ord}" s.tags
        | _, _ => Verdict.corr "bad arx"
      | some ["adisc", "outofbuffers"] =>
        if s.n = 0 then Verdict.spec "socket with unlimited receive buffers was disconnected for lack of a buffer" s.tags
        else if s.heldObs.length < s.n then
          Verdict.spec s!"driver receive refused ('out of buffers', socket disconnected) while the user holds only {s.heldObs.length} of N={s.n}: a buffer was not returned on some path" s.tags
        else match rx s.rx.pool s.size .exn with
          | .outOfBuffers => goRx { s with tags := "arx.full" :: s.tags } rest'
          | _ => Verdict.corr "model has a buffer, the driver's receive is out of buffers" s.tags
      | some ("adisc" :: _) =>
        match rx s.rx.pool s.size .exn with
        | .exn q => goRx { s with rx := { s.rx with pool := q }, tags := "arx.exn" :: s.tags } rest'
        | _ => if s.n > 0 ∧ s.heldObs.length ≥ s.n then goRx { s with tags := "arx.exn" :: s.tags } rest'
               else Verdict.corr "model: out of buffers, implementation: receive failed otherwise" s.tags
      | _ => goRx { s with tags := "arx.idle" :: s.tags } rest'
    | [op, _T] =>
      if op == "recvhold" ∨ op == "recvfromhold" then
        -- collect observations up to the result
        let obsLines := rest.takeWhile (fun x => (obs? x).isSome)
        let rest' := rest.dropWhile (fun x => (obs? x).isSome)
        let obs := obsLines.filterMap obs?
        match obs.find? (fun o => o.head? == some "crash" ∨ o.head? == some "hang") with
        | some o => Verdict.spec (" ".intercalate o) s.tags
        | none =>
        match obs.find? (fun o => o.head? == some "ret" ∨ o.head? == some "throw") with
        | some ["ret", "held", ord, size] =>
          match ord.toNat?, size.toNat? with
          | some ord, some size =>
            if s.heldObs.contains ord then Verdict.spec s!"receive handed out buffer {ord} that the user still holds" s.tags
            else if s.n > 0 ∧ s.heldObs.length ≥ s.n then Verdict.spec s!"receive succeeded with {s.heldObs.length} of N={s.n} buffers held" s.tags
            else
              match rx s.rx.pool s.size (.value size) with
              | .value b q =>
                let consistent := match lookupId s.map b, lookupOrd s.map ord with
                  | some o', _ => o' == ord
                  | none, some _ => false
                  | none, none => true
                if !consistent then Verdict.corr s!"model recycles a different buffer than the implementation ({ord})" s.tags
                else goRx { s with rx := { pool := q, held := s.rx.held ++ [b] },
                                   map := if (lookupId s.map b).isSome then s.map else (ord, b) :: s.map,
                                   heldObs := s.heldObs ++ [ord], tags := "rx.value" :: s.tags } rest'
              | _ => Verdict.corr s!"model: out of buffers, implementation: received into buffer {ord}" s.tags
          | _, _ => Verdict.corr "bad ret held"
        | some ["ret", "none"] =>
          -- UDP: the wait comes before the buffer is taken (SocketBufferedImpl::ReceiveFrom(timeout))
          if op == "recvfromhold" then goRx { s with tags := "rx.nothing" :: s.tags } rest'
          else if s.n > 0 ∧ s.heldObs.length ≥ s.n then Verdict.corr "model: out of buffers, implementation: timeout" s.tags
          else match rx s.rx.pool s.size .nothing with
            | .nothing q => goRx { s with rx := { s.rx with pool := q }, tags := "rx.nothing" :: s.tags } rest'
            | _ => Verdict.corr "model disagrees on timeout" s.tags
        | some ("throw" :: kind) =>
          if kind == ["outofbuffers"] then
            if s.n = 0 then Verdict.spec "socket with unlimited receive buffers refused to receive" s.tags
            else if s.heldObs.length < s.n then
              Verdict.spec s!"receive refused ('out of buffers') while the user holds only {s.heldObs.length} of N={s.n}: a buffer was not returned on some path" s.tags
            else match rx s.rx.pool s.size .exn with
              | .outOfBuffers => goRx { s with tags := "rx.full" :: s.tags } rest'
              | _ => Verdict.corr "model has a buffer, implementation is out of buffers" s.tags
          else if op == "recvfromhold" ∧ !(obs.any fun o => o.take 2 == ["sys", "recv"]) then
            -- UDP: the wait failed before any buffer was taken
            goRx { s with tags := "rx.exn" :: s.tags } rest'
          else
            match rx s.rx.pool s.size .exn with
            | .exn q => goRx { s with rx := { s.rx with pool := q }, tags := "rx.exn" :: s.tags } rest'
            | _ => Verdict.corr "model: out of buffers, implementation: receive failed otherwise" s.tags
        | _ => Verdict.corr s!"missing result after {l}" s.tags
      else if op == "dropbuf" then
        match rest with
        | o :: rest' =>
          match obs? o with
          | some ["dropped", ord] =>
            match ord.toNat? with
            | some ord =>
              match lookupOrd s.map ord with
              | some b =>
                let rx' := rxStep s.size s.rx (.drop b)
                goRx { s with rx := rx', heldObs := s.heldObs.erase ord, tags := "rx.drop" :: s.tags } rest'
              | none => Verdict.corr s!"dropped unknown buffer {ord}" s.tags
            | none => Verdict.corr "bad dropped"
          | _ => goRx s rest     -- nothing was held
        | [] => goRx s rest
      else goRx s rest
    | "->" :: "crash" :: x => Verdict.spec ("crash: " ++ " ".intercalate x) s.tags
    | _ => goRx s rest

def runCaseRx (body : List String) : Verdict := goRx {} body

end SockModel.Drive.C10

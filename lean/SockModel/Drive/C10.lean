import SockModel.Drive.Common
import SockModel.Model.Pool
/-! Driver for C10: validates pool transcripts against `Model/Pool.lean` and
evaluates the property directly on the observations. -/
namespace SockModel.Drive.C10
open SockModel SockModel.Drive SockModel.Pool

structure St where
  n : Nat := 0
  r : Nat := 0
  pool : Pool := create 0 0
  map : List (Nat × Nat) := []      -- impl ordinal ↦ model id
  out : List Nat := []              -- impl ordinals outstanding (spec side)
  known : List Nat := []            -- impl ordinals ever seen (spec side)
  tags : List String := []

def lookupOrd (m : List (Nat × Nat)) (ord : Nat) : Option Nat := (m.find? (·.1 = ord)).map (·.2)
def lookupId (m : List (Nat × Nat)) (id : Nat) : Option Nat := (m.find? (·.2 = id)).map (·.1)

/-- the property itself, on observations only: what a `get -> ok ord size cap` must satisfy -/
def specGetOk (s : St) (ord size cap : Nat) : Option String :=
  if s.out.contains ord then some s!"buffer {ord} handed out while still outstanding"
  else if size ≠ 0 then some s!"buffer {ord} not empty (size {size})"
  else if s.n > 0 ∧ s.out.length + 1 > s.n then some s!"more than N={s.n} buffers outstanding"
  else if s.n > 0 ∧ cap < s.r then some s!"pre-allocated buffer {ord} lacks reserved capacity ({cap} < {s.r})"
  else if ¬ s.known.contains ord ∧ (s.known.any fun k => ¬ s.out.contains k) then
    some s!"new buffer {ord} created while an idle one exists"
  else if s.n > 0 ∧ ¬ s.known.contains ord ∧ s.known.length ≥ s.n then
    some s!"pre-allocated pool allocated buffer {ord} after construction"
  else none

def specGetThrow (s : St) : Option String :=
  if s.n = 0 then some "unlimited pool refused a Get"
  else if s.out.length < s.n then some s!"Get refused with only {s.out.length} of N={s.n} outstanding"
  else none

partial def go (s : St) : List String → Verdict
  | [] => { tags := s.tags }
  | l :: rest =>
    match words l with
    | ["pool", n, r] =>
      match n.toNat?, r.toNat? with
      | some n, some r => go { s with n := n, r := r, pool := create n r } rest
      | _, _ => Verdict.corr s!"bad line {l}"
    | ["get"] =>
      match rest with
      | o :: rest' =>
        match obs? o with
        | some ["ok", ord, size, cap] =>
          match ord.toNat?, size.toNat?, cap.toNat? with
          | some ord, some size, some cap =>
            match specGetOk s ord size cap with
            | some msg => Verdict.spec msg s.tags
            | none =>
              match get s.pool with
              | .outOfBuffers => Verdict.corr s!"model: out of buffers, impl: ok {ord}" s.tags
              | .ok b p' =>
                let tag := if s.pool.idle.isEmpty then "get.alloc" else "get.idle"
                match lookupId s.map b, lookupOrd s.map ord with
                | some o', _ =>
                  if o' ≠ ord then Verdict.corr s!"model hands out buffer seen as {o'}, impl {ord}" s.tags
                  else if size ≠ p'.len b then Verdict.corr s!"size {size} vs model {p'.len b}" s.tags
                  else if cap < p'.cap b then Verdict.corr s!"capacity {cap} below model {p'.cap b} (storage not intact)" s.tags
                  else go { s with pool := p', out := s.out ++ [ord], tags := tag :: s.tags } rest'
                | none, some _ => Verdict.corr s!"model allocates a new buffer, impl reuses {ord}" s.tags
                | none, none =>
                  if size ≠ p'.len b then Verdict.corr s!"size {size} vs model {p'.len b}" s.tags
                  else if cap < p'.cap b then Verdict.corr s!"capacity {cap} below model {p'.cap b}" s.tags
                  else go { s with pool := p', map := (ord, b) :: s.map, out := s.out ++ [ord],
                                   known := s.known ++ [ord], tags := tag :: s.tags } rest'
          | _, _, _ => Verdict.corr s!"bad observation {o}"
        | some ["throw"] =>
          match specGetThrow s with
          | some msg => Verdict.spec msg s.tags
          | none =>
            match get s.pool with
            | .outOfBuffers => go { s with tags := "get.throw" :: s.tags } rest'
            | .ok b _ => Verdict.corr s!"model: ok {b}, impl: throw" s.tags
        | some ("crash" :: w) => Verdict.spec ("crash in Get: " ++ " ".intercalate w) s.tags
        | _ => Verdict.corr s!"missing observation after get: {o}"
      | [] => Verdict.corr "missing observation after get"
    | ["fill", ord, n] =>
      match ord.toNat?, n.toNat? with
      | some ord, some n =>
        match lookupOrd s.map ord with
        | some b => go { s with pool := fill s.pool b n, tags := "fill" :: s.tags } rest
        | none => Verdict.corr s!"fill of unknown buffer {ord}"
      | _, _ => Verdict.corr s!"bad line {l}"
    | ["rel", ord] =>
      match ord.toNat? with
      | some ord =>
        match lookupOrd s.map ord with
        | some b =>
          match recycle s.pool b with
          | some p' => go { s with pool := p', out := s.out.erase ord, tags := "rel" :: s.tags } rest
          | none => Verdict.corr s!"model rejects release of {ord}"
        | none => Verdict.corr s!"release of unknown buffer {ord}"
      | none => Verdict.corr s!"bad line {l}"
    | "->" :: "crash" :: w => Verdict.spec ("crash: " ++ " ".intercalate w) s.tags
    | [] => go s rest
    | _ => Verdict.corr s!"unknown line {l}"

def runCase (body : List String) : Verdict := go {} body

end SockModel.Drive.C10

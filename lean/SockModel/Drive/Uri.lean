import SockModel.Drive.Common
import SockModel.Model.Uri
import SockModel.Model.Addr
import SockModel.Spec.Uri
/-! Driver for C11 and C12: validates `scen/address_parse.cpp` transcripts against `Model/Uri.lean`.

* correspondence (both properties): outcome class and the `(node, service, flags)` handed to
  `getaddrinfo` equal the model's `parseUri` / `parseHostServ`; the pre-fix regex dissection
  (differential oracle, inputs ≤ 2000 bytes) equals the model's `dissectRaw`.
* the properties themselves are NOT here: every op line with its observation lines is parsed into one
  typed `Uri.Obs` (`toOutcome`, `toGai`, `litBegin`, `litEnd`, `abort`) and handed to `Uri.specStep`
  (`Spec/Uri.lean`; mode `.totality` = C11, `.fidelity` = C12).  A line that cannot be typed (bad hex,
  bad numeral, unknown line) is a `corr` verdict of the driver.
-/
namespace SockModel.Drive.Uri
open SockModel SockModel.Drive SockModel.Uri

def kv (ws : List String) (k : String) : Option String :=
  ws.findSome? fun w => match w.splitOn "=" with
    | [k', v] => if k' = k then some v else none
    | _ => none

def repeatUnit (unit : Bytes) (n : Nat) : Bytes := Id.run do
  let r := unit.reverse
  let mut acc : Bytes := []
  for _ in [0:n] do
    acc := r ++ acc
  return acc.reverse

/-- the observation lines of one construction as words (correspondence, tags) -/
structure RawObs where
  gai : Option (String × String × Nat) := none     -- node enc, serv enc, flags
  legacy : Option (Option (String × String × Bool)) := none
  outcome : List String := []

structure St where
  mode : Mode
  spec : SpecSt := {}
  tags : List String := []
  corr : Option String := none

def St.note (s : St) (msg : String) : St := if s.corr.isSome then s else { s with corr := some msg }

def AI_NUMERICSERV : Nat := 1024

def toExnClass : String → ExnClass
  | "invalid_argument" => .invalidArgument
  | "out_of_range" => .outOfRange
  | "logic_error" => .logicError
  | "system_error" => .systemError
  | "runtime_error" => .runtimeError
  | "other" => .other
  | t => .foreign t

def toReparse : String → Reparse
  | "eq" => .eq
  | "ne" => .ne
  | "throw" => .threw
  | t => .other t

/-- the outcome line as a typed `Outcome` -/
def toOutcome : List String → Outcome
  | "ok" :: rest =>
    match (kv rest "host") >>= hexDecode, (kv rest "serv") >>= hexDecode, (kv rest "port") >>= String.toNat?,
          kv rest "v6", (kv rest "str") >>= hexDecode, kv rest "reparse" with
    | some host, some serv, some port, some v6, some str, some re =>
      .ok (some { host, serv, port, v6 := v6 == "1", str, reparse := toReparse re })
    | _, _, _, _, _, _ => .ok none
  | ["throw", cls] => .threw (toExnClass cls)
  | "accessorthrow" :: w => .accessorThrow (" ".intercalate w)
  | "died" :: w => .died (" ".intercalate w)
  | "crash" :: w => .crash (" ".intercalate w)
  | "hang" :: w => .hang (" ".intercalate w)
  | [] => .missing
  | w => .other (" ".intercalate w)

def toGai : Option (String × String × Nat) → Option GaiObs
  | none => none
  | some (n, sv, fl) => some { node := hexDecode n, serv := hexDecode sv, numericServ := fl / AI_NUMERICSERV % 2 == 1 }


/-- correspondence with the model -/
def corrCheck (inp : Input) (o : RawObs) : Option String :=
  let expectGai (c : GaiCall) : Option String :=
    match o.gai with
    | none => some s!"{describe inp}: model reaches getaddrinfo({enc c.node}, {enc c.serv}), impl did not ({" ".intercalate o.outcome})"
    | some (n, sv, fl) =>
      if n ≠ enc c.node ∨ sv ≠ enc c.serv then
        some s!"{describe inp}: getaddrinfo arguments: impl ({n}, {sv}), model ({enc c.node}, {enc c.serv})"
      else if (fl / AI_NUMERICSERV % 2 == 1) ≠ c.numericServ then
        some s!"{describe inp}: AI_NUMERICSERV: impl flags {fl}, model {c.numericServ}"
      else match o.outcome with
        | "ok" :: _ => none
        | ["throw", "system_error"] => none
        | w => some s!"{describe inp}: after getaddrinfo the impl reports {" ".intercalate w}"
  let expectExn (e : Exn) : Option String :=
    if o.gai.isSome then some s!"{describe inp}: model throws {e.name}, impl reached getaddrinfo"
    else if o.outcome ≠ ["throw", e.name] then
      some s!"{describe inp}: model throws {e.name}, impl: {" ".intercalate o.outcome}"
    else none
  match inp with
  | .big _ => none
  | .uri b =>
    let r := match parseUri b with
      | .ok c => expectGai c
      | .error e => expectExn e
    match r with
    | some m => some m
    | none =>
      match o.legacy with
      | none => none
      | some leg =>
        match leg, dissectRaw b with
        | none, none => none
        | some (h, sv, num), some d =>
          if h = enc d.host ∧ sv = enc d.serv ∧ num = d.numeric then none
          else some s!"{describe inp}: pre-fix regex dissection ({h}, {sv}, {num}) differs from the model ({enc d.host}, {enc d.serv}, {d.numeric})"
        | none, some d => some s!"{describe inp}: pre-fix regex does not match, model dissects ({enc d.host}, {enc d.serv})"
        | some (h, sv, _), none => some s!"{describe inp}: pre-fix regex dissects ({h}, {sv}), model rejects"
  | .pair h sv =>
    match parseHostServ h sv with
    | .ok c => expectGai c
    | .error e => expectExn e

def inputTags (inp : Input) : List String :=
  let bytes := match inp with | .uri b => b | .pair h sv => h ++ sv | .big _ => []
  (match inp with | .uri _ => ["uri"] | .pair _ _ => ["pair"] | .big _ => ["big"]) ++
  (if bytes.contains 0 then ["nul"] else []) ++ (if bytes.any (· ≥ 0x80) then ["hi"] else []) ++
  (if bytes.any isLineBreak then ["linebreak"] else []) ++ (if bytes.length > 2000 then ["long"] else [])

def obsTags (o : RawObs) : List String :=
  (match o.outcome with
   | "ok" :: _ => ["ok"]
   | ["throw", c] => [s!"throw.{c}"]
   | _ => []) ++
  (match o.gai with
   | some (_, _, fl) => if fl / AI_NUMERICSERV % 2 == 1 then ["gai.numericserv"] else ["gai"]
   | none => []) ++
  (match o.legacy with
   | some none => ["legacy.nomatch"]
   | some (some _) => ["legacy.match"]
   | none => [])

/-- read the observation lines that follow an op -/
def takeObs : List String → RawObs → Except String (RawObs × List String)
  | [], o => pure (o, [])
  | l :: rest, o =>
    match obs? l with
    | none => pure (o, l :: rest)
    | some ("gai" :: w) =>
      match kv w "node", kv w "serv", (kv w "flags") >>= String.toNat? with
      | some n, some sv, some fl => takeObs rest { o with gai := some (n, sv, fl) }
      | _, _, _ => throw s!"bad gai observation {l}"
    | some ["legacy", "nomatch"] => takeObs rest { o with legacy := some none }
    | some ["legacy", h, sv, num] => takeObs rest { o with legacy := some (some (h, sv, num == "1")) }
    | some ("litbegin" :: _) => pure (o, l :: rest)
    | some ("litend" :: _) => pure (o, l :: rest)
    | some w => takeObs rest { o with outcome := w }

def finish (s : St) (inp : Input) (o : RawObs) (kind : String) : Except (String × String) St := do
  match specStep s.mode s.spec (.construct inp (toGai o.gai) (toOutcome o.outcome)) with
  | .error m => throw ("spec", m)
  | .ok _ => pure ()
  let s := match corrCheck inp o with
    | some m => s.note m
    | none => s
  pure { s with tags := kind :: (inputTags inp ++ obsTags o ++ s.tags) }

partial def go (s : St) : List String → Verdict
  | [] =>
    match s.corr with
    | some m => Verdict.corr m s.tags
    | none => { tags := s.tags }
  | l :: rest =>
    let w := words l
    let fail (k m : String) : Verdict := { fail := some (k, m), tags := s.tags }
    let spec (o : Uri.Obs) : Verdict :=
      match specStep s.mode s.spec o with
      | .error m => fail "spec" m
      | .ok sp => go { s with spec := sp } rest
    let construct (inp : Input) (kind : String) : Verdict :=
      match takeObs rest {} with
      | .error m => fail "corr" m
      | .ok (o, rest') =>
        match finish s inp o kind with
        | .error (k, m) => fail k m
        | .ok s' => go s' rest'
    match w with
    | [] => go s rest
    | ["uri", h] =>
      match hexDecode h with
      | some b => construct (.uri b) "op.uri"
      | none => fail "corr" s!"bad line {l}"
    | ["pair", h, sv] =>
      match hexDecode h, hexDecode sv with
      | some h, some sv => construct (.pair h sv) "op.pair"
      | _, _ => fail "corr" s!"bad line {l}"
    | ["ladder", pre, unit, n, suf] =>
      match hexDecode pre, hexDecode unit, n.toNat?, hexDecode suf with
      | some pre, some unit, some n, some suf =>
        if pre.length + unit.length * n + suf.length ≤ 2000000 then
          construct (.uri (pre ++ repeatUnit unit n ++ suf)) "op.ladder"
        else construct (.big l) "op.ladder"
      | _, _, _, _ => fail "corr" s!"bad line {l}"
    | ["ladderpair", which, pre, unit, n, suf] =>
      match hexDecode pre, hexDecode unit, n.toNat?, hexDecode suf with
      | some pre, some unit, some n, some suf =>
        if pre.length + unit.length * n + suf.length ≤ 2000000 then
          let t := pre ++ repeatUnit unit n ++ suf
          construct (if which = "host" then .pair t [0x38, 0x30] else .pair (ofChars "localhost".toList) t) "op.ladder"
        else construct (.big l) "op.ladder"
      | _, _, _, _ => fail "corr" s!"bad line {l}"
    | "lit" :: _ => go { s with tags := "op.lit" :: s.tags } rest
    | "name" :: _ => go { s with tags := "op.name" :: s.tags } rest
    | "->" :: "litbegin" :: kvs =>
      match (kv kvs "host") >>= hexDecode, (kv kvs "port") >>= String.toNat?, kv kvs "v6" with
      | some h, some p, some v6 => spec (.litBegin h p (v6 == "1"))
      | _, _, _ => fail "corr" s!"bad line {l}"
    | "->" :: "litend" :: kvs =>
      spec (.litEnd (kv kvs "allok" == some "1") (kv kvs "alleq" == some "1") (" ".intercalate kvs))
    | "->" :: "crash" :: x => spec (.abort ("crash: " ++ " ".intercalate x))
    | "->" :: "hang" :: x => spec (.abort ("hang: " ++ " ".intercalate x))
    | _ => fail "corr" s!"unknown line {l}"

def runCase11 (body : List String) : Verdict := go { mode := .totality } body
def runCase12 (body : List String) : Verdict := go { mode := .fidelity } body

end SockModel.Drive.Uri

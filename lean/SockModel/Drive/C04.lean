import SockModel.Drive.Common
import SockModel.Spec.C04
/-! Driver for C04 / C05 / C08: validates scheduler traces of the real library (lock, poll and
pipe events at the libc boundary plus API / handler markers).

Every `ev T<k> ...` / `outcome ...` / `crash ...` line is parsed into ONE typed observation
`Locks.Spec.Obs` (`Spec/C04.lean`).  Then
* spec: `Locks.Spec.specStep` - the property predicate of `Spec/C04.lean` (the monitors `stepA` = C04,
  `stepB` = C05, `stepC` = C08, switched by the mode), on the observations only; this file contains no
  property clause of its own (one source of truth; `Locks.Spec.model_satisfies_spec` proves that the
  predicate accepts every trace of the model);
* correspondence: the event must be a transition (or a short sequence of transitions) of the `Locks`
  LTS from the current model state (`applyAll`, proved sound: `applyAll_reach`), and the owner of stepMtx
  according to the lock events alone must equal the model's after every event. -/
namespace SockModel.Drive.C04
open SockModel SockModel.Drive SockModel.Locks
open SockModel.Locks.Spec (Obs Ev Kind Act Mode SpecSt specStep)

structure VSt where
  m : St := {}
  depth : Nat := 0                  -- extra recursive acquisitions of stepMtx by its owner
  drvStopping : Bool := false       -- the driver thread is inside a Stop() issued from a task
  sp : SpecSt := {}                 -- the observer's book-keeping of `Spec/C04.lean` (observations only)
  tags : List String := []

def tidOf (s : String) : Option Nat := if s.startsWith "T" then (s.drop 1).toString.toNat? else none

def fire (v : VSt) (ls : List L) (what : String) : Except String VSt :=
  match applyAll v.m ls with
  | some m' => .ok { v with m := m' }
  | none => .error s!"event '{what}' is not a step of the Locks transition system from the current model state"

def parseAct : String → Act
  | "close" => .close
  | "cancel" => .cancel
  | "shift" => .shift
  | "todo" => .todo
  | "udp" => .attach
  | "tcp" => .attach
  | _ => .other

/-- the words of one `ev T<k> ...` line as a typed event of `Spec/C04.lean` -/
def toEv : List String → Ev
  | ["lock", "step"] => .lockStep
  | ["trylock", "step", "ok"] => .tryStepOk
  | ["unlock", "step"] => .unlockStep
  | ["sendto", "pipefrom"] => .bump
  | ["mark", "run-enter"] => .runEnter
  | ["mark", "run-exit"] => .runExit
  | ["mark", "handler", name, "enter"] => .enter .handler name
  | ["mark", "task", name, "enter"] => .enter .task name
  | ["mark", "handler", _, "exit"] => .exit
  | ["mark", "task", _, "exit"] => .exit
  | ["mark", "end", _, "stop"] => .endStop
  | ["mark", "end", _, "stop-in-task"] => .endStop
  | ["mark", "end", _, "stop-signal"] => .endStop
  | ["mark", "end", name, a] => .endAct name (parseAct a)
  | ["mark", "begin", _, "stop"] => .beginStop true
  | ["mark", "begin", _, "stop-in-task"] => .beginStop false
  | ["mark", "begin", _, "stop-signal"] => .beginStop false
  | _ => .other

/-- branch tags of an accepted event (evidence only) -/
def tagsOf (t : Nat) : Ev → List String
  | .enter k _ => [k.str]
  | .endAct _ .close => if t ≠ 0 then ["close"] else []
  | .endAct _ .cancel => if t ≠ 0 then ["cancel"] else []
  | .endAct _ .shift => ["shift"]
  | .endStop => ["stop"]
  | .runExit => ["run-exit"]
  | _ => []

/-- map one scheduler event to transitions of the model -/
def model (v : VSt) (t : Nat) (w : List String) (what : String) : Except String VSt := do
  let isDrv := t = 0
  match w with
  | ["mark", "run-enter"] =>
    -- Run() tests the flag in the same uninterrupted segment as this marker
    if v.m.stop then fire v [.dRunEnter] what else fire v [.dRunEnter, .dRunGo] what
  | ["mark", "step-enter"] => fire v [.dStepEnter] what
  | ["mark", "run-exit"] => fire v [.dRunExit] what
  | ["mark", "step-exit"] => if v.m.d = .idle then pure v else throw "Step returned in the middle of the model's step"
  | ["mark", "begin", _, "stop"] =>
    -- the flag store of Stop() happens in the same uninterrupted segment as this marker
    if isDrv then pure { v with drvStopping := true }
    else fire v [.uStopSet t] what
  | ["mark", "begin", _, "stop-in-task"] => pure { v with drvStopping := true }
  | ["mark", "begin", _, "stop-signal"] => pure { v with drvStopping := true }
  | ["lock", "step"] =>
    if isDrv then fire v [.dLockStep] what else fire v [.uLockStep t] what
  | ["trylock", "step", "ok"] =>
    if isDrv then
      if v.m.step = .drv then pure { v with depth := v.depth + 1 } else throw "driver thread try-locked stepMtx outside a step"
    else if v.m.step = .usr t then pure { v with depth := v.depth + 1 }
    else fire v [.uTryOk t] what
  | ["trylock", "step", "fail"] => if isDrv then throw "driver thread failed to try-lock stepMtx" else fire v [.uTryFail t] what
  | ["unlock", "step"] =>
    if v.depth > 0 then pure { v with depth := v.depth - 1 }
    else if isDrv then fire v [.dUnlockStep] what else fire v [.uUnlock t] what
  | ["lock", "pause"] => if isDrv then fire v [.dLockPause] what else fire v [.uLockPause t] what
  | ["unlock", "pause"] =>
    if isDrv then
      -- leaving ~StepGuard, Step() returns and Run() tests the flag before the next sync point
      if DPc.run? v.m.d ∧ !v.m.stop then fire v [.dUnlockPause, .dRunGo] what else fire v [.dUnlockPause] what
    else fire v [.uRelPause t] what
  | "poll" :: rest =>
    if rest.any (·.startsWith "pipe:") then
      -- the driver's wait in StepSockets
      let after := rest.dropWhile (· ≠ "->")
      let pipeReady := after.contains "pipe"
      if !isDrv then throw "a non-driver thread polled the signalling pipe"
      -- a poll interrupted by a signal (EINTR) is re-issued by the wait: the driver stays at `atPoll`
      let enter : List L := match v.m.d with | .atPoll _ => [] | _ => [.dToPoll]
      if after.contains "eintr" then fire v enter what
      else if pipeReady then fire v (enter ++ [.dPollPipe]) what else fire v (enter ++ [.dPollOther]) what
    else if rest.any (·.startsWith "pipefrom:") then
      -- Bump(): the flag store of Stop() precedes it
      pure v
    else pure v
  | ["sendto", "pipefrom"] =>
    if isDrv then
      if v.drvStopping then (do let v' ← fire v [.dStop] what; pure { v' with drvStopping := false })
      else throw "driver thread sent a wake-up datagram outside Stop()"
    else if v.m.u t = .stopBump then fire v [.uStopBump t] what
    else fire v [.uBump t] what
  | _ => pure v

/-- `spec`: `specStep` of `Spec/C04.lean` on the typed observation (no property clause lives here);
`corr`: the same event must be a step of the Locks LTS with the same owner of stepMtx afterwards -/
def go (md : Mode) (v : VSt) : List String → Verdict
  | [] => { tags := v.tags }
  | l :: rest =>
    match obs? l with
    | none => go md v rest
    | some ("ev" :: tid :: w) =>
      match tidOf tid with
      | none => Verdict.corr s!"bad event {l}" v.tags
      | some t =>
        let what := " ".intercalate (tid :: w)
        let e := toEv w
        match specStep md v.sp (.ev t e) with
        | .error msg => Verdict.spec msg v.tags
        | .ok sp =>
          let v1 := { v with sp := sp, tags := tagsOf t e ++ v.tags }
          match model v1 t w what with
          | .error msg => Verdict.corr msg v1.tags
          | .ok v2 =>
            -- the shim's view of who owns stepMtx must equal the model's after every event
            let modelOwner : Option Nat := match v2.m.step with | .none => none | .drv => some 0 | .usr u => some u
            if modelOwner ≠ v2.sp.a.owner then
              Verdict.corr s!"after '{what}': stepMtx owner differs (model {repr modelOwner}, observed {repr v2.sp.a.owner})" v2.tags
            else
              let tag := match w with
                | ["trylock", "step", "fail"] => ["contended"]
                | ["trylock", "step", "ok"] => ["uncontended"]
                | "poll" :: _ => if t = 0 then ["dpoll"] else []
                | _ => []
              go md { v2 with tags := tag ++ v2.tags } rest
    | some ("outcome" :: "done" :: _) => outcome md v .done rest
    | some ("outcome" :: "deadlock" :: x) => outcome md v (.deadlock (" ".intercalate x)) rest
    | some ("outcome" :: "stuck" :: x) => outcome md v (.stuck (" ".intercalate x)) rest
    | some ("crash" :: x) => outcome md v (.crash (" ".intercalate x)) rest
    | some _ => go md v rest
where
  outcome (md : Mode) (v : VSt) (o : Obs) (rest : List String) : Verdict :=
    match specStep md v.sp o with
    | .error msg => Verdict.spec msg v.tags
    | .ok sp => go md { v with sp := sp } rest

def dedupTags (v : Verdict) : Verdict := { v with tags := dedup v.tags }

def runCaseC04 (body : List String) : Verdict := dedupTags (go ⟨true, false, false⟩ {} body)
def runCaseC05 (body : List String) : Verdict := dedupTags (go ⟨false, true, false⟩ {} body)
def runCaseC08 (body : List String) : Verdict := dedupTags (go ⟨false, false, true⟩ {} body)

end SockModel.Drive.C04

import SockModel.Drive.Common
import SockModel.Model.LocksExec
/-! Driver for C04 / C05 / C08: validates scheduler traces of the real library (lock, poll and
pipe events at the libc boundary plus API / handler markers) against the `Locks` transition system,
and evaluates the properties directly on the trace. -/
namespace SockModel.Drive.C04
open SockModel SockModel.Drive SockModel.Locks

structure VSt where
  m : St := {}
  depth : Nat := 0                  -- extra recursive acquisitions of stepMtx by its owner
  stopping : List Nat := []         -- user threads between `begin stop` and their datagram
  drvStopping : Bool := false       -- the driver thread is inside a Stop() issued from a task
  -- observation-only state for the direct property checks
  stepOwner : Option Nat := none    -- who holds stepMtx according to the lock events alone
  stepCount : Nat := 0
  inHandler : Option String := none
  closed : List String := []        -- sockets whose destructor returned on a non-driver thread
  cancelled : List String := []     -- ToDos whose Cancel returned on a non-driver thread
  bumped : List (Nat × Nat) := []   -- (user, driver step-begins since its wake-up datagram)
  stopDone : Bool := false          -- some Stop() has returned
  stepsSinceStop : Nat := 0
  stopBegun : Bool := false
  pendingStops : List Nat := []     -- threads whose Stop() stored the flag and no Run has returned since
  runExited : Bool := false
  inRun : Bool := false
  names : List (Nat × String) := []
  tags : List String := []

def tidOf (s : String) : Option Nat := if s.startsWith "T" then (s.drop 1).toString.toNat? else none

def fire (v : VSt) (ls : List L) (what : String) : Except String VSt :=
  match applyAll v.m ls with
  | some m' => .ok { v with m := m' }
  | none => .error s!"event '{what}' is not a step of the Locks transition system from the current model state"

/-- C04/C05/C08 on the observations alone; returns an error message or the updated state -/
def spec (c04 c05 c08 : Bool) (v : VSt) (t : Nat) (w : List String) : Except String VSt := do
  let mut v := v
  match w with
  | ["lock", "step"] | ["trylock", "step", "ok"] =>
    match v.stepOwner with
    | some o =>
      if o ≠ t then
        if c04 then throw s!"thread T{t} acquired stepMtx while T{o} holds it" else pure ()
      v := { v with stepCount := v.stepCount + 1 }
    | none => v := { v with stepOwner := some t, stepCount := 1 }
    if t = 0 ∧ w == ["lock", "step"] then
      -- the driver begins a step
      v := { v with bumped := v.bumped.map (fun (u, n) => (u, n + 1)),
                    stepsSinceStop := if v.stopDone ∧ v.inRun then v.stepsSinceStop + 1 else v.stepsSinceStop }
      if c05 then
        match v.bumped.find? (fun (_, n) => n > 1) with
        | some (u, n) => throw s!"driver began {n} steps while T{u} waits for stepMtx after its wake-up datagram"
        | none => pure ()
      if c08 ∧ v.stepsSinceStop > 1 then
        throw s!"Run began {v.stepsSinceStop} further steps after a Stop() had returned"
    if t ≠ 0 then v := { v with bumped := v.bumped.filter (fun (u, _) => u ≠ t) }
  | ["unlock", "step"] =>
    if v.stepOwner == some t then
      v := if v.stepCount ≤ 1 then { v with stepOwner := none, stepCount := 0 } else { v with stepCount := v.stepCount - 1 }
  | ["sendto", "pipefrom"] =>
    if t ≠ 0 ∧ !(v.stopping.contains t) then v := { v with bumped := v.bumped ++ [(t, 0)] }
  | "mark" :: kind :: name :: rest =>
    if kind == "handler" ∨ kind == "task" then
      if rest == ["enter"] then
        if c04 then
          if t ≠ 0 then throw s!"{kind} of {name} ran on thread T{t}, not on the thread executing Step/Run"
          if v.stepOwner ≠ some 0 then throw s!"{kind} of {name} invoked while the driver thread does not hold stepMtx"
          match v.inHandler with
          | some other => throw s!"{kind} of {name} started while {other} is still running"
          | none => pure ()
          if kind == "handler" ∧ v.closed.contains name then
            throw s!"handler of socket {name} started after its destructor had returned on another thread"
          if kind == "task" ∧ v.cancelled.contains name then
            throw s!"task of {name} started after Cancel() had returned on another thread"
        v := { v with inHandler := some s!"{kind} {name}", tags := kind :: v.tags }
      else if rest == ["exit"] then v := { v with inHandler := none }
    else if kind == "end" then
      -- `mark end <user> <action>`
      match rest with
      | ["close"] =>
        if t ≠ 0 then
          if c04 ∧ v.inHandler == some s!"handler {name}" then
            throw s!"destructor of socket {name} returned on another thread while its handler is still running"
          v := { v with closed := name :: v.closed, tags := "close" :: v.tags }
      | ["cancel"] =>
        if t ≠ 0 then
          if c04 ∧ v.inHandler == some s!"task {name}" then
            throw s!"Cancel() of {name} returned on another thread while its task is still running"
          v := { v with cancelled := name :: v.cancelled, tags := "cancel" :: v.tags }
      | ["shift"] => v := { v with cancelled := v.cancelled.filter (· ≠ name), tags := "shift" :: v.tags }
      | ["todo"] => v := { v with cancelled := v.cancelled.filter (· ≠ name) }
      | ["stop"] | ["stop-in-task"] | ["stop-signal"] =>
        -- only a Stop that no Run has consumed yet obliges the Run in progress
        if v.pendingStops.contains t then v := { v with stopDone := true, stepsSinceStop := 0, tags := "stop" :: v.tags }
        else v := { v with tags := "stop" :: v.tags }
      | _ => pure ()
    else if kind == "begin" then
      match rest with
      | ["stop"] | ["stop-in-task"] | ["stop-signal"] => v := { v with stopBegun := true, pendingStops := t :: v.pendingStops }
      | _ => pure ()
  | ["mark", "run-enter"] => v := { v with inRun := true, stepsSinceStop := 0 }
  | ["mark", "run-exit"] =>
    if c08 ∧ !v.stopBegun then throw "Run() returned although no Stop() was ever called"
    v := { v with runExited := true, stopDone := false, stopBegun := false, stepsSinceStop := 0, pendingStops := [], inRun := false,
                  tags := "run-exit" :: v.tags }
  | _ => pure ()
  return v

/-- map one scheduler event to transitions of the model -/
def model (v : VSt) (t : Nat) (w : List String) (what : String) : Except String VSt := do
  let isDrv := t = 0
  match w with
  | ["mark", "run-enter"] =>
    -- Run() tests the flag in the same uninterrupted segment as this marker
    if v.m.stop then fire v [.dRunEnter] what else fire v [.dRunEnter, .dRunGo] what
  | ["mark", "step-enter"] => fire v [.dStepEnter] what
  | ["mark", "run-exit"] => fire v [.dRunExit] what
  | ["mark", "step-exit"] => if v.m.d = .idle then pure v else throw "Step returned in the middle of the model's step"
  | ["mark", "begin", _, "stop"] =>
    -- the flag store of Stop() happens in the same uninterrupted segment as this marker
    if isDrv then pure { v with drvStopping := true }
    else (do let v' ← fire v [.uStopSet t] what; pure { v' with stopping := t :: v'.stopping })
  | ["mark", "begin", _, "stop-in-task"] => pure { v with drvStopping := true }
  | ["mark", "begin", _, "stop-signal"] => pure { v with drvStopping := true }
  | ["lock", "step"] =>
    if isDrv then fire v [.dLockStep] what else fire v [.uLockStep t] what
  | ["trylock", "step", "ok"] =>
    if isDrv then
      if v.m.step = .drv then pure { v with depth := v.depth + 1 } else throw "driver thread try-locked stepMtx outside a step"
    else if v.m.step = .usr t then pure { v with depth := v.depth + 1 }
    else fire v [.uTryOk t] what
  | ["trylock", "step", "fail"] => if isDrv then throw "driver thread failed to try-lock stepMtx" else fire v [.uTryFail t] what
  | ["unlock", "step"] =>
    if v.depth > 0 then pure { v with depth := v.depth - 1 }
    else if isDrv then fire v [.dUnlockStep] what else fire v [.uUnlock t] what
  | ["lock", "pause"] => if isDrv then fire v [.dLockPause] what else fire v [.uLockPause t] what
  | ["unlock", "pause"] =>
    if isDrv then
      -- leaving ~StepGuard, Step() returns and Run() tests the flag before the next sync point
      if DPc.run? v.m.d ∧ !v.m.stop then fire v [.dUnlockPause, .dRunGo] what else fire v [.dUnlockPause] what
    else fire v [.uRelPause t] what
  | "poll" :: rest =>
    if rest.any (·.startsWith "pipe:") then
      -- the driver's wait in StepSockets
      let after := rest.dropWhile (· ≠ "->")
      let pipeReady := after.contains "pipe"
      if !isDrv then throw "a non-driver thread polled the signalling pipe"
      -- a poll interrupted by a signal (EINTR) is re-issued by the wait: the driver stays at `atPoll`
      let enter : List L := match v.m.d with | .atPoll _ => [] | _ => [.dToPoll]
      if after.contains "eintr" then fire v enter what
      else if pipeReady then fire v (enter ++ [.dPollPipe]) what else fire v (enter ++ [.dPollOther]) what
    else if rest.any (·.startsWith "pipefrom:") then
      -- Bump(): the flag store of Stop() precedes it
      pure v
    else pure v
  | ["sendto", "pipefrom"] =>
    if isDrv then
      if v.drvStopping then (do let v' ← fire v [.dStop] what; pure { v' with drvStopping := false })
      else throw "driver thread sent a wake-up datagram outside Stop()"
    else if v.m.u t = .stopBump then (do let v' ← fire v [.uStopBump t] what; pure { v' with stopping := v'.stopping.filter (· ≠ t) })
    else fire v [.uBump t] what
  | _ => pure v

partial def go (c04 c05 c08 : Bool) (v : VSt) : List String → Verdict
  | [] => { tags := v.tags }
  | l :: rest =>
    match obs? l with
    | none => go c04 c05 c08 v rest
    | some ("ev" :: tid :: w) =>
      match tidOf tid with
      | none => Verdict.corr s!"bad event {l}" v.tags
      | some t =>
        let what := " ".intercalate (tid :: w)
        match spec c04 c05 c08 v t w with
        | .error msg => Verdict.spec msg v.tags
        | .ok v1 =>
          match model v1 t w what with
          | .error msg => Verdict.corr msg v1.tags
          | .ok v2 =>
            -- the shim's view of who owns stepMtx must equal the model's after every event
            let modelOwner : Option Nat := match v2.m.step with | .none => none | .drv => some 0 | .usr u => some u
            if modelOwner ≠ v2.stepOwner then
              Verdict.corr s!"after '{what}': stepMtx owner differs (model {repr modelOwner}, observed {repr v2.stepOwner})" v2.tags
            else
              let tag := match w with
                | ["trylock", "step", "fail"] => ["contended"]
                | ["trylock", "step", "ok"] => ["uncontended"]
                | "poll" :: _ => if t = 0 then ["dpoll"] else []
                | _ => []
              go c04 c05 c08 { v2 with tags := tag ++ v2.tags } rest
    | some ("outcome" :: "done" :: _) =>
      if c08 ∧ v.stopBegun ∧ !v.runExited ∧ v.tags.contains "run-mode" then Verdict.spec "Run() did not return after Stop()" v.tags
      else go c04 c05 c08 v rest
    | some ("outcome" :: "deadlock" :: x) =>
      Verdict.spec ("deadlock / lost wake-up: no thread can make progress: " ++ " ".intercalate x) v.tags
    | some ("outcome" :: "stuck" :: x) => Verdict.spec ("a thread is stuck outside the scheduler: " ++ " ".intercalate x) v.tags
    | some ("crash" :: x) => Verdict.spec ("crash: " ++ " ".intercalate x) v.tags
    | some _ => go c04 c05 c08 v rest

def dedupTags (v : Verdict) : Verdict := { v with tags := dedup v.tags }

def runCaseC04 (body : List String) : Verdict := dedupTags (go true false false {} body)
def runCaseC05 (body : List String) : Verdict := dedupTags (go false true false {} body)
def runCaseC08 (body : List String) : Verdict := dedupTags (go false false true {} body)

end SockModel.Drive.C04

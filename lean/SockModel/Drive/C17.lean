import SockModel.Drive.Common
import SockModel.Model.Lifecycle
/-! Driver for C17: validates lifecycle histories of `harness/scen/lifecycle.cpp` against
`Model/Lifecycle.lean` and evaluates the property on the observations:
no crash (sanitizer / assertion / signal) on a legal history; no handler after destruction; every
future of a destroyed socket is value / exn / broken at once, none is left pending. -/
namespace SockModel.Drive.C17
open SockModel SockModel.Drive SockModel.Lifecycle

def b01 (s : String) : Option Bool := match s with | "0" => some false | "1" => some true | _ => none

def parseOp (w : List String) : Option Op :=
  match w with
  | ["driver", d] => do pure (.mkDriver (← d.toNat?))
  | ["ddriver", d] => do pure (.destroyDriver (← d.toNat?))
  | ["step", d] => do pure (.step (← d.toNat?))
  | ["sock", i, k, d, a, b, c] => do
    let k ← match k with | "tcp" => some Kind.tcp | "udp" => some Kind.udp | "acc" => some Kind.acc | _ => none
    pure (.mkSock (← i.toNat?) k (← d.toNat?) (← b01 a) (← b01 b) (← b01 c))
  | ["send", i] => do pure (.send (← i.toNat?))
  | ["release", i] => do pure (.release (← i.toNat?))
  | ["dsock", i] => do pure (.destroySock (← i.toNat?))
  | ["psend", i] => do pure (.peerSend (← i.toNat?))
  | ["pclose", i] => do pure (.peerClose (← i.toNat?))
  | ["preset", i] => do pure (.peerReset (← i.toNat?))
  | ["pconn", i] => do pure (.peerConnect (← i.toNat?))
  | ["sendfail", i] => do pure (.sendFail (← i.toNat?))
  | ["todo", t, d, s] => do pure (.mkTodo (← t.toNat?) (← d.toNat?) (← b01 s))
  | ["cancel", t] => do pure (.cancel (← t.toNat?))
  | ["shift", t] => do pure (.shift (← t.toNat?))
  | ["droptodo", t] => do pure (.dropTodo (← t.toNat?))
  | ["dpool"] => some .destroyPool
  | _ => none

def evWords : Ev → List String
  | .recv s => ["recv", toString s]
  | .recvFrom s => ["recvfrom", toString s]
  | .conn s => ["conn", toString s]
  | .disc s => ["disc", toString s]
  | .todo t => ["todo", toString t]
  | .fut id st => ["fut", toString id, match st with
      | .pending => "pending" | .value => "value" | .exn => "exn" | .either => "either" | .broken => "broken"]

/-- does the observed event match the model's (`either` = value or exn) -/
def evMatches (m o : List String) : Bool :=
  match m, o with
  | ["fut", a, "either"], ["fut", b, st] => a == b && (st == "value" || st == "exn")
  | _, _ => m == o

def takeObs : List String → List (List String) → List (List String) × List String
  | [], acc => (acc.reverse, [])
  | l :: rest, acc =>
    match obs? l with
    | some w => takeObs rest (w :: acc)
    | none => (acc.reverse, l :: rest)

/-- what the harness destroys at the end of a history, in its order -/
def implicitEnd (s : St) (socks todos drvs : List Nat) : List Op :=
  (socks.flatMap fun i => if (s.sock i).alive then [Op.release i, Op.destroySock i] else []) ++
  (todos.flatMap fun t => if (s.todo t).handle then [Op.dropTodo t] else []) ++
  (drvs.flatMap fun d => if (s.drv d).alive then [Op.destroyDriver d] else []) ++
  (if s.poolAlive then [Op.destroyPool] else [])

/-- observation-only bookkeeping for the property -/
structure Spec where
  dead : List Nat := []                 -- sockets known to be destroyed
  futOf : List (Nat × Nat) := []        -- future id ↦ socket
  resolved : List Nat := []
  nfut : Nat := 0
  selfDestroy : List Nat := []          -- sockets whose disconnect handler destroys them
  ended : Bool := false

def Spec.observe (sp : Spec) (obs : List (List String)) : Except String Spec :=
  obs.foldlM (init := sp) fun sp o =>
    match o with
    | "crash" :: w => .error ("crash: " ++ " ".intercalate w)
    | ["fut", id, st] =>
      match id.toNat? with
      | some id =>
        if st == "pending" then .error s!"future {id} is still pending after its socket was destroyed (dangling)"
        else if sp.resolved.contains id then .error s!"future {id} reported twice"
        else .ok { sp with resolved := id :: sp.resolved }
      | none => .ok sp
    | [k, i] =>
      if k == "recv" || k == "recvfrom" || k == "conn" || k == "disc" then
        match i.toNat? with
        | some i =>
          if sp.dead.contains i then .error s!"handler '{k}' of socket {i} invoked after the socket was destroyed"
          else if k == "disc" && sp.selfDestroy.contains i then .ok { sp with dead := i :: sp.dead }
          else .ok sp
        | none => .ok sp
      else .ok sp
    | _ => .ok sp

/-- after the observations of an op: every future of a destroyed socket must have been reported -/
def Spec.checkDangling (sp : Spec) : Except String Unit :=
  match sp.futOf.find? (fun (id, s) => sp.dead.contains s && !sp.resolved.contains id) with
  | some (id, s) => .error s!"future {id} of destroyed socket {s} was not released (neither value, exception nor broken promise)"
  | none => .ok ()

partial def go (s : St) (sp : Spec) (socks todos drvs : List Nat) (tags : List String) : List String → Verdict
  | [] => if sp.ended then { tags := tags } else Verdict.spec "history did not run to its end (harness died without a report)" tags
  | l :: rest =>
    let w := words l
    if w.isEmpty then go s sp socks todos drvs tags rest else
    let (obs, rest') := takeObs rest []
    let isEnd := w == ["end"]
    match (if isEnd then some [] else (parseOp w).map (fun o => [o])) with
    | none =>
      match w with
      | "->" :: "crash" :: x => Verdict.spec ("crash: " ++ " ".intercalate x) tags
      | _ => Verdict.corr s!"unknown line {l}" tags
    | some ops0 =>
      let ops := if isEnd then implicitEnd s socks todos drvs else ops0
      if obs == [["skipped"]] then
        -- the harness refuses ops that break a usage rule; the model must agree that it is one
        if ops.all (fun op => !legalOp s op) then go s sp socks todos drvs ("skipped" :: tags) rest'
        else Verdict.corr s!"harness skipped '{l}', which the model considers legal" tags
      else
      -- the property on the observations
      let sp1 : Spec := match ops0 with
        | [.send i] => if obs.any (·.head? == some "throw") then sp else
            { sp with futOf := (sp.nfut, i) :: sp.futOf, nfut := sp.nfut + 1 }
        | [.destroySock i] => { sp with dead := i :: sp.dead }
        | [.mkSock i _ _ onDisc _ _] => if onDisc then { sp with selfDestroy := i :: sp.selfDestroy } else sp
        | _ => if isEnd then { sp with dead := socks ++ sp.dead, ended := true } else sp
      match (do let sp2 ← sp1.observe obs; sp2.checkDangling; pure sp2) with
      | .error msg => Verdict.spec s!"after '{l}': {msg}" tags
      | .ok sp2 =>
        -- legality (the generator only produces legal histories) and the model's prediction
        let step := ops.foldl (init := (s, true)) fun (st, ok) op => (exec .fixed st op, ok && legalOp st op)
        let s' := step.1
        if !step.2 then Verdict.corr s!"history is not legal at '{l}' (generator error)" tags else
        match s'.ub with
        | some why => Verdict.corr s!"model reaches undefined behaviour on a legal history at '{l}': {why}" tags
        | none =>
          let mRaw := (s'.log.take (s'.log.length - s.log.length)).reverse
          -- the harness reports handler invocations as they happen and then, per op, the futures that became
          -- ready in order of their ids
          let mFuts := (mRaw.filterMap fun e => match e with | .fut id st => some (id, st) | _ => none)
          let mFutsSorted := (mFuts.toArray.qsort (fun a b => a.1 < b.1)).toList.map fun (id, st) => Ev.fut id st
          let mEvs := ((mRaw.filter fun e => match e with | .fut .. => false | _ => true) ++ mFutsSorted).map evWords
          let oEvs := obs.filter (fun o => o != ["done"])
          if mEvs.length != oEvs.length || !((mEvs.zip oEvs).all fun (m, o) => evMatches m o) then
            Verdict.corr s!"after '{l}': implementation {oEvs}, model {mEvs}" tags
          else
            let socks := match ops0 with | [.mkSock i ..] => socks ++ [i] | _ => socks
            let todos := match ops0 with | [.mkTodo t ..] => todos ++ [t] | _ => todos
            let drvs := match ops0 with | [.mkDriver d] => drvs ++ [d] | _ => drvs
            let tag := match ops0 with
              | [.send i] => if (s.sock i).alive && !((s.drv (s.sock i).drv).alive) then ["send.nodriver"]
                  else if !((s.drv (s.sock i).drv).pfds.any (·.1 = i)) then ["send.unregistered"] else ["send"]
              | [.destroySock i] => if (s.sock i).sendQ.isEmpty then ["dsock"] else ["dsock.pending"]
              | [.destroyDriver d] => if (s.drv d).sockets.isEmpty && (s.drv d).todos.isEmpty then ["ddriver.empty"] else ["ddriver.busy"]
              | [.step d] => if (s.drv d).sockets.isEmpty && (s.drv d).todos.isEmpty then ["step.empty"] else ["step"]
              | [.cancel t] => if (s.drv (s.todo t).drv).todos.contains t then ["cancel"] else ["cancel.finished"]
              | [.shift t] => if (s.drv (s.todo t).drv).todos.contains t then ["shift"] else ["shift.finished"]
              | _ => []
            let tag2 := mEvs.filterMap fun e => match e with
              | ["disc", i] => some (if sp1.selfDestroy.contains (i.toNat?.getD 0) then "disc.selfdestroy" else "disc")
              | ["fut", _, st] => some ("fut." ++ st)
              | _ => none
            go s' sp2 socks todos drvs (tag ++ tag2 ++ tags) rest'

def runCase (body : List String) : Verdict := go {} {} [] [] [] [] body

end SockModel.Drive.C17

import SockModel.Drive.Common
import SockModel.Model.Lifecycle
import SockModel.Spec.C17
/-! Driver for C17: parses the transcripts of `harness/scen/lifecycle.cpp` into the typed observations of
`Spec/C17.lean`, evaluates the property with exactly the functions defined there (`specStep`, `specEnd`:
no crash on a legal history; no handler after destruction; every future of a destroyed socket is value /
exn / broken at once, none is left pending - proved there to accept every trace of the model,
`model_satisfies_spec`) and validates the history against `Model/Lifecycle.lean` (correspondence: refusals =
illegal operations, handler log and future states).  No property clause lives here. -/
namespace SockModel.Drive.C17
open SockModel SockModel.Drive SockModel.Lifecycle

def b01 (s : String) : Option Bool := match s with | "0" => some false | "1" => some true | _ => none

def parseOp (w : List String) : Option Op :=
  match w with
  | ["driver", d] => do pure (.mkDriver (← d.toNat?))
  | ["ddriver", d] => do pure (.destroyDriver (← d.toNat?))
  | ["step", d] => do pure (.step (← d.toNat?))
  | ["sock", i, k, d, a, b, c] => do
    let k ← match k with | "tcp" => some Kind.tcp | "udp" => some Kind.udp | "acc" => some Kind.acc | _ => none
    pure (.mkSock (← i.toNat?) k (← d.toNat?) (← b01 a) (← b01 b) (← b01 c))
  | ["send", i] => do pure (.send (← i.toNat?))
  | ["echo", i] => do pure (.echo (← i.toNat?))
  | ["release", i] => do pure (.release (← i.toNat?))
  | ["dsock", i] => do pure (.destroySock (← i.toNat?))
  | ["psend", i] => do pure (.peerSend (← i.toNat?))
  | ["pclose", i] => do pure (.peerClose (← i.toNat?))
  | ["preset", i] => do pure (.peerReset (← i.toNat?))
  | ["pconn", i] => do pure (.peerConnect (← i.toNat?))
  | ["sendfail", i] => do pure (.sendFail (← i.toNat?))
  | ["todo", t, d, s] => do pure (.mkTodo (← t.toNat?) (← d.toNat?) (← b01 s))
  | ["cancel", t] => do pure (.cancel (← t.toNat?))
  | ["shift", t] => do pure (.shift (← t.toNat?))
  | ["droptodo", t] => do pure (.dropTodo (← t.toNat?))
  | ["dpool"] => some .destroyPool
  | _ => none

/-- one observation line (the words after `->`) as a typed item -/
def parseItem (o : List String) : Item :=
  match o with
  | "crash" :: w => .crash (" ".intercalate w)
  | ["fut", id, st] =>
    match id.toNat? with
    | some id => .fut id (match st with
        | "pending" => .pending | "value" => .value | "exn" => .exn | "broken" => .broken | _ => .other)
    | none => .other
  | [k, i] =>
    match i.toNat? with
    | some i =>
      match k with
      | "recv" => .handler .recv i
      | "recvfrom" => .handler .recvFrom i
      | "conn" => .handler .conn i
      | "disc" => .handler .disc i
      | "todo" => .todo i
      | "throw" => .threw
      | _ => .other
    | none => if k == "throw" then .threw else .other
  | ["skipped"] => .skipped
  | ["done"] => .done
  | "throw" :: _ => .threw
  | _ => .other

def evWords : Ev → List String
  | .recv s => ["recv", toString s]
  | .recvFrom s => ["recvfrom", toString s]
  | .conn s => ["conn", toString s]
  | .disc s => ["disc", toString s]
  | .todo t => ["todo", toString t]
  | .fut id st => ["fut", toString id, match st with
      | .pending => "pending" | .value => "value" | .exn => "exn" | .either => "either" | .broken => "broken"]

/-- does the observed event match the model's (`either` = value or exn) -/
def evMatches (m o : List String) : Bool :=
  match m, o with
  | ["fut", a, "either"], ["fut", b, st] => a == b && (st == "value" || st == "exn")
  | _, _ => m == o

def takeObs : List String → List (List String) → List (List String) × List String
  | [], acc => (acc.reverse, [])
  | l :: rest, acc =>
    match obs? l with
    | some w => takeObs rest (w :: acc)
    | none => (acc.reverse, l :: rest)

partial def go (m : Sys) (sp : SpecSt) (tags : List String) : List String → Verdict
  | [] =>
    match specEnd sp with
    | .ok _ => { tags := tags }
    | .error msg => Verdict.spec msg tags
  | l :: rest =>
    let w := words l
    if w.isEmpty then go m sp tags rest else
    let (obs, rest') := takeObs rest []
    let items := obs.map parseItem
    let isEnd := w == ["end"]
    let s := m.st
    match (if isEnd then some (none : Option Op) else (parseOp w).map some) with
    | none =>
      match w with
      | "->" :: "crash" :: x =>
        match specStep sp (.stray (" ".intercalate x)) with
        | .error msg => Verdict.spec msg tags
        | .ok _ => Verdict.corr s!"unknown line {l}" tags
      | _ => Verdict.corr s!"unknown line {l}" tags
    | some op? =>
      let ops := match op? with | some op => [op] | none => implicitEnd s m.socks m.todos m.drvs
      let o : Obs := match op? with | some op => .op l op items | none => .fin l items
      if items == [.skipped] then
        -- the harness refuses ops that break a usage rule; the model must agree that it is one
        if ops.all (fun op => !legalOp s op) then
          match specStep sp o with
          | .ok sp' => go m sp' ("skipped" :: tags) rest'
          | .error msg => Verdict.spec msg tags
        else Verdict.corr s!"harness skipped '{l}', which the model considers legal" tags
      else
      -- the property on the observations
      match specStep sp o with
      | .error msg => Verdict.spec msg tags
      | .ok sp2 =>
        -- legality (the generator only produces legal histories) and the model's prediction
        let step := ops.foldl (init := (s, true)) fun (st, ok) op => (exec .fixed st op, ok && legalOp st op)
        let s' := step.1
        if !step.2 then Verdict.corr s!"history is not legal at '{l}' (generator error)" tags else
        match s'.ub with
        | some why => Verdict.corr s!"model reaches undefined behaviour on a legal history at '{l}': {why}" tags
        | none =>
          -- the harness reports handler invocations as they happen and then, per op, the futures that became
          -- ready in order of their ids: `modelEvents`
          let mEvs := (modelEvents s s').map evWords
          let oEvs := obs.filter (fun o => o != ["done"])
          if mEvs.length != oEvs.length || !((mEvs.zip oEvs).all fun (m, o) => evMatches m o) then
            Verdict.corr s!"after '{l}': implementation {oEvs}, model {mEvs}" tags
          else
            let m' := match op? with | some op => m.record op s' | none => { m with st := s' }
            let tag := match op? with
              | some (.send i) => if (s.sock i).alive && !((s.drv (s.sock i).drv).alive) then ["send.nodriver"]
                  else if !((s.drv (s.sock i).drv).pfds.any (·.1 = i)) then ["send.unregistered"] else ["send"]
              | some (.echo i) => if (s.sock i).alive && !((s.drv (s.sock i).drv).alive) then ["echo.nodriver"]
                  else if !((s.drv (s.sock i).drv).pfds.any (·.1 = i)) then ["echo.unregistered"] else ["echo"]
              -- `dsock.echoed`: a receive buffer of the socket's own pool is still in its send queue
              | some (.destroySock i) => if (s.sock i).sendQ.isEmpty then ["dsock"]
                  else if s.lent (s.sock i) > 0 then ["dsock.pending", "dsock.echoed"] else ["dsock.pending"]
              | some (.destroyDriver d) => if (s.drv d).sockets.isEmpty && (s.drv d).todos.isEmpty then ["ddriver.empty"] else ["ddriver.busy"]
              | some (.step d) => if (s.drv d).sockets.isEmpty && (s.drv d).todos.isEmpty then ["step.empty"] else ["step"]
              | some (.cancel t) => if (s.drv (s.todo t).drv).todos.contains t then ["cancel"] else ["cancel.finished"]
              | some (.shift t) => if (s.drv (s.todo t).drv).todos.contains t then ["shift"] else ["shift.finished"]
              | _ => []
            let tag2 := mEvs.filterMap fun e => match e with
              | ["disc", i] => some (if sp2.selfDestroy.contains (i.toNat?.getD 0) then "disc.selfdestroy" else "disc")
              | ["fut", _, st] => some ("fut." ++ st)
              | _ => none
            -- the history ends (the harness destroys what is left) with an echoed receive buffer still queued
            let tag3 := if op?.isNone && m.socks.any (fun i => (s.sock i).alive && s.lent (s.sock i) > 0) then ["end.echoed"] else []
            go m' sp2 (tag ++ tag2 ++ tag3 ++ tags) rest'

def runCase (body : List String) : Verdict := go {} {} [] body

end SockModel.Drive.C17

import SockModel.Drive.Common
import SockModel.Model.AsyncQ
/-! Driver for C02: validates async-send transcripts (`harness/scen/async_send.cpp`) against
`Model/AsyncQ.lean` (correspondence) and evaluates the property directly on the observations
(`specPass`: an ideal FIFO pipeline fed with the same OS answers; it knows nothing about
`POLLOUT`, `wasEmpty` or the model state). -/
namespace SockModel.Drive.C02
open SockModel SockModel.Drive SockModel.AsyncQ

def pat (id j : Nat) : UInt8 := UInt8.ofNat ((id * 37 + j * 11 + (j / 251) * 3 + 1) % 256)
def content (id size : Nat) : Bytes := (List.range size).map (pat id)
def fnv (bs : Bytes) : UInt64 :=
  bs.foldl (fun h b => (h ^^^ b.toUInt64) * 1099511628211) 14695981039346656037

/-- observation lines following an op -/
def takeObs : List String → List (List String) → List (List String) × List String
  | [], acc => (acc.reverse, [])
  | l :: rest, acc =>
    match obs? l with
    | some w => takeObs rest (w :: acc)
    | none => (acc.reverse, l :: rest)

inductive Sys where
  | none
  | sent (len r : Nat)
  | fail (len : Nat)
  deriving Repr, BEq

structure StepObs where
  sys : List Sys := []
  disconnect : Bool := false
  data : Bool := false
  thrown : Option String := none
  futs : Option String := none
  ret : Option (List Nat) := none
  nobuf : Bool := false
  wire : Option (Nat × String) := none
  crash : Option String := none
  bad : Option String := none

def parseRet (s : String) : Option (List Nat) :=
  if s = "-" then some [] else (s.splitOn ",").mapM (·.toNat?)

def parseObs (obs : List (List String)) : StepObs :=
  obs.foldl (fun o w =>
    match w with
    | ["sys", "none"] => o
    | ["sys", "send", l, "fail"] => match l.toNat? with
      | some l => { o with sys := o.sys ++ [.fail l] } | none => { o with bad := some "sys" }
    | ["sys", "send", l, r] => match l.toNat?, r.toNat? with
      | some l, some r => { o with sys := o.sys ++ [.sent l r] } | _, _ => { o with bad := some "sys" }
    | ["ev", "disconnect"] => { o with disconnect := true }
    | "ev" :: "data" :: _ => { o with data := true }
    | "throw" :: rest => { o with thrown := some (" ".intercalate rest) }
    | ["nobuf"] => { o with nobuf := true }
    | ["st", f, r] =>
      match parseRet (r.drop 4).toString with
      | some ids => { o with futs := some (f.drop 4).toString, ret := some ids }
      | none => { o with bad := some "st" }
    | ["wire", n, h] => match n.toNat? with
      | some n => { o with wire := some (n, h) } | none => { o with bad := some "wire" }
    | "crash" :: rest => { o with crash := some (" ".intercalate rest) }
    | "hang" :: rest => { o with crash := some ("hang " ++ " ".intercalate rest) }
    | _ => { o with bad := some (" ".intercalate w) }) {}

/-! ## the property on observations only -/

structure SElem where
  id : Nat
  rest : Bytes

structure Spec where
  poolN : Nat := 0
  pend : List SElem := []                 -- Sends whose future must still be pending, in Send order
  status : List (Nat × Char) := []        -- expected future letter per id, creation order
  acc : Bytes := []                       -- accepted by the OS, not yet read by the peer
  connected : Bool := true
  peerClosed : Bool := false
  destroyed : Bool := false

def Spec.setStatus (sp : Spec) (id : Nat) (c : Char) : Spec :=
  { sp with status := sp.status.map fun (i, x) => if i = id then (i, c) else (i, x) }

def Spec.letters (sp : Spec) : String := String.ofList (sp.status.map (·.2))
def Spec.resolvedIds (sp : Spec) : List Nat := (sp.status.filter (·.2 ≠ 'p')).map (·.1)

def sameSet (a b : List Nat) : Bool := a.all b.contains && b.all a.contains && a.length == b.length

def Spec.checkState (sp : Spec) (o : StepObs) : Except String Unit := do
  match o.futs, o.ret with
  | some f, some r =>
    let f := if f = "-" then "" else f
    if f ≠ sp.letters then
      throw s!"futures are {f} but an ideal FIFO pipeline fed with the same OS answers has {sp.letters} (p=pending v=value e=exception b=broken)"
    if ¬ sameSet r sp.resolvedIds then
      throw s!"buffers back in the pool {r} differ from the buffers whose future is resolved {sp.resolvedIds}"
  | _, _ => throw "missing state observation"

def Spec.sys (sp : Spec) (zeroScripted : Bool) : Sys → Except String Spec
  | .none => pure sp
  | .sent _ r =>
    match sp.pend with
    | [] => throw "a send() was issued although no buffer is queued"
    | e :: rest =>
      if r > e.rest.length then throw s!"the OS accepted {r} bytes of a buffer that has only {e.rest.length} left"
      else if r = e.rest.length then
        pure ({ sp with pend := rest, acc := sp.acc ++ e.rest }.setStatus e.id 'v')
      else if r = 0 ∧ ¬ zeroScripted then throw "send() returned 0"
      else pure { sp with pend := { e with rest := e.rest.drop r } :: rest, acc := sp.acc ++ e.rest.take r }
  | .fail _ =>
    match sp.pend with
    | [] => throw "a send() was issued although no buffer is queued"
    | e :: rest => pure ({ sp with pend := rest }.setStatus e.id 'e')

def specOp (sp : Spec) (w : List String) (o : StepObs) : Except String Spec := do
  if let some c := o.crash then throw s!"crash: {c}"
  match w with
  | ["sock", n, _] => pure { sp with poolN := n.toNat?.getD 0 }
  | ["send", id, size] =>
    match id.toNat?, size.toNat? with
    | some id, some size =>
      if o.nobuf then pure sp
      else
        let sp := { sp with pend := sp.pend ++ [⟨id, content id size⟩], status := sp.status ++ [(id, 'p')] }
        sp.checkState o
        pure sp
    | _, _ => throw "bad send line"
  | "step" :: script =>
    let zero := script.head? == some "zero"
    if o.data then throw "receive handler invoked although the peer never sent"
    if o.disconnect ∧ ¬ sp.peerClosed then throw "disconnect handler invoked although the peer did not close"
    if o.sys.length > 1 then throw "more than one send() in one driver step"
    let mut sp := sp
    for s in o.sys do
      sp ← sp.sys zero s
    match o.thrown with
    | some t =>
      let okThrow : Bool := zero && (match o.sys with | [.sent l 0] => decide (l > 0) | _ => false)
      if ¬ okThrow then throw s!"Step threw: {t}"
    | none => pure ()
    if o.disconnect then sp := { sp with connected := false }
    -- "does not stay pending while the driver runs and the peer reads"
    if o.sys.isEmpty ∧ ¬ o.disconnect ∧ sp.connected ∧ ¬ sp.peerClosed ∧ ¬ sp.destroyed ∧ sp.pend ≠ [] ∧ sp.acc.isEmpty then
      throw "a buffer is queued, the peer has read everything, yet Step made no send attempt (future stays pending)"
    sp.checkState o
    pure sp
  | ["drain"] =>
    match o.wire with
    | some (n, h) =>
      -- the peer may lag behind the OS (it read fewer bytes than were accepted so far): what it read must be
      -- exactly the next bytes of the FIFO concatenation; the rest stays expected
      if n > sp.acc.length ∨ h ≠ toString (fnv (sp.acc.take n)) then
        throw s!"peer read {n} bytes (hash {h}); the FIFO concatenation of what the OS accepted continues with {sp.acc.length} bytes (hash of the first {min n sp.acc.length}: {fnv (sp.acc.take n)})"
      pure { sp with acc := sp.acc.drop n }
    | none => throw "missing wire observation"
  | ["peerclose"] => pure { sp with peerClosed := true }
  | ["destroy"] =>
    let sp := { sp with pend := [], destroyed := true,
                        status := sp.status.map fun (i, c) => if c = 'p' then (i, 'b') else (i, c) }
    sp.checkState o
    pure sp
  | _ => pure sp

/-! ### multi-threaded runs: the property on the peer's byte stream -/

/-- parse `[0xF0|t, seq, lenLo, lenHi, body...]*`, checking per-thread order and contents -/
partial def parseStream (bs : Bytes) (next : List Nat) : Except String (List Nat) :=
  match bs with
  | [] => pure next
  | h :: s :: lo :: hi :: rest =>
    let t := h.toNat - 0xF0
    let n := lo.toNat + 256 * hi.toNat
    if h.toNat < 0xF0 ∨ t ≥ next.length then throw s!"stream: byte {h} where a buffer header was expected (a buffer was split, interleaved or lost)"
    else if next.getD t 0 ≠ s.toNat then throw s!"stream: thread {t} buffer {s} arrived where its buffer {next.getD t 0} was expected (per-thread order broken / duplicate / loss)"
    else if rest.length < n then throw s!"stream: buffer {t}/{s} truncated"
    else if rest.take n ≠ content (t * 64 + s.toNat) n then throw s!"stream: body of buffer {t}/{s} is not one contiguous copy"
    else parseStream (rest.drop n) (next.set t (s.toNat + 1))
  | _ => throw "stream: trailing partial header"

def specMt (w : List String) (obs : List (List String)) : Except String Unit := do
  match w with
  | "mt" :: th :: per :: _ =>
    let th := th.toNat?.getD 0
    let per := per.toNat?.getD 0
    for o in obs do
      match o with
      | ["mt", "stream", hex] =>
        match hexDecode hex with
        | some bs =>
          let next ← parseStream bs (List.replicate th 0)
          if next ≠ List.replicate th per then throw s!"stream: buffers per thread received {next}, expected {per} each (loss)"
        | none => throw "bad stream"
      | ["mt", "futs", l] =>
        if l.toList.any (fun c => c ≠ 'v' ∧ c ≠ '/') then throw s!"futures after the peer read everything: {l} (expected all v)"
      | ["mt", "back", a, b] =>
        if a ≠ b then throw s!"only {a} of {b} buffers are back in the pool after all futures resolved"
      | "crash" :: r => throw ("crash: " ++ " ".intercalate r)
      | "hang" :: r => throw ("hang: " ++ " ".intercalate r)
      | "throw" :: r => throw ("exception: " ++ " ".intercalate r)
      | _ => pure ()
    if ¬ obs.any (fun o => o.take 2 == ["mt", "stream"]) then throw "missing stream observation"
  | _ => pure ()

partial def specPass (sp : Spec) : List String → Option String
  | [] => none
  | l :: rest =>
    let w := words l
    if w.isEmpty then specPass sp rest else
    match w with
    | "->" :: "crash" :: x => some ("crash: " ++ " ".intercalate x)
    | "->" :: "hang" :: x => some ("hang: " ++ " ".intercalate x)
    | "->" :: _ => specPass sp rest
    | _ =>
      let (obs, rest') := takeObs rest []
      if w.head? == some "mt" then
        match specMt w obs with
        | .error m => some m
        | .ok _ => specPass sp rest'
      else
        match specOp sp w (parseObs obs) with
        | .error m => some s!"after '{l}': {m}"
        | .ok sp' => specPass sp' rest'

/-! ## correspondence with `Model/AsyncQ.lean` -/

structure CSt where
  m : St := {}
  ids : List Nat := []
  poolN : Nat := 0
  drained : Nat := 0
  peerClosed : Bool := false
  tags : List String := []

def letter : Fut → Char
  | .none => '?' | .pending => 'p' | .value => 'v' | .exn => 'e' | .broken => 'b'

def CSt.check (c : CSt) (o : StepObs) (l : String) : Option String :=
  match o.futs, o.ret with
  | some f, some r =>
    let f := if f = "-" then "" else f
    let mf := String.ofList (c.ids.map fun i => letter (c.m.fut i))
    if f ≠ mf then some s!"after '{l}': futures impl {f} model {mf}"
    else if ¬ sameSet r c.m.returned then some s!"after '{l}': returned buffers impl {r} model {c.m.returned}"
    else none
  | _, _ => some s!"after '{l}': missing state observation"

partial def corrPass (c : CSt) : List String → Verdict
  | [] => { tags := c.tags }
  | l :: rest =>
    let w := words l
    if w.isEmpty then corrPass c rest else
    match w with
    | "->" :: _ => corrPass c rest
    | _ =>
      let (obs, rest') := takeObs rest []
      let o := parseObs obs
      if w.head? == some "mt" then corrPass { c with tags := "mt" :: c.tags } rest' else
      if let some b := o.bad then Verdict.corr s!"after '{l}': unparsable observation {b}" c.tags else
      match w with
      | ["sock", n, _] => corrPass { c with poolN := n.toNat?.getD 0 } rest'
      | ["send", id, size] =>
        match id.toNat?, size.toNat? with
        | some id, some size =>
          if o.nobuf then
            if c.ids.length - c.m.returned.length ≠ c.poolN then
              Verdict.corr s!"after '{l}': pool refused a buffer with {c.ids.length - c.m.returned.length} of {c.poolN} outstanding" c.tags
            else corrPass { c with tags := "nobuf" :: c.tags } rest'
          else
            let tag := if c.m.q.isEmpty then "enq.empty" else "enq.nonempty"
            let tag2 := if c.m.registered then [] else ["arm.unregistered"]
            let m := step (step c.m (.enq 0 id (content id size))) (.arm 0)
            let c := { c with m := m, ids := c.ids ++ [id], tags := tag :: tag2 ++ c.tags }
            match c.check o l with
            | some msg => Verdict.corr msg c.tags
            | none => corrPass c rest'
        | _, _ => Verdict.corr s!"bad line {l}" c.tags
      | "step" :: _ =>
        let enabled := c.m.registered ∧ c.m.armed ∧ ¬ c.m.destroyed
        let front := c.m.q.head?
        let r : Except String (St × List String) :=
          match o.sys with
          | [] =>
            -- the kernel may legitimately report "not writable" while accepted bytes are unread
            if enabled ∧ ¬ o.disconnect ∧ ¬ c.peerClosed ∧ c.m.wire.length = c.drained then
              .error "model: POLLOUT armed and the socket writable, impl made no send"
            else .ok (c.m, [])
          | [.sent len k] =>
            if ¬ enabled then .error "impl sent although the model has POLLOUT disarmed / socket unregistered"
            else match front with
              | none => .error "impl sent with an empty model queue"
              | some e =>
                if len ≠ e.rest.length then .error s!"impl offered {len} bytes, model's front buffer has {e.rest.length} unsent"
                else
                  let tag := if e.rest.length ≤ k then "w.full" else if k = 0 then "w.zero" else "w.partial"
                  let m1 := step c.m (.writable (.accept k))
                  let tag2 := if m1.drvDisarm then ["disarm"] else []
                  .ok (step m1 .disarm, tag :: tag2)
          | [.fail len] =>
            if ¬ enabled then .error "impl sent although the model has POLLOUT disarmed / socket unregistered"
            else match front with
              | none => .error "impl sent with an empty model queue"
              | some e =>
                if len ≠ e.rest.length then .error s!"impl offered {len} bytes, model's front buffer has {e.rest.length} unsent"
                else .ok (step (step c.m (.writable .fail)) .disarm, ["w.fail"])
          | _ => .error "more than one send in a step"
        match r with
        | .error msg => Verdict.corr s!"after '{l}': {msg}" c.tags
        | .ok (m, tg) =>
          let m := if o.disconnect then step m .unregister else m
          let tg := if o.disconnect then "unregister" :: tg else tg
          let c := { c with m := m, tags := tg ++ c.tags }
          match c.check o l with
          | some msg => Verdict.corr msg c.tags
          | none => corrPass c rest'
      | ["drain"] =>
        match o.wire with
        | some (n, h) =>
          let seg := (c.m.wire.drop c.drained).take n
          if n ≠ seg.length ∨ h ≠ toString (fnv seg) then
            Verdict.corr s!"after '{l}': peer read {n} bytes hash {h}, model wire continues with {(c.m.wire.drop c.drained).length} bytes (hash of that prefix {fnv seg})" c.tags
          else corrPass { c with drained := c.drained + n,
                                 tags := (if c.drained + n < c.m.wire.length then ["drain", "drain.lag"] else ["drain"]) ++ c.tags } rest'
        | none => Verdict.corr s!"after '{l}': missing wire observation" c.tags
      | ["peerclose"] => corrPass { c with peerClosed := true } rest'
      | ["destroy"] =>
        let tag := if c.m.q.isEmpty then "destroy.idle" else "destroy.pending"
        let c := { c with m := step c.m .destroy, tags := tag :: c.tags }
        match c.check o l with
        | some msg => Verdict.corr msg c.tags
        | none => corrPass c rest'
      | "mt" :: _ => corrPass { c with tags := "mt" :: c.tags } rest'
      | _ => Verdict.corr s!"unknown line {l}" c.tags

def runCase (body : List String) : Verdict :=
  match specPass {} body with
  | some msg => Verdict.spec msg
  | none => corrPass {} body

end SockModel.Drive.C02

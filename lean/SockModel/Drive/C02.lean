import SockModel.Drive.Common
import SockModel.Spec.C02
/-! Driver for C02: validates async-send transcripts (`harness/scen/async_send.cpp`) against
`Model/AsyncQ.lean` (correspondence) and evaluates the property directly on the observations.

The property predicate itself is NOT here: the transcript lines are parsed into typed observations
(`AsyncQ.Obs`, `items`) and judged by `AsyncQ.specRunL` = `specStep` of `Spec/C02.lean` - an ideal FIFO
pipeline fed with the same OS answers; it knows nothing about `POLLOUT`, `wasEmpty` or the model state
and is proved there to accept every trace of the model (`model_satisfies_spec`, re-exported as
`spec_holds_on_model` in `Props/C02.lean`).  Only the byte-stream parser of the multi-threaded runs
(`specMt`) lives in this file; its verdict is handed to the spec as `Obs.external`. -/
namespace SockModel.Drive.C02
open SockModel SockModel.Drive SockModel.AsyncQ

def pat (id j : Nat) : UInt8 := UInt8.ofNat ((id * 37 + j * 11 + (j / 251) * 3 + 1) % 256)
def content (id size : Nat) : Bytes := (List.range size).map (pat id)

/-- observation lines following an op -/
def takeObs : List String → List (List String) → List (List String) × List String
  | [], acc => (acc.reverse, [])
  | l :: rest, acc =>
    match obs? l with
    | some w => takeObs rest (w :: acc)
    | none => (acc.reverse, l :: rest)

structure StepObs where
  sys : List Sys := []
  disconnect : Bool := false
  data : Bool := false
  thrown : Option String := none
  futs : Option String := none
  ret : Option (List Nat) := none
  nobuf : Bool := false
  wire : Option (Nat × Nat) := none
  crash : Option String := none
  bad : Option String := none

def parseRet (s : String) : Option (List Nat) :=
  if s = "-" then some [] else (s.splitOn ",").mapM (·.toNat?)

def parseObs (obs : List (List String)) : StepObs :=
  obs.foldl (fun o w =>
    match w with
    | ["sys", "none"] => o
    | ["sys", "send", l, "fail"] => match l.toNat? with
      | some l => { o with sys := o.sys ++ [.fail l] } | none => { o with bad := some "sys" }
    | ["sys", "send", l, r] => match l.toNat?, r.toNat? with
      | some l, some r => { o with sys := o.sys ++ [.sent l r] } | _, _ => { o with bad := some "sys" }
    | ["ev", "disconnect"] => { o with disconnect := true }
    | "ev" :: "data" :: _ => { o with data := true }
    | "throw" :: rest => { o with thrown := some (" ".intercalate rest) }
    | ["nobuf"] => { o with nobuf := true }
    | ["st", f, r] =>
      match parseRet (r.drop 4).toString with
      | some ids => { o with futs := some (f.drop 4).toString, ret := some ids }
      | none => { o with bad := some "st" }
    | ["wire", n, h] => match n.toNat?, h.toNat? with
      | some n, some h => { o with wire := some (n, h) } | _, _ => { o with bad := some "wire" }
    | "crash" :: rest => { o with crash := some (" ".intercalate rest) }
    | "hang" :: rest => { o with crash := some ("hang " ++ " ".intercalate rest) }
    | _ => { o with bad := some (" ".intercalate w) }) {}

/-! ## transcript lines -> typed observations (`AsyncQ.Obs`) -/

def StepObs.st (o : StepObs) : Option StObs :=
  match o.futs, o.ret with
  | some f, some r => some { futs := if f = "-" then "" else f, ret := r }
  | _, _ => none

/-- the typed observation of one operation line `w` with its observation lines `o` -/
def toObs (w : List String) (o : StepObs) : Obs :=
  if let some c := o.crash then .crash c else
  match w with
  | ["sock", n, _] => .sock (n.toNat?.getD 0)
  | ["send", id, size] =>
    match id.toNat?, size.toNat? with
    | some id, some size => if o.nobuf then .nobuf else .send id (content id size) o.st
    | _, _ => .malformed "bad send line"
  | "step" :: script => .step (script.head? == some "zero") o.sys o.data o.disconnect o.thrown o.st
  | ["drain"] => .drain o.wire
  | ["peerclose"] => .peerclose
  | ["destroy"] => .destroy o.st
  | _ => .external none

/-! ### multi-threaded runs: the property on the peer's byte stream -/

/-- parse `[0xF0|t, seq, lenLo, lenHi, body...]*`, checking per-thread order and contents -/
partial def parseStream (bs : Bytes) (next : List Nat) : Except String (List Nat) :=
  match bs with
  | [] => pure next
  | h :: s :: lo :: hi :: rest =>
    let t := h.toNat - 0xF0
    let n := lo.toNat + 256 * hi.toNat
    if h.toNat < 0xF0 ∨ t ≥ next.length then throw s!"stream: byte {h} where a buffer header was expected (a buffer was split, interleaved or lost)"
    else if next.getD t 0 ≠ s.toNat then throw s!"stream: thread {t} buffer {s} arrived where its buffer {next.getD t 0} was expected (per-thread order broken / duplicate / loss)"
    else if rest.length < n then throw s!"stream: buffer {t}/{s} truncated"
    else if rest.take n ≠ content (t * 64 + s.toNat) n then throw s!"stream: body of buffer {t}/{s} is not one contiguous copy"
    else parseStream (rest.drop n) (next.set t (s.toNat + 1))
  | _ => throw "stream: trailing partial header"

def specMt (w : List String) (obs : List (List String)) : Except String Unit := do
  match w with
  | "mt" :: th :: per :: _ =>
    let th := th.toNat?.getD 0
    let per := per.toNat?.getD 0
    for o in obs do
      match o with
      | ["mt", "stream", hex] =>
        match hexDecode hex with
        | some bs =>
          let next ← parseStream bs (List.replicate th 0)
          if next ≠ List.replicate th per then throw s!"stream: buffers per thread received {next}, expected {per} each (loss)"
        | none => throw "bad stream"
      | ["mt", "futs", l] =>
        if l.toList.any (fun c => c ≠ 'v' ∧ c ≠ '/') then throw s!"futures after the peer read everything: {l} (expected all v)"
      | ["mt", "back", a, b] =>
        if a ≠ b then throw s!"only {a} of {b} buffers are back in the pool after all futures resolved"
      | "crash" :: r => throw ("crash: " ++ " ".intercalate r)
      | "hang" :: r => throw ("hang: " ++ " ".intercalate r)
      | "throw" :: r => throw ("exception: " ++ " ".intercalate r)
      | _ => pure ()
    if ¬ obs.any (fun o => o.take 2 == ["mt", "stream"]) then throw "missing stream observation"
  | _ => pure ()

/-- parser state: the operation line being collected (line, words) with its observation lines (reversed) -/
structure PSt where
  cur : Option (String × List String) := none
  obs : List (List String) := []
  out : List (Option String × Obs) := []     -- reversed

def PSt.flush (p : PSt) : PSt :=
  match p.cur with
  | none => { p with obs := [] }
  | some (l, w) =>
    let obs := p.obs.reverse
    let item : Option String × Obs :=
      if w.head? == some "mt" then
        (none, .external (match specMt w obs with | .error m => some m | .ok _ => none))
      else (some l, toObs w (parseObs obs))
    { cur := none, obs := [], out := item :: p.out }

/-- one transcript block -> the labelled observations of `AsyncQ.specRunL` (an empty line ends the
observations of an operation; a crash / hang reported outside an operation is a failure of its own) -/
def items (body : List String) : List (Option String × Obs) :=
  let p := body.foldl (fun (p : PSt) l =>
    let w := words l
    if w.isEmpty then p.flush else
    match w with
    | "->" :: rest =>
      match p.cur with
      | some _ => { p with obs := rest :: p.obs }
      | none =>
        match rest with
        | "crash" :: x => { p with out := (none, .external (some ("crash: " ++ " ".intercalate x))) :: p.out }
        | "hang" :: x => { p with out := (none, .external (some ("hang: " ++ " ".intercalate x))) :: p.out }
        | _ => p
    | _ => { p.flush with cur := some (l, w) }) {}
  p.flush.out.reverse

/-! ## correspondence with `Model/AsyncQ.lean` -/

structure CSt where
  m : St := {}
  ids : List Nat := []
  poolN : Nat := 0
  drained : Nat := 0
  peerClosed : Bool := false
  tags : List String := []

def CSt.check (c : CSt) (o : StepObs) (l : String) : Option String :=
  match o.futs, o.ret with
  | some f, some r =>
    let f := if f = "-" then "" else f
    let mf := String.ofList (c.ids.map fun i => letter (c.m.fut i))
    if f ≠ mf then some s!"after '{l}': futures impl {f} model {mf}"
    else if ¬ sameSet r c.m.returned then some s!"after '{l}': returned buffers impl {r} model {c.m.returned}"
    else none
  | _, _ => some s!"after '{l}': missing state observation"

partial def corrPass (c : CSt) : List String → Verdict
  | [] => { tags := c.tags }
  | l :: rest =>
    let w := words l
    if w.isEmpty then corrPass c rest else
    match w with
    | "->" :: _ => corrPass c rest
    | _ =>
      let (obs, rest') := takeObs rest []
      let o := parseObs obs
      if w.head? == some "mt" then corrPass { c with tags := "mt" :: c.tags } rest' else
      if let some b := o.bad then Verdict.corr s!"after '{l}': unparsable observation {b}" c.tags else
      match w with
      | ["sock", n, _] => corrPass { c with poolN := n.toNat?.getD 0 } rest'
      | ["send", id, size] =>
        match id.toNat?, size.toNat? with
        | some id, some size =>
          if o.nobuf then
            if c.ids.length - c.m.returned.length ≠ c.poolN then
              Verdict.corr s!"after '{l}': pool refused a buffer with {c.ids.length - c.m.returned.length} of {c.poolN} outstanding" c.tags
            else corrPass { c with tags := "nobuf" :: c.tags } rest'
          else
            let tag := if c.m.q.isEmpty then "enq.empty" else "enq.nonempty"
            let tag2 := if c.m.registered then [] else ["arm.unregistered"]
            let m := mSend c.m id (content id size)
            let c := { c with m := m, ids := c.ids ++ [id], tags := tag :: tag2 ++ c.tags }
            match c.check o l with
            | some msg => Verdict.corr msg c.tags
            | none => corrPass c rest'
        | _, _ => Verdict.corr s!"bad line {l}" c.tags
      | "step" :: _ =>
        let enabled := c.m.registered ∧ c.m.armed ∧ ¬ c.m.destroyed
        let front := c.m.q.head?
        let r : Except String (St × List String) :=
          match o.sys with
          | [] =>
            -- the kernel may legitimately report "not writable" while accepted bytes are unread
            if enabled ∧ ¬ o.disconnect ∧ ¬ c.peerClosed ∧ c.m.wire.length = c.drained then
              .error "model: POLLOUT armed and the socket writable, impl made no send"
            else .ok (c.m, [])
          | [.sent len k] =>
            if ¬ enabled then .error "impl sent although the model has POLLOUT disarmed / socket unregistered"
            else match front with
              | none => .error "impl sent with an empty model queue"
              | some e =>
                if len ≠ e.rest.length then .error s!"impl offered {len} bytes, model's front buffer has {e.rest.length} unsent"
                else
                  let tag := if e.rest.length ≤ k then "w.full" else if k = 0 then "w.zero" else "w.partial"
                  let m1 := step c.m (.writable (.accept k))
                  let tag2 := if m1.drvDisarm then ["disarm"] else []
                  .ok (mWritable c.m (.accept k), tag :: tag2)
          | [.fail len] =>
            if ¬ enabled then .error "impl sent although the model has POLLOUT disarmed / socket unregistered"
            else match front with
              | none => .error "impl sent with an empty model queue"
              | some e =>
                if len ≠ e.rest.length then .error s!"impl offered {len} bytes, model's front buffer has {e.rest.length} unsent"
                else .ok (mWritable c.m .fail, ["w.fail"])
          | _ => .error "more than one send in a step"
        match r with
        | .error msg => Verdict.corr s!"after '{l}': {msg}" c.tags
        | .ok (m, tg) =>
          let m := if o.disconnect then step m .unregister else m
          let tg := if o.disconnect then "unregister" :: tg else tg
          let c := { c with m := m, tags := tg ++ c.tags }
          match c.check o l with
          | some msg => Verdict.corr msg c.tags
          | none => corrPass c rest'
      | ["drain"] =>
        match o.wire with
        | some (n, h) =>
          let seg := (c.m.wire.drop c.drained).take n
          if n ≠ seg.length ∨ h ≠ (fnv seg).toNat then
            Verdict.corr s!"after '{l}': peer read {n} bytes hash {h}, model wire continues with {(c.m.wire.drop c.drained).length} bytes (hash of that prefix {fnv seg})" c.tags
          else corrPass { c with drained := c.drained + n,
                                 tags := (if c.drained + n < c.m.wire.length then ["drain", "drain.lag"] else ["drain"]) ++ c.tags } rest'
        | none => Verdict.corr s!"after '{l}': missing wire observation" c.tags
      | ["peerclose"] => corrPass { c with peerClosed := true } rest'
      | ["destroy"] =>
        let tag := if c.m.q.isEmpty then "destroy.idle" else "destroy.pending"
        let c := { c with m := step c.m .destroy, tags := tag :: c.tags }
        match c.check o l with
        | some msg => Verdict.corr msg c.tags
        | none => corrPass c rest'
      | "mt" :: _ => corrPass { c with tags := "mt" :: c.tags } rest'
      | _ => Verdict.corr s!"unknown line {l}" c.tags

def runCase (body : List String) : Verdict :=
  match specRunL {} (items body) with
  | .error msg => Verdict.spec msg
  | .ok _ => corrPass {} body

end SockModel.Drive.C02

import SockModel.Drive.Uri
/-! Driver for C12 (text round-trip, canonical accessors, port fidelity): the shared URI driver in
fidelity mode - correspondence with `Model/Uri.lean` + no numeric service > 65535 reaches
`getaddrinfo`, `Port()` equals the numeric service, `Service()` is its decimal text, `to_string`
parses back to an equal Address, all spellings of a literal endpoint agree = `Uri.specStep .fidelity` of
`Spec/Uri.lean` (the driver holds no property clause). -/
namespace SockModel.Drive.C12
open SockModel.Drive

def runCase (body : List String) : Verdict := SockModel.Drive.Uri.runCase12 body

end SockModel.Drive.C12

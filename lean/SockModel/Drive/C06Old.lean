import SockModel.Drive.Common
import SockModel.Model.ToDos
import SockModel.Spec.C06
/-! Driver for C06 (and the `Step` half of C07): validates ToDo/Step transcripts
against `Model/ToDos.lean` and evaluates the property on the observations. -/
namespace SockModel.Drive.C06Old
open SockModel SockModel.Drive SockModel.ToDos SockModel.Deadline

def parseBodyOp (tok : String) : Option BodyOp :=
  match tok.splitOn ":" with
  | ["shift", id, w] => do pure (.shift (← id.toNat?) (← w.toInt?))
  | ["shiftd", id, ms] => do pure (.shiftd (← id.toNat?) (← ms.toInt?))
  | ["cancel", id] => do pure (.cancel (← id.toNat?))
  | ["newat", id, w] => do pure (.newAt (← id.toNat?) (← w.toInt?))
  | ["newin", id, ms] => do pure (.newIn (← id.toNat?) (← ms.toInt?))
  | ["drop", id] => do pure (.drop (← id.toNat?))
  | ["adv", ns] => do pure (.adv (← ns.toNat?))
  | ["stop"] => some .stop
  | _ => none

def parseBody (toks : List String) : Option (List BodyOp) := toks.mapM parseBodyOp

def parseOp (w : List String) : Option Op :=
  match w with
  | "new" :: id :: "at" :: t :: body => do pure (.new (← id.toNat?) (← t.toInt?) (← parseBody body))
  | "newin" :: id :: ms :: body => do pure (.newIn (← id.toNat?) (← ms.toInt?) (← parseBody body))
  | "newidle" :: id :: body => do pure (.newIdle (← id.toNat?) (← parseBody body))
  | ["shift", id, t] => do pure (.call (.shift (← id.toNat?) (← t.toInt?)))
  | ["shiftd", id, ms] => do pure (.call (.shiftd (← id.toNat?) (← ms.toInt?)))
  | ["cancel", id] => do pure (.call (.cancel (← id.toNat?)))
  | ["drop", id] => do pure (.call (.drop (← id.toNat?)))
  | ["stop"] => some (.call .stop)
  | ["clock", ns] => do pure (.clock (← ns.toInt?))
  | ["step", ms] => do pure (.step (← ms.toInt?))
  | _ => none

/-- observable events of the model since `oldLen` (oldest first) -/
def newEvents (s : St) (oldLen : Nat) : List String :=
  ((s.log.take (s.log.length - oldLen)).reverse).map fun
    | .ran id _ now _ _ => s!"ran {id} {now}"
    | .poll ms => s!"poll {ms}"
    | .fuel => "fuel"

/-- drop the clock annotation of a `poll ms at` observation for the comparison with the model's events -/
def normObs (o : List String) : String :=
  match o with
  | ["poll", ms, _] => s!"poll {ms}"
  | _ => " ".intercalate o

/-! The property on observations only (`Spec.C06`): a reference scheduler state that knows nothing
about the deque - a bag of (id, due, sequence number) - is maintained from the op lines and from
the bodies of the tasks the implementation reports as run. -/
/- the reference scheduler itself lives in `Spec/C06.lean` (namespace `RefSched`), together with the
theorem that it accepts every run of the model (`model_accepted`) -/
open SockModel.ToDos.RefSched

structure DSt where
  m : St := {}
  sp : SpSt := {}
  tags : List String := []

/-- split the observation lines that follow an op -/
def takeObs : List String → List (List String) → List (List String) × List String
  | [], acc => (acc.reverse, [])
  | l :: rest, acc =>
    match obs? l with
    | some w => takeObs rest (w :: acc)
    | none => (acc.reverse, l :: rest)

/-- spec check of one step's observations (`stepStart` = clock at the call) -/
def specStep (sp : SpSt) (t : Int) (obs : List (List String)) : Except String (SpSt × List String) := do
  -- the clock is observed (begin / ran / poll / end carry the virtual time), never simulated here
  let start ← match obs with
    | ["begin", n] :: _ => match n.toInt? with | some n => pure n | none => throw "bad begin"
    | _ => throw "missing begin observation"
  if start < sp.now then throw "clock went backwards"
  let dueAtStart := sp.pend.any (fun p => p.when ≤ start)
  let mut sp := { sp with now := start }
  let mut pollAt : Int := start
  let mut ranCount := 0
  let mut polls : List Int := []
  let mut tags : List String := []
  for o in obs do
    match o with
    | ["ran", id, now] =>
      match id.toNat?, now.toInt? with
      | some id, some now =>
        if polls ≠ [] then throw "task invoked after the socket wait of the same step"
        sp ← sp.ran id now
        ranCount := ranCount + 1
      | _, _ => throw "bad ran observation"
    | ["poll", ms, atNs] =>
      match ms.toInt?, atNs.toInt? with
      | some ms, some atNs => polls := polls ++ [ms]; pollAt := atNs
      | _, _ => throw "bad poll observation"
    | ["end", n] =>
      match n.toInt? with
      | some n =>
        if n < sp.now then throw "clock went backwards"
        -- C07: Step(T >= 0) blocks no longer than T in total (virtual time spent outside tasks is the poll)
        sp := { sp with now := n }
      | none => throw "bad end"
    | "crash" :: w => throw ("crash: " ++ " ".intercalate w)
    | "hang" :: w => throw ("hang: " ++ " ".intercalate w)
    | _ => pure ()
  -- promptness: a step that starts at/after the due time of some pending task runs at least one
  if dueAtStart ∧ ranCount = 0 then throw s!"step at {start} ran nothing although a task was due"
  match polls with
  | [ms] =>
    -- C07: bounded by T from above; never sleeps past the earliest pending ToDo; full wait when idle
    if t ≥ 0 ∧ (ms < 0 ∨ ms > t) then throw s!"step({t}) waits {ms} ms for sockets: not bounded by its timeout"
    let earliest := sp.pend.foldl (fun (acc : Option Int) p => match acc with
      | none => some p.when | some a => some (min a p.when)) none
    match earliest with
    | some w =>
      if ms < 0 then throw s!"step waits without limit although a ToDo is due at {w}"
      if w > pollAt ∧ pollAt + ms * nsPerMs > w then
        throw s!"step sleeps {ms} ms from {pollAt}, past the due time {w} of the earliest pending ToDo"
      tags := "wait.todo" :: tags
    | none =>
      if ranCount = 0 ∧ ms ≠ t ∧ ¬ (t < 0 ∧ ms < 0) then throw s!"idle step({t}) waits {ms} ms instead of the full timeout"
      tags := "wait.full" :: tags
    pure (sp, tags)
  | _ => throw s!"expected exactly one socket wait per step, saw {polls.length}"

partial def go (clamp : Bool) (d : DSt) : List String → Verdict
  | [] => { tags := d.tags }
  | l :: rest =>
    let w := words l
    if w.isEmpty then go clamp d rest else
    match parseOp w with
    | none =>
      match w with
      | "->" :: "crash" :: x => Verdict.spec ("crash: " ++ " ".intercalate x) d.tags
      | "->" :: "hang" :: x => Verdict.spec ("hang: " ++ " ".intercalate x) d.tags
      | _ => Verdict.corr s!"unknown line {l}" d.tags
    | some op =>
      let (obs, rest') := takeObs rest []
      let oldLen := d.m.log.length
      let m' := userOp clamp 10000 d.m op
      let expect := newEvents m' oldLen
      let got := (obs.filter (fun o => o.head? == some "ran" ∨ o.head? == some "poll")).map normObs
      let endOk := match obs.find? (fun o => o.head? == some "end") with
        | some ["end", n] => n.toInt? == some m'.now
        | _ => true
      -- direct property check on the observations
      let specRes : Except String (SpSt × List String) :=
        match op with
        | .step t => specStep d.sp t obs
        | _ =>
          match obs.find? (fun o => o.head? == some "crash" ∨ o.head? == some "hang" ∨ o.head? == some "ran") with
          | some o => .error ("unexpected observation outside a step: " ++ " ".intercalate o)
          | none => .ok (d.sp.user op, [])
      match specRes with
      | .error msg => Verdict.spec msg d.tags
      | .ok (sp', tg) =>
        if expect ≠ got then
          Verdict.corr s!"after '{l}': model {expect} impl {got}" d.tags
        else if !endOk then
          Verdict.corr s!"after '{l}': clock at the end of the step differs from the model ({m'.now})" d.tags
        else
          let tag := match op with
            | .step t => if t < 0 then "step.unlimited" else if t = 0 then "step.zero" else "step.limited"
            | .call (.shift ..) => "shift" | .call (.shiftd ..) => "shiftd" | .call (.cancel ..) => "cancel"
            | .call (.drop ..) => "drop" | .call .stop => "stop" | .new .. => "new" | .newIn .. => "newin"
            | .newIdle .. => "newidle" | .clock .. => "clock" | _ => "other"
          let tag2 := if expect.any (·.startsWith "ran") then ["ran"] else []
          go clamp { m := m', sp := sp', tags := tag :: tag2 ++ tg ++ d.tags } rest'

def runCase (body : List String) : Verdict := go true {} body
/-- the pre-F6 model (`ToMsec` narrows to 32 bits) -/
def runCaseLegacy (body : List String) : Verdict := go false {} body

end SockModel.Drive.C06Old

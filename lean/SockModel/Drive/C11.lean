import SockModel.Drive.Uri
/-! Driver for C11 (Address construction is total): the shared URI driver in totality mode -
correspondence with `Model/Uri.lean` + "a value or a std::exception, never a crash / signal /
hang" on the observations = `Uri.specStep .totality` of `Spec/Uri.lean` (the driver holds no property clause). -/
namespace SockModel.Drive.C11
open SockModel.Drive

def runCase (body : List String) : Verdict := SockModel.Drive.Uri.runCase11 body

end SockModel.Drive.C11

import SockModel.Drive.Common
import SockModel.Drive.C02
import SockModel.Model.Dispatch
/-! Driver for C03: validates async-event transcripts (`harness/scen/async_events.cpp`) against
`Model/Dispatch.lean` (correspondence; the chunk sizes the implementation received are the model's
segmentation oracle, validated to lie in `1..rxBufSize`) and evaluates the property directly on
the observations (reference bookkeeping per connection: stream sent, bytes delivered, closed,
disconnected; per acceptor: connections waiting). -/
namespace SockModel.Drive.C03
open SockModel SockModel.Drive SockModel.Dispatch
open SockModel.AsyncQ (Bytes fnv)
open SockModel.Drive.C02 (takeObs)

def pat (id j : Nat) : UInt8 := UInt8.ofNat ((id * 37 + j * 11 + (j / 251) * 3 + 1) % 256)
def segment (id off len : Nat) : Bytes := (List.range len).map (fun j => pat id (off + j))

def noLimit : Nat := 2 ^ 30

/-- reference bookkeeping of one connection (observations only) -/
structure SConn where
  i : Nat
  stream : Bytes := []
  delivered : Nat := 0
  ended : Bool := false
  registered : Bool := false      -- the library has an async socket for it
  gone : Bool := false            -- disconnected or destroyed: no handler may run any more
  rx : Nat := 1
  deriving Repr

structure SAcc where
  a : Nat
  waiting : List Nat := []
  gone : Bool := false
  deriving Repr

structure CSt where
  m : St := {}
  ids : List (Nat × Nat) := []          -- harness ordinal ↦ model id
  rx : Nat := 64
  arm : List (Nat × Nat) := []          -- harness ordinal ↦ queued sends
  onev : List (Nat × Nat) := []
  conns : List SConn := []
  accs : List SAcc := []
  corrFail : Option String := none     -- first correspondence failure (the scan goes on looking for a property failure)
  tags : List String := []

def lookup {α} (l : List (Nat × α)) (k : Nat) : Option α := (l.find? (·.1 = k)).map (·.2)
def CSt.idOf (c : CSt) (i : Nat) : Nat := (lookup c.ids i).getD 99999
def CSt.ordOf (c : CSt) (id : Nat) : Nat := ((c.ids.find? (·.2 = id)).map (·.1)).getD 99999
def CSt.conn (c : CSt) (i : Nat) : Option SConn := c.conns.find? (·.i = i)
def CSt.setConn (c : CSt) (k : SConn) : CSt :=
  { c with conns := if c.conns.any (·.i = k.i) then c.conns.map (fun x => if x.i = k.i then k else x) else c.conns ++ [k] }
def CSt.acc (c : CSt) (a : Nat) : Option SAcc := c.accs.find? (·.a = a)
def CSt.setAcc (c : CSt) (k : SAcc) : CSt :=
  { c with accs := if c.accs.any (·.a = k.a) then c.accs.map (fun x => if x.a = k.a then k else x) else c.accs ++ [k] }
def CSt.effRx (c : CSt) : Nat := if c.rx = 0 then noLimit else c.rx

/-- is anything owed to a live socket (reference view)? -/
def CSt.owed (c : CSt) : Option String :=
  match c.conns.find? (fun k => k.registered ∧ ¬ k.gone ∧ (k.delivered < k.stream.length ∨ k.ended)) with
  | some k => some s!"connection {k.i} has {k.stream.length - k.delivered} undelivered byte(s){if k.ended then " and an unreported close" else ""}"
  | none =>
    match c.accs.find? (fun a => ¬ a.gone ∧ ¬ a.waiting.isEmpty) with
    | some a => some s!"acceptor {a.a} has {a.waiting.length} unreported connection(s)"
    | none =>
      match c.arm.find? (fun (i, n) => decide (n > 0) && (match c.conn i with | some k => k.registered && !k.gone | none => false)) with
      | some (i, _) => some s!"socket {i} has a queued send"
      | none => none

def renderEvent (c : CSt) : Event → String
  | .data s b _ => s!"data {c.ordOf s} {b.length} {fnv b}"
  | .disconnect s a r => s!"disconnect {c.ordOf s} {a} {match r with | .eof => "eof" | .fail => "fail" | .poll => "poll"} reg=0"
  | .connect a k addr => s!"connect {c.ordOf a} {c.ordOf k} {addr}"

/-- mark sockets destroyed (by the user, possibly inside a handler) in the reference bookkeeping -/
def CSt.markDestroyed (c : CSt) (j : Nat) : CSt :=
  let c := match c.conn j with
    | some k => if k.registered then c.setConn { k with gone := true } else c
    | none => c
  match c.acc j with
  | some a => c.setAcc { a with gone := true }
  | none => c

partial def go (c : CSt) : List String → Verdict
  | [] => match c.corrFail with | some m => Verdict.corr m c.tags | none => { tags := c.tags }
  | l :: rest =>
    let w := words l
    if w.isEmpty then go c rest else
    match w with
    | "->" :: "crash" :: x => Verdict.spec ("crash: " ++ " ".intercalate x) c.tags
    | "->" :: "hang" :: x => Verdict.spec ("hang: " ++ " ".intercalate x) c.tags
    | "->" :: _ => go c rest
    | _ =>
      let (obs, rest') := takeObs rest []
      match obs.find? (fun o => o.head? == some "crash" ∨ o.head? == some "hang") with
      | some o => Verdict.spec s!"after '{l}': {" ".intercalate o}" c.tags
      | none =>
      match obs.find? (fun o => o.take 2 == ["throw", "harness"]) with
      | some o => Verdict.corr s!"after '{l}': {" ".intercalate o}" c.tags
      | none =>
      let nonStepObs := w.head? != some "step" ∧ obs.any (fun o => o.head? == some "ev" ∨ o.head? == some "throw")
      if nonStepObs then Verdict.spec s!"after '{l}': a handler ran / an exception escaped outside Step" c.tags else
      match w with
      | ["rx", _, size] => go { c with rx := size.toNat?.getD 64 } rest'
      | ["client", i] =>
        let i := i.toNat?.getD 0
        let id := c.m.nextId
        let c := { c with m := apply Consts.dispatchOrder c.m (.newClient i c.effRx), ids := c.ids ++ [(i, id)], tags := "client" :: c.tags }
        go (c.setConn { i := i, registered := true, rx := c.effRx }) rest'
      | ["acceptor", a] =>
        let a := a.toNat?.getD 0
        let id := c.m.nextId
        let c := { c with m := apply Consts.dispatchOrder c.m .newAcceptor, ids := c.ids ++ [(a, id)], tags := "acceptor" :: c.tags }
        go (c.setAcc { a := a }) rest'
      | ["pconnect", a, i] =>
        let a := a.toNat?.getD 0
        let i := i.toNat?.getD 0
        let id := c.m.nextId
        let c := { c with m := apply Consts.dispatchOrder c.m (.peerConnect (c.idOf a) i), ids := c.ids ++ [(i, id)], tags := "pconnect" :: c.tags }
        let c := match c.acc a with | some k => c.setAcc { k with waiting := k.waiting ++ [i] } | none => c
        go (c.setConn { i := i }) rest'
      | ["send", i, len] =>
        let i := i.toNat?.getD 0
        let len := len.toNat?.getD 0
        match c.conn i with
        | none => Verdict.corr s!"send on unknown connection {i}" c.tags
        | some k =>
          let bytes := segment i k.stream.length len
          let c := c.setConn { k with stream := k.stream ++ bytes }
          go { c with m := apply Consts.dispatchOrder c.m (.peerSend (c.idOf i) bytes), tags := "send" :: c.tags } rest'
      | ["onev", i, j] => go { c with onev := c.onev ++ [(i.toNat?.getD 0, j.toNat?.getD 0)] } rest'
      | "step" :: mode =>
        let evs := obs.filter (fun o => o.head? == some "ev" ∧ o.getD 1 "" ≠ "destroyed")
        let destroyed := (obs.filter (fun o => o.take 2 == ["ev", "destroyed"])).filterMap (fun o => (o.getD 2 "").toNat?)
        let sys := obs.filter (fun o => o.head? == some "sys")
        match obs.find? (fun o => o.head? == some "throw") with
        | some o => Verdict.spec s!"after '{l}': Step threw: {" ".intercalate (o.drop 1)}" c.tags
        | none =>
        if evs.length + sys.length > 1 then Verdict.spec s!"after '{l}': more than one socket task in one step ({evs.length} handler calls, {sys.length} sends)" c.tags else
        match evs.find? (fun o => o.getLast? != some "t=1") with
        | some o => Verdict.spec s!"after '{l}': handler ran on a thread other than the one executing Step: {" ".intercalate o}" c.tags
        | none =>
        -- 1. the property on the observations
        let specRes : Except String (CSt × Nat × String) :=
          match evs with
          | [] =>
            if sys.isEmpty then
              match c.owed with
              | some what => .error s!"Step did nothing although {what}"
              | none => .ok (c, 0, "step.idle")
            else .ok (c, 0, "step.send")
          | [["ev", "data", i, len, hash, _]] =>
            match i.toNat?, len.toNat? with
            | some i, some len =>
              match c.conn i with
              | none => .error s!"receive handler for unknown socket {i}"
              | some k =>
                if k.gone then .error s!"receive handler of socket {i} ran after its disconnect / destruction"
                else if len = 0 then .error s!"receive handler of socket {i} got an empty chunk"
                else if len > k.rx then .error s!"receive handler of socket {i} got {len} bytes, more than its buffer size {k.rx}"
                else
                  let want := (k.stream.drop k.delivered).take len
                  if want.length ≠ len ∨ hash ≠ toString (fnv want) then
                    .error s!"receive handler of socket {i} got {len} bytes (hash {hash}) that are not the next bytes the peer sent (offset {k.delivered} of {k.stream.length})"
                  else .ok (c.setConn { k with delivered := k.delivered + len }, len, if len = k.rx then "data.full" else "data")
            | _, _ => .error "bad data event"
          | [["ev", "disconnect", i, addr, reason, _, _]] =>
            match i.toNat? with
            | some i =>
              match c.conn i with
              | none => .error s!"disconnect handler for unknown socket {i}"
              | some k =>
                if k.gone then .error s!"disconnect handler of socket {i} ran a second time / after destruction"
                else if ¬ k.ended then .error s!"disconnect handler of socket {i} ran ({reason}) although the peer neither closed nor reset"
                else if k.delivered ≠ k.stream.length then
                  .error s!"disconnect handler of socket {i} ran with {k.stream.length - k.delivered} byte(s) the peer sent before closing still undelivered"
                else if addr ≠ toString i then .error s!"disconnect handler of socket {i} got address {addr}, the socket was created for {i}"
                else .ok (c.setConn { k with gone := true }, 0, "disconnect." ++ reason)
            | none => .error "bad disconnect event"
          | [["ev", "connect", a, sockOrd, addr, _]] =>
            match a.toNat? with
            | some a =>
              match c.acc a with
              | none => .error s!"connect handler for unknown acceptor {a}"
              | some k =>
                if k.gone then .error s!"connect handler of acceptor {a} ran after its destruction"
                else match k.waiting with
                  | [] => .error s!"connect handler of acceptor {a} ran although no connection is waiting (duplicate)"
                  | i :: more =>
                    if addr ≠ toString i then .error s!"connect handler of acceptor {a} reports peer {addr}, the next established connection is {i}"
                    else if sockOrd ≠ toString i ∧ ¬ (sockOrd = "?unusable" ∧ ((c.conn i).map (·.ended)).getD false) then
                      .error s!"connect handler of acceptor {a}: the socket handed over is connected to {sockOrd}, not to {i}"
                    else
                      let c := c.setAcc { k with waiting := more }
                      let c := match c.conn i with | some x => c.setConn { x with registered := true, rx := c.effRx } | none => c
                      .ok (c, 0, "connect")
            | none => .error "bad connect event"
          | o => .error s!"unparsable events {o}"
        match specRes with
        | .error msg => Verdict.spec s!"after '{l}': {msg}" c.tags
        | .ok (c, chunk, tag) =>
          let c := destroyed.foldl (fun c j => c.markDestroyed j) c
          -- 2. correspondence with the model
          let hdl := destroyed.map c.idOf
          let before := c.m.log.length
          let task := firstTask Consts.dispatchOrder c.m c.m.socks
          let m' := apply Consts.dispatchOrder c.m (.step false chunk c.effRx hdl)
          let newEvents := (m'.log.drop before).map (renderEvent c)
          let gotEvents := evs.map fun o =>
            -- the socket handed to the connect handler was judged above; the model has (connection, address)
            match o with
            | ["ev", "connect", a, _, addr, _] => s!"connect {a} {addr} {addr}"
            | _ => " ".intercalate ((o.drop 1).dropLast)
          let wroteModel : Bool := match task with | some (_, .writable) => true | _ => false
          let wroteModelOrd := match task with | some (k, .writable) => c.ordOf k.id | _ => 0
          let wroteImpl := match sys with | [["sys", "send", i, _, _]] => some (i.toNat?.getD 0) | _ => none
          let corr : Option String :=
            if newEvents ≠ gotEvents then
              some s!"after '{l}': handler calls impl {gotEvents} model {newEvents}"
            else if wroteModel != wroteImpl.isSome || (wroteModel && wroteImpl != some wroteModelOrd) then
              some s!"after '{l}': writable task impl {repr wroteImpl} model {wroteModel} (socket {wroteModelOrd})"
            else none
          let c := if c.corrFail.isNone then { c with corrFail := corr } else c
          (
            -- queued sends: one is consumed by a writable task; re-arm if more are queued
            let (m'', arm') : St × List (Nat × Nat) := match wroteImpl with
              | some i =>
                let n := (lookup c.arm i).getD 0
                let arm' : List (Nat × Nat) := (c.arm.filter (fun x => x.1 ≠ i)) ++ [(i, n - 1)]
                (if n - 1 > 0 then apply Consts.dispatchOrder m' (.wantSend (c.idOf i)) else m', arm')
              | none => (m', c.arm)
            -- the handlers configured to destroy: consumed when the handler of that socket ran
            let ranOn : Option Nat := match evs with
              | [o] => (o.getD 2 "").toNat?
              | _ => none
            let onev' : List (Nat × Nat) := match ranOn with | some i => c.onev.filter (fun x => x.1 ≠ i) | none => c.onev
            let tags := (if mode == ["thread"] then ["step.thread"] else []) ++
                        (if destroyed.isEmpty then [] else ["handler.destroys"]) ++ [tag] ++ c.tags
            go { c with m := m'', arm := arm', onev := onev', tags := tags } rest')
      | [op, i] =>
        let i := i.toNat?.getD 0
        if op = "close" ∨ op = "rst" then
          match c.conn i with
          | none => Verdict.corr s!"close of unknown connection {i}" c.tags
          | some k =>
            let c := c.setConn { k with ended := true }
            go { c with m := apply Consts.dispatchOrder c.m (if op = "rst" then .peerRst (c.idOf i) else .peerClose (c.idOf i)),
                        tags := op :: c.tags } rest'
        else if op = "arm" then
          let n := (lookup c.arm i).getD 0
          let live : Bool := match c.conn i with | some k => k.registered && !k.gone | none => false
          let tag := if live then "arm" else "arm.unregistered"
          go { c with m := apply Consts.dispatchOrder c.m (.wantSend (c.idOf i)),
                      arm := (c.arm.filter (·.1 ≠ i)) ++ [(i, n + 1)], tags := tag :: c.tags } rest'
        else if op = "destroy" then
          let c := c.markDestroyed i
          go { c with m := apply Consts.dispatchOrder c.m (.destroy (c.idOf i)), tags := "destroy" :: c.tags } rest'
        else if op = "step" then Verdict.corr s!"bad step line {l}" c.tags
        else Verdict.corr s!"unknown line {l}" c.tags
      | _ => Verdict.corr s!"unknown line {l}" c.tags

def runCase (body : List String) : Verdict := go {} body

end SockModel.Drive.C03

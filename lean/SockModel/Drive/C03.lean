import SockModel.Drive.Common
import SockModel.Drive.C02
import SockModel.Model.Dispatch
import SockModel.Spec.C03
/-! Driver for C03: validates async-event transcripts (`harness/scen/async_events.cpp`) against
`Model/Dispatch.lean` (correspondence; the chunk sizes the implementation received are the model's
segmentation oracle, validated to lie in `1..rxBufSize`) and evaluates the property directly on
the observations: every op line with its observation lines is parsed into ONE typed observation
`Spec.Obs` and handed to `Spec.specStep` of `Spec/C03.lean` - the predicate that is proved there to
accept every trace of the model (`model_satisfies_spec`).  No property clause is evaluated here; only
`crash` / `hang` lines (the generic "never crashes" clause of the framework) are turned into `spec`
verdicts directly. -/
namespace SockModel.Drive.C03
open SockModel SockModel.Drive SockModel.Dispatch
open SockModel.AsyncQ (Bytes)
open SockModel.Drive.C02 (takeObs)
open SockModel.Dispatch.Spec

/-- the hash of `Spec/C03.lean` is the one the other drivers use -/
example : @Spec.fnv = @SockModel.AsyncQ.fnv := rfl

def pat (id j : Nat) : UInt8 := UInt8.ofNat ((id * 37 + j * 11 + (j / 251) * 3 + 1) % 256)
def segment (id off len : Nat) : Bytes := (List.range len).map (fun j => pat id (off + j))

def noLimit : Nat := 2 ^ 30

structure CSt where
  m : St := {}
  ids : List (Nat × Nat) := []          -- harness ordinal ↦ model id
  rx : Nat := 64
  onev : List (Nat × Nat) := []
  sp : SpecSt := {}                    -- the observer's book-keeping of `Spec/C03.lean` (observations only, no model state)
  corrFail : Option String := none     -- first correspondence failure (the scan goes on looking for a property failure)
  tags : List String := []

def CSt.idOf (c : CSt) (i : Nat) : Nat := (lookup c.ids i).getD 99999
def CSt.ordOf (c : CSt) (id : Nat) : Nat := ((c.ids.find? (·.2 = id)).map (·.1)).getD 99999
def CSt.effRx (c : CSt) : Nat := if c.rx = 0 then noLimit else c.rx

def renderEvent (c : CSt) : Event → String
  | .data s b _ => s!"data {c.ordOf s} {b.length} {fnv b}"
  | .disconnect s a r => s!"disconnect {c.ordOf s} {a} {match r with | .eof => "eof" | .fail => "fail" | .poll => "poll"} reg=0"
  | .connect a k addr => s!"connect {c.ordOf a} {c.ordOf k} {addr}"

/-! ### parsing of observation lines into the typed observations of `Spec/C03.lean` -/

/-- a number exactly as printed, or the text -/
def tok (s : String) : Tok :=
  match s.toNat? with
  | some n => if toString n == s then .ord n else .other s
  | none => .other s

/-- one `ev ...` line (words) -/
def parseEv (o : List String) : Ev :=
  match o with
  | ["ev", "data", i, len, hash, _] =>
    match i.toNat?, len.toNat? with
    | some i, some len => .data i len (tok hash)
    | _, _ => .bad "bad data event"
  | ["ev", "disconnect", i, addr, reason, _, _] =>
    match i.toNat? with
    | some i => .disconnect i (tok addr) reason
    | none => .bad "bad disconnect event"
  | ["ev", "connect", a, sockOrd, addr, _] =>
    match a.toNat? with
    | some a => .connect a (tok sockOrd) (tok addr)
    | none => .bad "bad connect event"
  | o => .bad s!"unparsable events {[o]}"

/-- the observations following a `step` line -/
def parseStep (rx : Nat) (obs : List (List String)) : StepObs :=
  let evs := obs.filter (fun o => o.head? == some "ev" ∧ o.getD 1 "" ≠ "destroyed")
  { rx := rx
    threw := (obs.find? (fun o => o.head? == some "throw")).map (fun o => " ".intercalate (o.drop 1))
    evs := evs.map (fun o => { ev := parseEv o, onStepThread := o.getLast? == some "t=1", text := " ".intercalate o })
    sends := (obs.filter (fun o => o.head? == some "sys")).map fun o =>
      match o with
      | ["sys", "send", i, _, _] => some (i.toNat?.getD 0)
      | _ => none
    destroyed := (obs.filter (fun o => o.take 2 == ["ev", "destroyed"])).filterMap (fun o => (o.getD 2 "").toNat?) }

/-- branch tag of a step (evidence only) -/
def stepTag (sp : SpecSt) (o : StepObs) : String :=
  match o.evs with
  | [] => if o.sends.isEmpty then "step.idle" else "step.send"
  | e :: _ =>
    match e.ev with
    | .data i len _ => if (sp.conn i).map (·.rx) == some len then "data.full" else "data"
    | .disconnect _ _ reason => "disconnect." ++ reason
    | .connect _ _ _ => "connect"
    | .bad _ => "?"

/-- the chunk size the implementation received (the model's segmentation oracle) -/
def stepChunk (o : StepObs) : Nat :=
  match o.evs with
  | [e] => match e.ev with | .data _ len _ => len | _ => 0
  | _ => 0

partial def go (c : CSt) : List String → Verdict
  | [] => match c.corrFail with | some m => Verdict.corr m c.tags | none => { tags := c.tags }
  | l :: rest =>
    let w := words l
    if w.isEmpty then go c rest else
    match w with
    | "->" :: "crash" :: x => Verdict.spec ("crash: " ++ " ".intercalate x) c.tags
    | "->" :: "hang" :: x => Verdict.spec ("hang: " ++ " ".intercalate x) c.tags
    | "->" :: _ => go c rest
    | _ =>
      let (obs, rest') := takeObs rest []
      match obs.find? (fun o => o.head? == some "crash" ∨ o.head? == some "hang") with
      | some o => Verdict.spec s!"after '{l}': {" ".intercalate o}" c.tags
      | none =>
      match obs.find? (fun o => o.take 2 == ["throw", "harness"]) with
      | some o => Verdict.corr s!"after '{l}': {" ".intercalate o}" c.tags
      | none =>
      -- the property: feed one typed observation to `Spec.specStep`; a rejection is the verdict
      let feed (c : CSt) (o : Obs) (k : CSt → Verdict) : Verdict :=
        match specStep c.sp o with
        | .error msg => Verdict.spec s!"after '{l}': {msg}" c.tags
        | .ok sp => k { c with sp := sp }
      let nonStepObs := w.head? != some "step" ∧ obs.any (fun o => o.head? == some "ev" ∨ o.head? == some "throw")
      if nonStepObs then feed c .outside (fun c => go c rest') else
      match w with
      | ["rx", _, size] => go { c with rx := size.toNat?.getD 64 } rest'
      | ["client", i] =>
        let i := i.toNat?.getD 0
        let id := c.m.nextId
        let c := { c with m := apply Consts.dispatchOrder c.m (.newClient i c.effRx), ids := c.ids ++ [(i, id)], tags := "client" :: c.tags }
        feed c (.client i (.ord i) c.effRx) (fun c => go c rest')
      | ["acceptor", a] =>
        let a := a.toNat?.getD 0
        let id := c.m.nextId
        let c := { c with m := apply Consts.dispatchOrder c.m .newAcceptor, ids := c.ids ++ [(a, id)], tags := "acceptor" :: c.tags }
        feed c (.acceptor a) (fun c => go c rest')
      | ["pconnect", a, i] =>
        let a := a.toNat?.getD 0
        let i := i.toNat?.getD 0
        let id := c.m.nextId
        let c := { c with m := apply Consts.dispatchOrder c.m (.peerConnect (c.idOf a) i), ids := c.ids ++ [(i, id)], tags := "pconnect" :: c.tags }
        feed c (.pconnect a i (.ord i)) (fun c => go c rest')
      | ["send", i, len] =>
        let i := i.toNat?.getD 0
        let len := len.toNat?.getD 0
        match c.sp.conn i with
        | none => Verdict.corr s!"send on unknown connection {i}" c.tags
        | some k =>
          let bytes := segment i k.stream.length len
          feed c (.send i bytes) fun c =>
            go { c with m := apply Consts.dispatchOrder c.m (.peerSend (c.idOf i) bytes), tags := "send" :: c.tags } rest'
      | ["onev", i, j] => go { c with onev := c.onev ++ [(i.toNat?.getD 0, j.toNat?.getD 0)] } rest'
      | "step" :: mode =>
        let evs := obs.filter (fun o => o.head? == some "ev" ∧ o.getD 1 "" ≠ "destroyed")
        let so := parseStep c.effRx obs
        -- 1. the property on the observations
        let sp0 := c.sp
        feed c (.step so) fun c =>
          let chunk := stepChunk so
          let tag := stepTag sp0 so
          -- 2. correspondence with the model
          let hdl := so.destroyed.map c.idOf
          let before := c.m.log.length
          let task := firstTask Consts.dispatchOrder c.m c.m.socks
          let m' := apply Consts.dispatchOrder c.m (.step false chunk c.effRx hdl)
          let newEvents := (m'.log.drop before).map (renderEvent c)
          let gotEvents := evs.map fun o =>
            -- the socket handed to the connect handler was judged above; the model has (connection, address)
            match o with
            | ["ev", "connect", a, _, addr, _] => s!"connect {a} {addr} {addr}"
            | _ => " ".intercalate ((o.drop 1).dropLast)
          let wroteModel : Bool := match task with | some (_, .writable) => true | _ => false
          let wroteModelOrd := match task with | some (k, .writable) => c.ordOf k.id | _ => 0
          let wroteImpl := match so.sends with | [some i] => some i | _ => none
          let corr : Option String :=
            if newEvents ≠ gotEvents then
              some s!"after '{l}': handler calls impl {gotEvents} model {newEvents}"
            else if wroteModel != wroteImpl.isSome || (wroteModel && wroteImpl != some wroteModelOrd) then
              some s!"after '{l}': writable task impl {repr wroteImpl} model {wroteModel} (socket {wroteModelOrd})"
            else none
          let c := if c.corrFail.isNone then { c with corrFail := corr } else c
          -- queued sends: one was consumed by a writable task (`SpecSt.wrote`); re-arm the model if more are queued
          let m'' : St := match wroteImpl with
            | some i => if (lookup sp0.arm i).getD 0 - 1 > 0 then apply Consts.dispatchOrder m' (.wantSend (c.idOf i)) else m'
            | none => m'
          -- the handlers configured to destroy: consumed when the handler of that socket ran
          let ranOn : Option Nat := match evs with
            | [o] => (o.getD 2 "").toNat?
            | _ => none
          let onev' : List (Nat × Nat) := match ranOn with | some i => c.onev.filter (fun x => x.1 ≠ i) | none => c.onev
          let tags := (if mode == ["thread"] then ["step.thread"] else []) ++
                      (if so.destroyed.isEmpty then [] else ["handler.destroys"]) ++ [tag] ++ c.tags
          go { c with m := m'', onev := onev', tags := tags } rest'
      | [op, i] =>
        let i := i.toNat?.getD 0
        if op = "close" ∨ op = "rst" then
          match c.sp.conn i with
          | none => Verdict.corr s!"close of unknown connection {i}" c.tags
          | some _ =>
            feed c (.close i) fun c =>
              go { c with m := apply Consts.dispatchOrder c.m (if op = "rst" then .peerRst (c.idOf i) else .peerClose (c.idOf i)),
                          tags := op :: c.tags } rest'
        else if op = "arm" then
          let tag := if c.sp.live i then "arm" else "arm.unregistered"
          feed c (.arm i) fun c =>
            go { c with m := apply Consts.dispatchOrder c.m (.wantSend (c.idOf i)), tags := tag :: c.tags } rest'
        else if op = "destroy" then
          feed c (.destroy i) fun c =>
            go { c with m := apply Consts.dispatchOrder c.m (.destroy (c.idOf i)), tags := "destroy" :: c.tags } rest'
        else if op = "step" then Verdict.corr s!"bad step line {l}" c.tags
        else Verdict.corr s!"unknown line {l}" c.tags
      | _ => Verdict.corr s!"unknown line {l}" c.tags

def runCase (body : List String) : Verdict := go {} body

end SockModel.Drive.C03

import SockModel.Drive.Common
import SockModel.Model.ToDos
import SockModel.Spec.C06
import SockModel.Spec.C07
/-! Driver for C06 (and the `Step` half of C07): validates ToDo/Step transcripts
against `Model/ToDos.lean` (correspondence) and evaluates the property on the observations: every line is
parsed into a typed `Spec.C07.Step.Obs` and judged by `Spec.C07.Step.specStep` (which uses the reference
scheduler of `Spec/C06.lean`); this file contains no property clause. -/
namespace SockModel.Drive.C06
open SockModel SockModel.Drive SockModel.ToDos SockModel.Deadline

def parseBodyOp (tok : String) : Option BodyOp :=
  match tok.splitOn ":" with
  | ["shift", id, w] => do pure (.shift (← id.toNat?) (← w.toInt?))
  | ["shiftd", id, ms] => do pure (.shiftd (← id.toNat?) (← ms.toInt?))
  | ["cancel", id] => do pure (.cancel (← id.toNat?))
  | ["newat", id, w] => do pure (.newAt (← id.toNat?) (← w.toInt?))
  | ["newin", id, ms] => do pure (.newIn (← id.toNat?) (← ms.toInt?))
  | ["drop", id] => do pure (.drop (← id.toNat?))
  | ["adv", ns] => do pure (.adv (← ns.toNat?))
  | ["stop"] => some .stop
  | _ => none

def parseBody (toks : List String) : Option (List BodyOp) := toks.mapM parseBodyOp

def parseOp (w : List String) : Option Op :=
  match w with
  | "new" :: id :: "at" :: t :: body => do pure (.new (← id.toNat?) (← t.toInt?) (← parseBody body))
  | "newin" :: id :: ms :: body => do pure (.newIn (← id.toNat?) (← ms.toInt?) (← parseBody body))
  | "newidle" :: id :: body => do pure (.newIdle (← id.toNat?) (← parseBody body))
  | ["shift", id, t] => do pure (.call (.shift (← id.toNat?) (← t.toInt?)))
  | ["shiftd", id, ms] => do pure (.call (.shiftd (← id.toNat?) (← ms.toInt?)))
  | ["cancel", id] => do pure (.call (.cancel (← id.toNat?)))
  | ["drop", id] => do pure (.call (.drop (← id.toNat?)))
  | ["stop"] => some (.call .stop)
  | ["clock", ns] => do pure (.clock (← ns.toInt?))
  | ["step", ms] => do pure (.step (← ms.toInt?))
  | _ => none

/-- observable events of the model since `oldLen` (oldest first) -/
def newEvents (s : St) (oldLen : Nat) : List String :=
  ((s.log.take (s.log.length - oldLen)).reverse).map fun
    | .ran id _ now _ _ => s!"ran {id} {now}"
    | .poll ms => s!"poll {ms}"
    | .fuel => "fuel"

/-- drop the clock annotation of a `poll ms at` observation for the comparison with the model's events -/
def normObs (o : List String) : String :=
  match o with
  | ["poll", ms, _] => s!"poll {ms}"
  | _ => " ".intercalate o

/-! The property on observations only (`Spec.C06`): a reference scheduler state that knows nothing
about the deque - a bag of (id, due, sequence number) - is maintained from the op lines and from
the bodies of the tasks the implementation reports as run. -/
/- the reference scheduler itself lives in `Spec/C06.lean` (namespace `RefSched`), together with the
theorem that it accepts every run of the model (`model_accepted`) -/
open SockModel.ToDos.RefSched

structure DSt where
  m : St := {}
  sp : SpSt := {}
  tags : List String := []

/-- split the observation lines that follow an op -/
def takeObs : List String → List (List String) → List (List String) × List String
  | [], acc => (acc.reverse, [])
  | l :: rest, acc =>
    match obs? l with
    | some w => takeObs rest (w :: acc)
    | none => (acc.reverse, l :: rest)

/-- one `-> ...` line as a typed observation of `Spec.C07.Step` (the clock is observed - begin / ran / poll / end
carry the virtual time - never simulated here) -/
def toItem (o : List String) : Spec.C07.Step.Item :=
  match o with
  | ["begin", n] => .begin n.toInt?
  | ["ran", id, now] => .ran id.toNat? now.toInt?
  | ["poll", ms, atNs] => .poll ms.toInt? atNs.toInt?
  | ["end", n] => .fin n.toInt?
  | "crash" :: w => .crash (" ".intercalate w)
  | "hang" :: w => .hang (" ".intercalate w)
  | _ => .other

/-- an op line with the observation lines that followed it as one typed observation: the property predicate
is `Spec.C07.Step.specStep` (C07 clauses of the socket wait, promptness, and the reference scheduler
`Spec.C06` for every task invocation) - nothing of it is in this file -/
def toObs (op : Op) (obs : List (List String)) : Spec.C07.Step.Obs :=
  match op with
  | .step t => .step t (obs.map toItem)
  | _ =>
    .user op ((obs.find? (fun o => o.head? == some "crash" ∨ o.head? == some "hang" ∨ o.head? == some "ran")).map
      (" ".intercalate ·))

partial def go (clamp : Bool) (d : DSt) : List String → Verdict
  | [] => { tags := d.tags }
  | l :: rest =>
    let w := words l
    if w.isEmpty then go clamp d rest else
    match parseOp w with
    | none =>
      match w with
      | "->" :: "crash" :: x =>
        match Spec.C07.Step.specStep d.sp (.abort ("crash: " ++ " ".intercalate x)) with
        | .error m => Verdict.spec m d.tags
        | .ok _ => Verdict.corr "unreachable" d.tags
      | "->" :: "hang" :: x =>
        match Spec.C07.Step.specStep d.sp (.abort ("hang: " ++ " ".intercalate x)) with
        | .error m => Verdict.spec m d.tags
        | .ok _ => Verdict.corr "unreachable" d.tags
      | _ => Verdict.corr s!"unknown line {l}" d.tags
    | some op =>
      let (obs, rest') := takeObs rest []
      let oldLen := d.m.log.length
      let m' := userOp clamp 10000 d.m op
      let expect := newEvents m' oldLen
      let got := (obs.filter (fun o => o.head? == some "ran" ∨ o.head? == some "poll")).map normObs
      let endOk := match obs.find? (fun o => o.head? == some "end") with
        | some ["end", n] => n.toInt? == some m'.now
        | _ => true
      -- direct property check on the observations
      match Spec.C07.Step.specStep d.sp (toObs op obs) with
      | .error msg => Verdict.spec msg d.tags
      | .ok (sp', tg) =>
        if expect ≠ got then
          Verdict.corr s!"after '{l}': model {expect} impl {got}" d.tags
        else if !endOk then
          Verdict.corr s!"after '{l}': clock at the end of the step differs from the model ({m'.now})" d.tags
        else
          let tag := match op with
            | .step t => if t < 0 then "step.unlimited" else if t = 0 then "step.zero" else "step.limited"
            | .call (.shift ..) => "shift" | .call (.shiftd ..) => "shiftd" | .call (.cancel ..) => "cancel"
            | .call (.drop ..) => "drop" | .call .stop => "stop" | .new .. => "new" | .newIn .. => "newin"
            | .newIdle .. => "newidle" | .clock .. => "clock" | _ => "other"
          let tag2 := if expect.any (·.startsWith "ran") then ["ran"] else []
          go clamp { m := m', sp := sp', tags := tag :: tag2 ++ tg ++ d.tags } rest'

def runCase (body : List String) : Verdict := go true {} body
/-- the pre-F6 model (`ToMsec` narrows to 32 bits) -/
def runCaseLegacy (body : List String) : Verdict := go false {} body

end SockModel.Drive.C06

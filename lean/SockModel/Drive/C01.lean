import SockModel.Drive.Common
import SockModel.Model.SendLoop
/-! Driver for C01 / C07 / C16 (blocking socket layer): trace validation.  The harness reports
every intercepted system call on the socket under test with its result (`-> sys ...`); the driver
feeds exactly those answers to the model operation and requires the model to make the same calls
with the same arguments and to return the same result (correspondence).  The property predicates
are evaluated on the observations alone. -/
namespace SockModel.Drive.C01
open SockModel SockModel.Drive SockModel.SendLoop SockModel.Deadline

def genByte (seed j : Nat) : UInt8 := UInt8.ofNat ((seed * 131 + j * 7 + (j / 256) * 13 + 1) % 256)
def genBytes (seed len : Nat) : Bytes := (List.range len).map (genByte seed)

def fnvStep (h : UInt64) (b : UInt8) : UInt64 := (h ^^^ b.toUInt64) * 1099511628211
def fnvInit : UInt64 := 1469598103934665603
def fnvHex (h : UInt64) : String :=
  let n := h.toNat
  String.ofList ((List.range 16).reverse.map fun i => hexDigit ((n / 16 ^ i) % 16))
def fnv (bs : Bytes) : String := fnvHex (bs.foldl fnvStep fnvInit)

inductive SysObs where
  | poll (t : Int) (a : PollAns)
  | send (len : Nat) (a : SendAns) (nosignal : Bool)
  | recv (size : Nat) (kind : String) (n : Nat)    -- kind: got / eof / fail

structure St where
  wireLen : Nat := 0
  wireHash : UInt64 := fnvInit
  peerPending : Bytes := []      -- bytes the peer sent that the SUT has not received yet
  peerClosed : Bool := false
  dgrams : List Bytes := []      -- datagrams the peer sent, not yet received
  lastSent : Option Bytes := none -- last datagram handed to sendto (for `precv`)
  tags : List String := []

def parseAns (s : String) : Option (String × Nat) :=
  match s.splitOn ":" with
  | [k] => some (k, 0)
  | [k, n] => n.toNat?.map fun n => (k, n)
  | _ => none

def parseSys (w : List String) : Option SysObs :=
  match w with
  | ["sys", "poll", t, ans, adv] => do
    let t ← t.toInt?
    let adv ← adv.toNat?
    let (k, e) ← parseAns ans
    match k with
    | "ready" => some (.poll t (.ready adv))
    | "timeout" => some (.poll t .timedOut)
    | "eintr" => some (.poll t (.eintr adv))
    | "fail" => some (.poll t (.fail e))
    | _ => none
  | "sys" :: "send" :: len :: ans :: rest => do
    let len ← len.toNat?
    let (k, n) ← parseAns ans
    let nosig := !(rest.contains "NOSIGNAL-MISSING")
    match k with
    | "acc" => some (.send len (.accept n) nosig)
    | "fail" => some (.send len (.fail n) nosig)
    | _ => none
  | ["sys", "recv", size, ans] => do
    let size ← size.toNat?
    let (k, n) ← parseAns ans
    some (.recv size k n)
  | _ => none

/-- split the observation lines following an op into system calls and the rest -/
def takeObs : List String → List SysObs → List (List String) → (List SysObs × List (List String) × List String)
  | [], sys, other => (sys.reverse, other.reverse, [])
  | l :: rest, sys, other =>
    match obs? l with
    | some w =>
      match parseSys w with
      | some s => takeObs rest (s :: sys) other
      | none => takeObs rest sys (w :: other)
    | none => (sys.reverse, other.reverse, l :: rest)

def callsOf (sys : List SysObs) : List Call :=
  sys.map fun
    | .poll t _ => .poll t
    | .send len _ _ => .send len []
    | .recv size _ _ => .recv size

def normCalls (cs : List Call) : List Call :=
  cs.map fun | .send len _ => .send len [] | c => c

def pollAdv (sys : List SysObs) : Nat :=
  sys.foldl (fun acc s => match s with
    | .poll t (.ready d) => if t ≥ 0 ∧ (d : Int) > t then acc + t.toNat else acc + d
    | .poll t (.eintr d) => if t ≥ 0 ∧ (d : Int) > t then acc + t.toNat else acc + d
    | .poll t .timedOut => if t > 0 then acc + t.toNat else acc
    | _ => acc) 0

/-- C07/C16 on observations: the poll timeouts the library passed, against the operation's timeout -/
def specTimeouts (T : Int) (sys : List SysObs) (nothing : Bool) : Option String := Id.run do
  let mut elapsed : Int := 0
  for s in sys do
    match s with
    | .poll t a =>
      if T < 0 ∧ t ≥ 0 then return some s!"unlimited operation issued a poll with timeout {t}"
      if T = 0 ∧ t ≠ 0 then return some s!"zero-timeout operation issued a poll with timeout {t} (blocks)"
      if T > 0 ∧ (t < 0 ∨ t > T - elapsed) then
        return some s!"operation with timeout {T} issued poll({t}) after {elapsed} ms: over budget"
      match a with
      | .ready d => elapsed := elapsed + (if t ≥ 0 ∧ (d : Int) > t then t else d)
      | .eintr d => elapsed := elapsed + (if t ≥ 0 ∧ (d : Int) > t then t else d)
      | .timedOut => elapsed := elapsed + (if t > 0 then t else 0)
      | .fail _ => pure ()
    | _ => pure ()
  if T < 0 ∧ nothing then return some "operation with unlimited timeout returned 'nothing'"
  if T > 0 ∧ nothing ∧ elapsed < T then return some s!"returned 'nothing' after {elapsed} ms, earlier than its timeout {T}"
  if T > 0 ∧ elapsed > T then return some s!"blocked {elapsed} ms in total, longer than its timeout {T}"
  if T = 0 ∧ elapsed ≠ 0 then return some "zero-timeout operation let time pass"
  return none

def hasEintr (sys : List SysObs) : Bool := sys.any fun | .poll _ (.eintr _) => true | _ => false
def hasPollFail (sys : List SysObs) : Bool := sys.any fun | .poll _ (.fail _) => true | _ => false
def hasIoFail (sys : List SysObs) : Bool :=
  sys.any fun | .send _ (.fail _) _ => true | .recv _ "fail" _ => true | _ => false

def resStr {α} (f : α → String) : Res α → String
  | .ok v => "ret " ++ f v
  | .exn (.system e) => s!"throw system {e}"
  | .exn .logic => "throw logic"
  | .exn .closed => "throw closed"
  | .exn .exhausted => "model-script-exhausted"

def mkOs (sys : List SysObs) (recvBytes : List Bytes) : Os :=
  let polls := sys.filterMap fun | .poll _ a => some a | _ => none
  let sends := sys.filterMap fun | .send _ a _ => some a | _ => none
  let rk : List (String × Nat) := sys.filterMap fun | .recv _ k n => some (k, n) | _ => none
  let recvs : List RecvAns := rk.zipIdx.map fun ((k, n), i) =>
    if k == "got" then RecvAns.got ((recvBytes.getD i []).take n)
    else if k == "eof" then RecvAns.eof
    else RecvAns.fail n
  { polls := polls, sends := sends, recvs := recvs, now := 0, calls := [] }

structure Mode where
  c01 : Bool
  c07 : Bool
  c16 : Bool

partial def go (md : Mode) (s : St) : List String → Verdict
  | [] => { tags := s.tags }
  | l :: rest =>
    let w := words l
    if w.isEmpty then go md s rest else
    let (sys, other, rest') := takeObs rest [] []
    let crash := other.find? (fun o => o.head? == some "crash" ∨ o.head? == some "hang" ∨ o.head? == some "setup-failed")
    match crash with
    | some o => Verdict.spec (" ".intercalate o) s.tags
    | none =>
    let retLine := other.find? (fun o => o.head? == some "ret" ∨ o.head? == some "throw")
    let nosigBad := sys.any fun | .send _ _ ns => !ns | _ => false
    if nosigBad then Verdict.spec "a send() without MSG_NOSIGNAL" s.tags else
    match w with
    | ["send", len, seed, T] =>
      match len.toNat?, seed.toNat?, T.toInt?, retLine with
      | some len, some seed, some T, some ret =>
        let data := genBytes seed len
        let os := mkOs sys []
        let (r, os') := send data T os
        let exp := resStr toString r
        let got := " ".intercalate ret
        let accepted := (wire os').length
        let s' := { s with wireLen := s.wireLen + accepted,
                           wireHash := (data.take accepted).foldl fnvStep s.wireHash,
                           tags := (if T < 0 then "send.all" else if T = 0 then "send.try" else "send.some") ::
                                   (if hasEintr sys then ["eintr"] else []) ++
                                   (if sys.any (fun | .send l (.accept k) _ => k < l | _ => false) then ["short-write"] else []) ++
                                   (if ret.head? == some "throw" then ["send.throw"] else []) ++ s.tags }
        -- property on observations
        let obsAcc := sys.foldl (fun a x => match x with | .send _ (.accept k) _ => a + k | _ => a) 0
        let specMsg : Option String :=
          match ret with
          | ["ret", n] =>
            match n.toNat? with
            | some n =>
              if md.c01 ∧ n > len then some s!"Send returned {n} > size {len}"
              else if md.c01 ∧ T < 0 ∧ n ≠ len then some s!"Send with unlimited timeout returned {n} of {len}"
              else if md.c01 ∧ n ≠ obsAcc then some s!"Send returned {n} but the OS accepted {obsAcc} bytes"
              else if md.c07 ∨ (md.c16 ∧ hasEintr sys) then specTimeouts T sys (n < len ∧ T > 0 ∧ false) else none
            | none => some "bad ret"
          | "throw" :: _ =>
            if (md.c16 ∨ md.c01) ∧ hasEintr sys ∧ !hasPollFail sys ∧ !hasIoFail sys ∧ ret != ["throw", "logic"] then
              some s!"a signal made Send fail: {got}"
            else if md.c01 ∧ !hasPollFail sys ∧ !hasIoFail sys ∧ ret != ["throw", "logic"] then
              some s!"Send threw although no system call failed: {got}"
            else none
          | _ => some "missing result"
        match specMsg with
        | some m => Verdict.spec m s'.tags
        | none =>
          if exp ≠ got then Verdict.corr s!"'{l}': model {exp}, impl {got}" s'.tags
          else if normCalls os'.calls.reverse ≠ callsOf sys then
            Verdict.corr s!"'{l}': system calls differ from the model's" s'.tags
          else if ¬ (os'.polls.isEmpty ∧ os'.sends.isEmpty) then
            Verdict.corr s!"'{l}': implementation made more system calls than the model" s'.tags
          else go md s' rest'
      | _, _, _, _ => Verdict.corr s!"bad send op or missing result: {l}" s.tags
    | ["psend", len, seed] =>
      match len.toNat?, seed.toNat? with
      | some len, some seed => go md { s with peerPending := s.peerPending ++ genBytes seed len, tags := "psend" :: s.tags } rest'
      | _, _ => Verdict.corr s!"bad line {l}"
    | ["pclose"] => go md { s with peerClosed := true, tags := "pclose" :: s.tags } rest'
    | ["pshutwr"] => go md { s with peerClosed := true, tags := "pshutwr" :: s.tags } rest'
    | ["prst"] => go md { s with peerClosed := true, peerPending := [], tags := "prst" :: s.tags } rest'
    | ["recv", size, T] =>
      match size.toNat?, T.toInt?, retLine with
      | some size, some T, some ret =>
        let os := mkOs sys [s.peerPending]
        let (r, os') := receive size T os
        let exp := match r with
          | .ok none => "ret none"
          | .ok (some bs) => s!"ret {bs.length} {fnv bs}"
          | .exn e => resStr (fun (_ : Unit) => "") (.exn e)
        let got := " ".intercalate ret
        let k := match r with | .ok (some bs) => bs.length | _ => 0
        let s' := { s with peerPending := s.peerPending.drop k,
                           tags := (if T < 0 then "recv.unl" else if T = 0 then "recv.zero" else "recv.lim") ::
                                   (if hasEintr sys then ["eintr"] else []) ++
                                   (match ret with | ["ret", "none"] => ["recv.none"] | "throw" :: _ => ["recv.throw"] | _ => ["recv.value"]) ++ s.tags }
        let specMsg : Option String :=
          match ret with
          | ["ret", "none"] =>
            if md.c07 ∨ (md.c16 ∧ hasEintr sys) then specTimeouts T sys true else none
          | ["ret", n, h] =>
            match n.toNat? with
            | some n =>
              if md.c01 ∧ (n = 0 ∨ n > size) then some s!"Receive reported {n} bytes for a buffer of {size}"
              else if md.c01 ∧ (n > s.peerPending.length ∨ fnv (s.peerPending.take n) ≠ h) then
                some "Receive delivered bytes that are not the next bytes of the peer's stream"
              else if md.c07 ∨ (md.c16 ∧ hasEintr sys) then specTimeouts T sys false else none
            | none => some "bad ret"
          | ["throw", "closed"] =>
            if md.c01 ∧ !s.peerPending.isEmpty ∧ s.tags.contains "pclose" ∧ !s.tags.contains "prst" then
              some s!"closure reported while {s.peerPending.length} bytes sent before the close were not delivered"
            else if md.c01 ∧ !s.peerClosed then some "closure reported although the peer did not close"
            else none
          | "throw" :: _ =>
            if (md.c16 ∨ md.c01) ∧ hasEintr sys ∧ !hasPollFail sys ∧ !hasIoFail sys then some s!"a signal made Receive fail: {got}"
            else none
          | _ => some "missing result"
        match specMsg with
        | some m => Verdict.spec m s'.tags
        | none =>
          if exp ≠ got then Verdict.corr s!"'{l}': model {exp}, impl {got}" s'.tags
          else if normCalls os'.calls.reverse ≠ callsOf sys then Verdict.corr s!"'{l}': system calls differ from the model's" s'.tags
          else if ¬ (os'.polls.isEmpty ∧ os'.recvs.isEmpty) then Verdict.corr s!"'{l}': implementation made more system calls than the model" s'.tags
          else go md s' rest'
      | _, _, _ => Verdict.corr s!"bad recv op or missing result: {l}" s.tags
    | ["sync"] =>
      match other.find? (fun o => o.head? == some "peer") with
      | some ["peer", n, h] =>
        if md.c01 ∧ (n.toNat? ≠ some s.wireLen ∨ h ≠ fnvHex s.wireHash) then
          Verdict.spec s!"peer obtained {n} bytes (hash {h}); the Send calls account for {s.wireLen} bytes (hash {fnvHex s.wireHash})" s.tags
        else go md { s with tags := "sync" :: s.tags } rest'
      | _ => Verdict.corr "missing peer observation" s.tags
    | ["sendto", len, seed, T] =>
      match len.toNat?, seed.toNat?, T.toInt?, retLine with
      | some len, some seed, some T, some ret =>
        let data := genBytes seed len
        let os := mkOs sys []
        let (r, os') := sendTo data T os
        let exp := resStr toString r
        let got := " ".intercalate ret
        let s' := { s with lastSent := (match r with | .ok n => if n = len ∧ (len > 0 ∨ sys.any (fun | .send .. => true | _ => false)) then some data else none | _ => none),
                           tags := "sendto" :: (if hasEintr sys then ["eintr"] else []) ++ s.tags }
        let specMsg : Option String :=
          match ret with
          | ["ret", n] =>
            match n.toNat? with
            | some n =>
              if md.c01 ∧ n ≠ len ∧ n ≠ 0 then some s!"SendTo returned a partial count {n} of {len}"
              else if md.c01 ∧ n = 0 ∧ len > 0 ∧ T < 0 then some "SendTo with unlimited timeout returned 0"
              else if md.c07 ∨ (md.c16 ∧ hasEintr sys) then
                specTimeouts T sys (n = 0 ∧ len > 0 ∧ !(sys.any fun | .send .. => true | _ => false))
              else none
            | none => some "bad ret"
          | "throw" :: _ =>
            if (md.c16 ∨ md.c01) ∧ hasEintr sys ∧ !hasPollFail sys ∧ !hasIoFail sys ∧ ret != ["throw", "logic"] then
              some s!"a signal made SendTo fail: {got}" else none
          | _ => some "missing result"
        match specMsg with
        | some m => Verdict.spec m s'.tags
        | none =>
          if exp ≠ got then Verdict.corr s!"'{l}': model {exp}, impl {got}" s'.tags
          else if normCalls os'.calls.reverse ≠ callsOf sys then Verdict.corr s!"'{l}': system calls differ from the model's" s'.tags
          else go md s' rest'
      | _, _, _, _ => Verdict.corr s!"bad sendto op or missing result: {l}" s.tags
    | ["precv"] =>
      match other.find? (fun o => o.head? == some "pgot"), s.lastSent with
      | some ["pgot", n, h], some d =>
        if md.c01 ∧ (n.toNat? ≠ some d.length ∨ h ≠ fnv d) then Verdict.spec "peer obtained a datagram different from the one sent" s.tags
        else go md { s with lastSent := none } rest'
      | _, _ => go md s rest'
    | ["pdgram", len, seed] =>
      match len.toNat?, seed.toNat? with
      | some len, some seed => go md { s with dgrams := s.dgrams ++ [genBytes seed len], tags := "pdgram" :: s.tags } rest'
      | _, _ => Verdict.corr s!"bad line {l}"
    | ["recvfrom", size, T] =>
      match size.toNat?, T.toInt?, retLine with
      | some size, some T, some ret =>
        let dg := s.dgrams.headD []
        let os := mkOs sys [dg]
        let (r, os') := receiveFrom size T os
        let consumed := sys.any fun | .recv _ "got" _ => true | _ => false
        let exp := match r with
          | .ok none => "ret none"
          | .ok (some bs) => s!"ret {bs.length} {fnv bs}"
          | .exn e => resStr (fun (_ : Unit) => "") (.exn e)
        let got := " ".intercalate ret
        let s' := { s with dgrams := if consumed then s.dgrams.drop 1 else s.dgrams,
                           tags := "recvfrom" :: (if hasEintr sys then ["eintr"] else []) ++
                             (match ret with | ["ret", "none"] => ["recv.none"] | _ => []) ++ s.tags }
        let specMsg : Option String :=
          match ret with
          | ["ret", "none"] => if md.c07 ∨ (md.c16 ∧ hasEintr sys) then specTimeouts T sys true else none
          | ["ret", n, h] =>
            if md.c01 ∧ (n.toNat? ≠ some (min size dg.length) ∨ h ≠ fnv (dg.take size)) then
              some "ReceiveFrom reported a payload that is not the (prefix of the) datagram sent"
            else if md.c07 ∨ (md.c16 ∧ hasEintr sys) then specTimeouts T sys false else none
          | "throw" :: _ =>
            if (md.c16 ∨ md.c01) ∧ hasEintr sys ∧ !hasPollFail sys ∧ !hasIoFail sys then some s!"a signal made ReceiveFrom fail: {got}" else none
          | _ => some "missing result"
        match specMsg with
        | some m => Verdict.spec m s'.tags
        | none =>
          if exp ≠ got then Verdict.corr s!"'{l}': model {exp}, impl {got}" s'.tags
          else if normCalls os'.calls.reverse ≠ callsOf sys then Verdict.corr s!"'{l}': system calls differ from the model's" s'.tags
          else go md s' rest'
      | _, _, _ => Verdict.corr s!"bad recvfrom op or missing result: {l}" s.tags
    | ["listen", T] =>
      match T.toInt?, retLine with
      | some T, some ret =>
        let os := mkOs sys [[1]]
        let (r, os') := acceptT T os
        let exp := match r with
          | .ok none => "ret none"
          | .ok (some _) => "ret 1"
          | .exn e => resStr (fun (_ : Unit) => "") (.exn e)
        let got := " ".intercalate ret
        let s' := { s with tags := "listen" :: (if hasEintr sys then ["eintr"] else []) ++
                             (match ret with | ["ret", "none"] => ["recv.none"] | _ => []) ++ s.tags }
        let specMsg : Option String :=
          match ret with
          | ["ret", "none"] => if md.c07 ∨ (md.c16 ∧ hasEintr sys) then specTimeouts T sys true else none
          | ["ret", _] => if md.c07 ∨ (md.c16 ∧ hasEintr sys) then specTimeouts T sys false else none
          | "throw" :: _ =>
            if (md.c16 ∨ md.c01) ∧ hasEintr sys ∧ !hasPollFail sys ∧ !hasIoFail sys then some s!"a signal made Listen fail: {got}" else none
          | _ => some "missing result"
        match specMsg with
        | some m => Verdict.spec m s'.tags
        | none =>
          if exp ≠ got then Verdict.corr s!"'{l}': model {exp}, impl {got}" s'.tags
          else if normCalls os'.calls.reverse ≠ callsOf sys then Verdict.corr s!"'{l}': system calls differ from the model's" s'.tags
          else go md s' rest'
      | _, _ => Verdict.corr s!"bad listen op or missing result: {l}" s.tags
    | "tcp" :: _ => go md { s with tags := ("tcp." ++ w.getD 1 "" ++ "." ++ w.getD 2 "" ++ "." ++ w.getD 3 "") :: s.tags } rest'
    | "udp" :: _ => go md { s with tags := ("udp." ++ w.getD 1 "" ++ "." ++ w.getD 2 "") :: s.tags } rest'
    | "acceptor" :: _ => go md s rest'
    | "os" :: _ => go md s rest'
    | "pconnect" :: _ => go md s rest'
    | "now" :: _ => go md s rest'
    | "->" :: "crash" :: x => Verdict.spec ("crash: " ++ " ".intercalate x) s.tags
    | "->" :: "hang" :: x => Verdict.spec ("hang: " ++ " ".intercalate x) s.tags
    | _ => Verdict.corr s!"unknown line {l}" s.tags

/-! ### Driver::Step under injected EINTR (transcripts of harness scen/todos.cpp, no ToDos pending) -/

partial def goStep (tags : List String) : List String → Verdict
  | [] => { tags := tags }
  | l :: rest =>
    match words l with
    | ["step", T] =>
      match T.toInt? with
      | none => Verdict.corr s!"bad line {l}"
      | some T =>
        let obsLines := (rest.takeWhile (fun x => (obs? x).isSome)).filterMap obs?
        let rest' := rest.dropWhile (fun x => (obs? x).isSome)
        match obsLines.find? (fun o => o.head? == some "crash" ∨ o.head? == some "hang" ∨ o.head? == some "throw") with
        | some o => Verdict.spec ("a signal made Step fail: " ++ " ".intercalate o) tags
        | none =>
        let polls : List (Int × PollAns) := obsLines.filterMap fun o =>
          match o with
          | ["poll", ms, _, res, adv] =>
            match ms.toInt?, adv.toNat? with
            | some ms, some adv =>
              some (ms, if res == "eintr" then PollAns.eintr adv else if res == "timeout" then PollAns.timedOut else PollAns.ready adv)
            | _, _ => none
          | _ => none
        let beginT := (obsLines.find? (fun o => o.head? == some "begin")).bind fun o => (o.getD 1 "").toInt?
        let endT := (obsLines.find? (fun o => o.head? == some "end")).bind fun o => (o.getD 1 "").toInt?
        let os : Os := { polls := polls.map (·.2) }
        let (r, os') := wait T os
        let hadEintr := polls.any fun p => match p.2 with | .eintr _ => true | _ => false
        -- property: the step keeps waiting within its timeout semantics
        let specMsg : Option String :=
          match specTimeouts T (polls.map fun p => SysObs.poll p.1 p.2) (match r with | .ok false => true | _ => false) with
          | some m => some m
          | none =>
            match beginT, endT with
            | some b, some e =>
              if T > 0 ∧ polls.all (fun p => match p.2 with | .ready _ => false | _ => true) ∧ e - b < T * nsPerMs then
                some s!"Step({T}) returned after {(e - b) / nsPerMs} ms although nothing happened (a signal cut the wait short)"
              else none
            | _, _ => some "missing begin/end"
        match specMsg with
        | some m => Verdict.spec m tags
        | none =>
          if pollArgs os' ≠ polls.map (·.1) then Verdict.corr s!"'{l}': poll timeouts {polls.map (·.1)} differ from the model's {pollArgs os'}" tags
          else if !os'.polls.isEmpty then Verdict.corr s!"'{l}': implementation issued more polls than the model" tags
          else goStep ((if hadEintr then ["eintr", "step.eintr"] else ["step"]) ++ tags) rest'
    | _ => goStep tags rest

def runCaseC16step (body : List String) : Verdict := { (goStep [] body) with }

def runCaseC01 (body : List String) : Verdict := go { c01 := true, c07 := false, c16 := false } {} body
def runCaseC07 (body : List String) : Verdict := go { c01 := false, c07 := true, c16 := false } {} body
def runCaseC16 (body : List String) : Verdict := go { c01 := false, c07 := false, c16 := true } {} body

end SockModel.Drive.C01

import SockModel.Drive.Common
import SockModel.Model.SendLoop
import SockModel.Spec.C01
import SockModel.Spec.C16
/-! Driver for C01 / C07 / C16 (blocking socket layer): trace validation.  The harness reports
every intercepted system call on the socket under test with its result (`-> sys ...`); the driver
feeds exactly those answers to the model operation and requires the model to make the same calls
with the same arguments and to return the same result (correspondence).  The property predicates
are evaluated on the observations alone.

No property predicate is in this file: every transcript block is parsed into one typed `Spec.C01.Obs`
and judged by `Spec.C01.specStep` (mode C01), `Spec.C07.specStepM` with the mode flag c07 (mode C07s:
`Spec.C07.specStep`) or c16 (mode C16: `Spec.C16.specStep`); a `Step` under injected EINTR (mode C16step) is
parsed into a `Spec.C16.StepObs` and judged by `Spec.C16.specStepE`.  All of them are proved to accept every
trace of the model (`model_satisfies_spec` in `Spec/C01.lean`, `Spec/C07.lean`, `Spec/C16.lean`).  What stays
here: parsing, the correspondence pass, the tags. -/
namespace SockModel.Drive.C01
open SockModel SockModel.Drive SockModel.SendLoop SockModel.Deadline
open SockModel.Spec.C01 (RecvObs SysObs Thrown Tok Ret OpObs Obs SpecSt fnv fnvHex fnvStep fnvInit
  hasEintr hasPollFail hasIoFail anySend anyRecvGot nosigBad isShort specStep)

def genByte (seed j : Nat) : UInt8 := UInt8.ofNat ((seed * 131 + j * 7 + (j / 256) * 13 + 1) % 256)
def genBytes (seed len : Nat) : Bytes := (List.range len).map (genByte seed)


structure St where
  spec : SpecSt := {}             -- the observer's book-keeping of `Spec.C01` (mode C01 only)
  peerPending : Bytes := []       -- correspondence: bytes the peer sent that the model has not received yet
  dgrams : List Bytes := []       -- correspondence: datagrams the peer sent, not yet received by the model
  tags : List String := []

def parseAns (s : String) : Option (String × Nat) :=
  match s.splitOn ":" with
  | [k] => some (k, 0)
  | [k, n] => n.toNat?.map fun n => (k, n)
  | _ => none

def parseSys (w : List String) : Option SysObs :=
  match w with
  | ["sys", "poll", t, ans, adv] => do
    let t ← t.toInt?
    let adv ← adv.toNat?
    let (k, e) ← parseAns ans
    match k with
    | "ready" => some (.poll t (.ready adv))
    | "timeout" => some (.poll t .timedOut)
    | "eintr" => some (.poll t (.eintr adv))
    | "fail" => some (.poll t (.fail e))
    | _ => none
  | "sys" :: "send" :: len :: ans :: rest => do
    let len ← len.toNat?
    let (k, n) ← parseAns ans
    let nosig := !(rest.contains "NOSIGNAL-MISSING")
    match k with
    | "acc" => some (.send len (.accept n) nosig)
    | "fail" => some (.send len (.fail n) nosig)
    | _ => none
  | ["sys", "recv", size, ans] => do
    let size ← size.toNat?
    let (k, n) ← parseAns ans
    match k with
    | "got" => some (.recv size (.got n))
    | "eof" => some (.recv size .eof)
    | "fail" => some (.recv size (.fail n))
    | _ => none
  | _ => none

/-- split the observation lines following an op into system calls and the rest -/
def takeObs : List String → List SysObs → List (List String) → (List SysObs × List (List String) × List String)
  | [], sys, other => (sys.reverse, other.reverse, [])
  | l :: rest, sys, other =>
    match obs? l with
    | some w =>
      match parseSys w with
      | some s => takeObs rest (s :: sys) other
      | none => takeObs rest sys (w :: other)
    | none => (sys.reverse, other.reverse, l :: rest)

def callsOf (sys : List SysObs) : List Call :=
  sys.map fun
    | .poll t _ => .poll t
    | .send len _ _ => .send len []
    | .recv size _ => .recv size

def normCalls (cs : List Call) : List Call :=
  cs.map fun | .send len _ => .send len [] | c => c

/-! ### typed result lines -/

def thrownOf (ret : List String) : Thrown :=
  match ret with
  | ["throw", "system", e] =>
    match e.toNat? with
    | some n => if toString n == e then .system n else .other (" ".intercalate ret)
    | none => .other (" ".intercalate ret)
  | ["throw", "logic"] => .logic
  | ["throw", "closed"] => .closed
  | _ => .other (" ".intercalate ret)

/-- result of `send` / `sendto`: `ret n` -/
def retCount (ret : List String) : Ret :=
  match ret with
  | ["ret", n] => match n.toNat? with | some n => .count n | none => .bad
  | "throw" :: _ => .threw (thrownOf ret)
  | _ => .missing

/-- result of `recv` / `recvfrom`: `ret none` | `ret n hash` -/
def retData (ret : List String) : Ret :=
  match ret with
  | ["ret", "none"] => .none
  | ["ret", n, h] => .data n.toNat? h
  | "throw" :: _ => .threw (thrownOf ret)
  | _ => .missing

/-- result of `listen`: `ret none` | `ret 1` -/
def retListen (ret : List String) : Ret :=
  match ret with
  | ["ret", "none"] => .none
  | ["ret", _] => .count 1
  | "throw" :: _ => .threw (thrownOf ret)
  | _ => .missing

def tokOf (s : String) : Tok := match s.toNat? with | some n => .num n | none => .text s

def resStr {α} (f : α → String) : Res α → String
  | .ok v => "ret " ++ f v
  | .exn (.system e) => s!"throw system {e}"
  | .exn .logic => "throw logic"
  | .exn .closed => "throw closed"
  | .exn .exhausted => "model-script-exhausted"

def mkOs (sys : List SysObs) (recvBytes : List Bytes) : Os :=
  let polls := sys.filterMap fun | .poll _ a => some a | _ => none
  let sends := sys.filterMap fun | .send _ a _ => some a | _ => none
  let rk : List RecvObs := sys.filterMap fun | .recv _ a => some a | _ => none
  let recvs : List RecvAns := rk.zipIdx.map fun (a, i) =>
    match a with
    | .got n => RecvAns.got ((recvBytes.getD i []).take n)
    | .eof => RecvAns.eof
    | .fail n => RecvAns.fail n
  { polls := polls, sends := sends, recvs := recvs, now := 0, calls := [] }

structure Mode where
  c01 : Bool
  c07 : Bool
  c16 : Bool

/-- the property predicate of the mode on one transcript block (`Spec/C01.lean`, `Spec/C07.lean`, `Spec/C16.lean`) -/
def judge (md : Mode) (sp : SpecSt) (o : Obs) : Except String SpecSt :=
  if md.c01 then specStep sp o
  else match Spec.C07.specStepM { c07 := md.c07, c16 := md.c16 } () o with
    | .ok _ => .ok sp
    | .error m => .error m

partial def go (md : Mode) (s : St) : List String → Verdict
  | [] => { tags := s.tags }
  | l :: rest =>
    let w := words l
    if w.isEmpty then go md s rest else
    let (sys, other, rest') := takeObs rest [] []
    let crash := other.find? (fun o => o.head? == some "crash" ∨ o.head? == some "hang" ∨ o.head? == some "setup-failed")
    /- judge the block `op` with the mode's predicate, then continue with `k` (correspondence) -/
    let withSpec (tags : List String) (op : OpObs) (k : SpecSt → Verdict) : Verdict :=
      match judge md s.spec { op := op, sys := sys } with
      | .error m => Verdict.spec m tags
      | .ok sp => k sp
    match crash with
    | some o => withSpec s.tags (.abort (" ".intercalate o)) fun _ => Verdict.corr "unreachable" s.tags
    | none =>
    let retLine := other.find? (fun o => o.head? == some "ret" ∨ o.head? == some "throw")
    let eintrTag := if hasEintr sys then ["eintr"] else []
    match w with
    | ["send", len, seed, T] =>
      match len.toNat?, seed.toNat?, T.toInt?, retLine with
      | some len, some seed, some T, some ret =>
        let data := genBytes seed len
        let os := mkOs sys []
        let (r, os') := send data T os
        let exp := resStr toString r
        let got := " ".intercalate ret
        let tags := (if T < 0 then "send.all" else if T = 0 then "send.try" else "send.some") ::
                    eintrTag ++ (if sys.any isShort then ["short-write"] else []) ++
                    (if ret.head? == some "throw" then ["send.throw"] else []) ++ s.tags
        withSpec tags (.send data T (retCount ret)) fun sp =>
          if exp ≠ got then Verdict.corr s!"'{l}': model {exp}, impl {got}" tags
          else if normCalls os'.calls.reverse ≠ callsOf sys then
            Verdict.corr s!"'{l}': system calls differ from the model's" tags
          else if ¬ (os'.polls.isEmpty ∧ os'.sends.isEmpty) then
            Verdict.corr s!"'{l}': implementation made more system calls than the model" tags
          else go md { s with spec := sp, tags := tags } rest'
      | _, _, _, _ => withSpec s.tags .setup fun _ => Verdict.corr s!"bad send op or missing result: {l}" s.tags
    | ["psend", len, seed] =>
      match len.toNat?, seed.toNat? with
      | some len, some seed =>
        let data := genBytes seed len
        withSpec s.tags (.psend data) fun sp =>
          go md { s with spec := sp, peerPending := s.peerPending ++ data, tags := "psend" :: s.tags } rest'
      | _, _ => withSpec s.tags .setup fun _ => Verdict.corr s!"bad line {l}"
    | ["pclose"] => withSpec s.tags .pclose fun sp => go md { s with spec := sp, tags := "pclose" :: s.tags } rest'
    | ["pshutwr"] => withSpec s.tags .pshutwr fun sp => go md { s with spec := sp, tags := "pshutwr" :: s.tags } rest'
    | ["prst"] => withSpec s.tags .prst fun sp => go md { s with spec := sp, peerPending := [], tags := "prst" :: s.tags } rest'
    | ["recv", size, T] =>
      match size.toNat?, T.toInt?, retLine with
      | some size, some T, some ret =>
        let os := mkOs sys [s.peerPending]
        let (r, os') := receive size T os
        let exp := match r with
          | .ok none => "ret none"
          | .ok (some bs) => s!"ret {bs.length} {fnv bs}"
          | .exn e => resStr (fun (_ : Unit) => "") (.exn e)
        let got := " ".intercalate ret
        let k := match r with | .ok (some bs) => bs.length | _ => 0
        let tags := (if T < 0 then "recv.unl" else if T = 0 then "recv.zero" else "recv.lim") ::
                    eintrTag ++
                    (match ret with | ["ret", "none"] => ["recv.none"] | "throw" :: _ => ["recv.throw"] | _ => ["recv.value"]) ++ s.tags
        withSpec tags (.recv size T (retData ret)) fun sp =>
          if exp ≠ got then Verdict.corr s!"'{l}': model {exp}, impl {got}" tags
          else if normCalls os'.calls.reverse ≠ callsOf sys then Verdict.corr s!"'{l}': system calls differ from the model's" tags
          else if ¬ (os'.polls.isEmpty ∧ os'.recvs.isEmpty) then Verdict.corr s!"'{l}': implementation made more system calls than the model" tags
          else go md { s with spec := sp, peerPending := s.peerPending.drop k, tags := tags } rest'
      | _, _, _ => withSpec s.tags .setup fun _ => Verdict.corr s!"bad recv op or missing result: {l}" s.tags
    | ["sync"] =>
      match other.find? (fun o => o.head? == some "peer") with
      | some ["peer", n, h] =>
        withSpec s.tags (.sync (tokOf n) h) fun sp => go md { s with spec := sp, tags := "sync" :: s.tags } rest'
      | _ => withSpec s.tags .setup fun _ => Verdict.corr "missing peer observation" s.tags
    | ["sendto", len, seed, T] =>
      match len.toNat?, seed.toNat?, T.toInt?, retLine with
      | some len, some seed, some T, some ret =>
        let data := genBytes seed len
        let os := mkOs sys []
        let (r, os') := sendTo data T os
        let exp := resStr toString r
        let got := " ".intercalate ret
        let tags := "sendto" :: eintrTag ++ s.tags
        withSpec tags (.sendto data T (retCount ret)) fun sp =>
          if exp ≠ got then Verdict.corr s!"'{l}': model {exp}, impl {got}" tags
          else if normCalls os'.calls.reverse ≠ callsOf sys then Verdict.corr s!"'{l}': system calls differ from the model's" tags
          else go md { s with spec := sp, tags := tags } rest'
      | _, _, _, _ => withSpec s.tags .setup fun _ => Verdict.corr s!"bad sendto op or missing result: {l}" s.tags
    | ["precv"] =>
      let g : Option (Option Nat × String) :=
        match other.find? (fun o => o.head? == some "pgot") with
        | some ["pgot", n, h] => some (n.toNat?, h)
        | _ => none
      withSpec s.tags (.precv g) fun sp => go md { s with spec := sp } rest'
    | ["pdgram", len, seed] =>
      match len.toNat?, seed.toNat? with
      | some len, some seed =>
        let data := genBytes seed len
        withSpec s.tags (.pdgram data) fun sp =>
          go md { s with spec := sp, dgrams := s.dgrams ++ [data], tags := "pdgram" :: s.tags } rest'
      | _, _ => withSpec s.tags .setup fun _ => Verdict.corr s!"bad line {l}"
    | ["recvfrom", size, T] =>
      match size.toNat?, T.toInt?, retLine with
      | some size, some T, some ret =>
        let dg := s.dgrams.headD []
        let os := mkOs sys [dg]
        let (r, os') := receiveFrom size T os
        let consumed := anyRecvGot sys
        let exp := match r with
          | .ok none => "ret none"
          | .ok (some bs) => s!"ret {bs.length} {fnv bs}"
          | .exn e => resStr (fun (_ : Unit) => "") (.exn e)
        let got := " ".intercalate ret
        let tags := "recvfrom" :: eintrTag ++ (match ret with | ["ret", "none"] => ["recv.none"] | _ => []) ++ s.tags
        withSpec tags (.recvfrom size T (retData ret)) fun sp =>
          if exp ≠ got then Verdict.corr s!"'{l}': model {exp}, impl {got}" tags
          else if normCalls os'.calls.reverse ≠ callsOf sys then Verdict.corr s!"'{l}': system calls differ from the model's" tags
          else go md { s with spec := sp, dgrams := if consumed then s.dgrams.drop 1 else s.dgrams, tags := tags } rest'
      | _, _, _ => withSpec s.tags .setup fun _ => Verdict.corr s!"bad recvfrom op or missing result: {l}" s.tags
    | ["listen", T] =>
      match T.toInt?, retLine with
      | some T, some ret =>
        let os := mkOs sys [[1]]
        let (r, os') := acceptT T os
        let exp := match r with
          | .ok none => "ret none"
          | .ok (some _) => "ret 1"
          | .exn e => resStr (fun (_ : Unit) => "") (.exn e)
        let got := " ".intercalate ret
        let tags := "listen" :: eintrTag ++ (match ret with | ["ret", "none"] => ["recv.none"] | _ => []) ++ s.tags
        withSpec tags (.listen T (retListen ret)) fun sp =>
          if exp ≠ got then Verdict.corr s!"'{l}': model {exp}, impl {got}" tags
          else if normCalls os'.calls.reverse ≠ callsOf sys then Verdict.corr s!"'{l}': system calls differ from the model's" tags
          else go md { s with spec := sp, tags := tags } rest'
      | _, _ => withSpec s.tags .setup fun _ => Verdict.corr s!"bad listen op or missing result: {l}" s.tags
    | "tcp" :: _ => withSpec s.tags .setup fun sp => go md { s with spec := sp, tags := ("tcp." ++ w.getD 1 "" ++ "." ++ w.getD 2 "" ++ "." ++ w.getD 3 "") :: s.tags } rest'
    | "udp" :: _ => withSpec s.tags .setup fun sp => go md { s with spec := sp, tags := ("udp." ++ w.getD 1 "" ++ "." ++ w.getD 2 "") :: s.tags } rest'
    | "acceptor" :: _ => withSpec s.tags .setup fun sp => go md { s with spec := sp } rest'
    | "os" :: _ => withSpec s.tags .setup fun sp => go md { s with spec := sp } rest'
    | "pconnect" :: _ => withSpec s.tags .setup fun sp => go md { s with spec := sp } rest'
    | "now" :: _ => withSpec s.tags .setup fun sp => go md { s with spec := sp } rest'
    | "->" :: "crash" :: x => withSpec s.tags (.abort ("crash: " ++ " ".intercalate x)) fun _ => Verdict.corr "unreachable" s.tags
    | "->" :: "hang" :: x => withSpec s.tags (.abort ("hang: " ++ " ".intercalate x)) fun _ => Verdict.corr "unreachable" s.tags
    | _ => withSpec s.tags .setup fun _ => Verdict.corr s!"unknown line {l}" s.tags

/-! ### Driver::Step under injected EINTR (transcripts of harness scen/todos.cpp, no ToDos pending) -/

partial def goStep (tags : List String) : List String → Verdict
  | [] => { tags := tags }
  | l :: rest =>
    match words l with
    | ["step", T] =>
      match T.toInt? with
      | none => Verdict.corr s!"bad line {l}"
      | some T =>
        let obsLines := (rest.takeWhile (fun x => (obs? x).isSome)).filterMap obs?
        let rest' := rest.dropWhile (fun x => (obs? x).isSome)
        let polls : List (Int × PollAns) := obsLines.filterMap fun o =>
          match o with
          | ["poll", ms, _, res, adv] =>
            match ms.toInt?, adv.toNat? with
            | some ms, some adv =>
              some (ms, if res == "eintr" then PollAns.eintr adv else if res == "timeout" then PollAns.timedOut else PollAns.ready adv)
            | _, _ => none
          | _ => none
        let beginT := (obsLines.find? (fun o => o.head? == some "begin")).bind fun o => (o.getD 1 "").toInt?
        let endT := (obsLines.find? (fun o => o.head? == some "end")).bind fun o => (o.getD 1 "").toInt?
        let failed := (obsLines.find? (fun o => o.head? == some "crash" ∨ o.head? == some "hang" ∨ o.head? == some "throw")).map
          (" ".intercalate ·)
        -- property (`Spec/C16.lean`): the step keeps waiting within its timeout semantics
        match Spec.C16.specStepE { T := T, failed := failed, polls := polls, begin := beginT, fin := endT } with
        | some m => Verdict.spec m tags
        | none =>
          let os : Os := { polls := polls.map (·.2) }
          let (_, os') := wait T os
          let hadEintr := polls.any fun p => match p.2 with | .eintr _ => true | _ => false
          if pollArgs os' ≠ polls.map (·.1) then Verdict.corr s!"'{l}': poll timeouts {polls.map (·.1)} differ from the model's {pollArgs os'}" tags
          else if !os'.polls.isEmpty then Verdict.corr s!"'{l}': implementation issued more polls than the model" tags
          else goStep ((if hadEintr then ["eintr", "step.eintr"] else ["step"]) ++ tags) rest'
    | _ => goStep tags rest

def runCaseC16step (body : List String) : Verdict := { (goStep [] body) with }

def runCaseC01 (body : List String) : Verdict := go { c01 := true, c07 := false, c16 := false } {} body
def runCaseC07 (body : List String) : Verdict := go { c01 := false, c07 := true, c16 := false } {} body
def runCaseC16 (body : List String) : Verdict := go { c01 := false, c07 := false, c16 := true } {} body

end SockModel.Drive.C01

import SockModel.Drive.Common
import SockModel.Basic.Decimal
import SockModel.Model.Addr
/-! Driver for C13: validates `scen/address_order.cpp` transcripts.

* correspondence (model side): every raw image is the canonical `encode` of the field tuple read
  through the accessors; every reported `== != <`, every `std::map` lookup / iteration order equals
  what `Model/Addr.lean` computes from the raw images; `std::hash` is `hash<string_view>` of exactly
  the image bytes.
* property, on observations only: `==` iff the accessor field tuples agree, `!=` its negation,
  exactly one of `<`, `==`, `>`; `<` transitive over all reported pairs; equal ⇒ equal hash;
  containers find the first key with the same field tuple and hold one entry per distinct tuple;
  endpoint agreement per connection / datagram; a bind to port 0 reports a non-zero port.
-/
namespace SockModel.Drive.C13
open SockModel SockModel.Drive SockModel.Addr

structure AddrObs where
  label : String
  prov : String
  img : List UInt8
  host : List UInt8
  serv : List UInt8
  port : Nat
  v6 : Bool
  ip : List UInt8
  scope : Nat
  hash : String
  href : String
  str : List UInt8
  deriving Inhabited

def AddrObs.fields (a : AddrObs) : Fields := { v6 := a.v6, ip := a.ip, port := a.port, flow := 0, scope := a.scope }

def kv (ws : List String) (k : String) : Option String :=
  ws.findSome? fun w => match w.splitOn "=" with
    | [k', v] => if k' = k then some v else none
    | _ => none

def flag (ws : List String) (k : String) : Option Bool :=
  match kv ws k with
  | some "1" => some true
  | some "0" => some false
  | _ => none

def parseAddr (prov : String) (ws : List String) : Option AddrObs :=
  match ws with
  | label :: img :: rest => do
    pure { label, prov, img := ← hexDecode img, host := ← (kv rest "host") >>= hexDecode,
           serv := ← (kv rest "serv") >>= hexDecode, port := ← (kv rest "port") >>= String.toNat?,
           v6 := ← flag rest "v6", ip := ← (kv rest "ip") >>= hexDecode,
           scope := ← (kv rest "scope") >>= String.toNat?, hash := ← kv rest "hash", href := ← kv rest "href",
           str := ← (kv rest "str") >>= hexDecode }
  | _ => none

structure CmpObs where
  l1 : String
  l2 : String
  eq : Bool
  lt : Bool
  gt : Bool

structure St where
  addrs : Array AddrObs := #[]
  cmps : Array CmpObs := #[]
  op : List String := []          -- the op whose observations are being read
  opAddrs : List String := []     -- labels reported since the op line
  tags : List String := []
  corr : Option String := none    -- first correspondence difference (the run continues: a later
                                  -- direct property failure is the more useful report)

def St.dropOp (s : St) : St := { s with op := [], opAddrs := [] }

def St.note (s : St) (msg : String) : St := if s.corr.isSome then s else { s with corr := some msg }

def St.find (s : St) (label : String) : Option AddrObs := s.addrs.find? (·.label = label)

def ok? (b : Bool) (msg : String) : Except String Unit := if b then pure () else throw msg

/-- property checks on a freshly reported address (observations only) -/
def specAddr (s : St) (a : AddrObs) : Except String Unit := do
  ok? (a.serv == Decimal.render a.port) s!"{a.label}: Service() is not the decimal text of Port() {a.port}"
  let same (b : AddrObs) (what : String) : Except String Unit :=
    ok? (a.fields == b.fields) s!"{a.label} differs from {b.label} in family/host/port/scope ({what})"
  match s.op with
  | ["port", _, n] => ok? (some a.port == n.toNat? ∧ !a.v6) s!"{a.label}: Address({n}) reports port {a.port}"
  | [k, name, _, bind] =>
    if (k = "udp" ∨ k = "acceptor") ∧ a.label = name ++ ".l" then
      match s.find bind with
      | some b =>
        ok? (a.v6 == b.v6 ∧ a.ip == b.ip ∧ a.scope == b.scope) s!"{a.label}: bound to {bind} but reports another host"
        if b.port = 0 then ok? (a.port ≠ 0) s!"{a.label}: socket bound to port 0 reports port 0"
        else ok? (a.port = b.port) s!"{a.label}: bound to port {b.port} but reports {a.port}"
      | none => pure ()
    else if k = "dgram" ∧ a.label = name then
      match s.find (s.op.getD 2 "" ++ ".l") with
      | some b => same b "datagram source vs. sender's LocalAddress"
      | none => pure ()
    else if k = "respell" ∧ a.label = name then
      match s.find (s.op.getD 2 "") with
      | some b => same b "re-parsed text vs. original"
      | none => pure ()
    else pure ()
  | _ => pure ()

/-- endpoint agreement once all five addresses of a connection are known -/
def specConn (s : St) (c acc : String) : Except String Unit := do
  match s.find (c ++ ".cl"), s.find (c ++ ".cp"), s.find (c ++ ".rep"), s.find (c ++ ".sl"), s.find (c ++ ".sp") with
  | some cl, some cp, some rep, some sl, some sp =>
    ok? (cl.fields == rep.fields) s!"{c}: client LocalAddress differs from the address reported on accept"
    ok? (cl.fields == sp.fields) s!"{c}: client LocalAddress differs from the server-side PeerAddress"
    ok? (cp.fields == sl.fields) s!"{c}: client PeerAddress differs from the server-side LocalAddress"
    ok? (cl.port ≠ 0) s!"{c}: client reports local port 0"
    match s.find (acc ++ ".l") with
    | some al => ok? (cp.fields == al.fields) s!"{c}: client PeerAddress differs from the acceptor's LocalAddress"
    | none => pure ()
  | _, _, _, _, _ => throw s!"{c}: connection did not report all five addresses"

def idxOf (s : St) (label : String) : Option Nat := s.addrs.findIdx? (·.label = label)

/-- transitivity of the reported `<` and `==` over all reported pairs (observations only) -/
def specTrans (s : St) : Except String Unit := do
  let n := s.addrs.size
  let mut ltM : Array Bool := Array.replicate (n * n) false
  let mut eqM : Array Bool := Array.replicate (n * n) false
  let mut known : Array Bool := Array.replicate (n * n) false
  for c in s.cmps do
    match idxOf s c.l1, idxOf s c.l2 with
    | some i, some j =>
      ltM := (ltM.set! (i * n + j) c.lt).set! (j * n + i) c.gt
      eqM := (eqM.set! (i * n + j) c.eq).set! (j * n + i) c.eq
      known := (known.set! (i * n + j) true).set! (j * n + i) true
    | _, _ => pure ()
  for i in [0:n] do
    for j in [0:n] do
      if known[i * n + j]! then
        for k in [0:n] do
          if known[j * n + k]! ∧ known[i * n + k]! then
            let li := s.addrs[i]!.label; let lj := s.addrs[j]!.label; let lk := s.addrs[k]!.label
            if ltM[i * n + j]! ∧ ltM[j * n + k]! ∧ !ltM[i * n + k]! then
              throw s!"< is not transitive: {li} < {lj} < {lk} but not {li} < {lk}"
            if eqM[i * n + j]! ∧ eqM[j * n + k]! ∧ !eqM[i * n + k]! then
              throw s!"== is not transitive: {li} == {lj} == {lk} but not {li} == {lk}"
            if eqM[i * n + j]! ∧ ltM[j * n + k]! ≠ ltM[i * n + k]! then
              throw s!"< does not respect ==: {li} == {lj} but they compare differently with {lk}"
  pure ()

/-- model of `std::map<Address, label>::emplace` for all addresses in creation order -/
def modelMap (s : St) : List (Image × String) :=
  s.addrs.foldl (fun m a => match mapFind a.img m with
    | some _ => m
    | none => mapInsert a.img a.label m) []

def firstWithFields (s : St) (f : Fields) : Option String := (s.addrs.find? (·.fields == f)).map (·.label)

def distinctFields (s : St) : Nat :=
  (s.addrs.foldl (fun (acc : List Fields) a => if acc.contains a.fields then acc else a.fields :: acc) []).length

def b2s (b : Bool) : String := if b then "1" else "0"

/-- finish the op whose observations have all been read -/
def finishOp (s : St) : Except (String × String) St := do
  match s.op with
  | ["connect", c, kind, acc] =>
    if s.opAddrs.isEmpty then pure { s with op := [] }  -- skipped / failed, reported separately
    else
      match specConn s c acc with
      | .error m => throw ("spec", m)
      | .ok _ => pure { s with op := [], tags := s!"connect.{kind}" :: s.tags }
  | ["connectvia", c, _, _, _] =>
    if s.opAddrs.isEmpty then pure { s with op := [] }
    else
      -- the acceptor's own LocalAddress may be a wildcard here: only the two ends are compared
      match specConn s c "" with
      | .error m => throw ("spec", m)
      | .ok _ => pure { s with op := [], tags := "connectvia" :: s.tags }
  | ["cmpall"] =>
    match specTrans s with
    | .error m => throw ("spec", m)
    | .ok _ => pure { s with op := [], tags := "cmpall" :: s.tags }
  | _ => pure { s with op := [] }

def provOf (op : List String) : String :=
  match op with
  | [k, _, kind, _] => if k = "udp" ∨ k = "acceptor" ∨ k = "connect" then s!"{k}.{kind}" else k
  | ["connectvia", _, kind, _, _] => s!"connect.{kind}"
  | k :: _ => k
  | [] => "?"

def handleObs (s : St) (ws : List String) : Except (String × String) St := do
  match ws with
  | "addr" :: rest =>
    match parseAddr (provOf s.op) rest with
    | none => throw ("corr", "unparsable addr observation " ++ " ".intercalate ws)
    | some a =>
      if (s.find a.label).isSome then throw ("corr", s!"label {a.label} reported twice")
      match specAddr s a with
      | .error m => throw ("spec", m)
      | .ok _ => pure ()
      -- canonical image: the provenance hypothesis of `encode_injective`
      let mut s := s
      if a.ip.length ≠ (if a.v6 then 16 else 4) then
        s := s.note s!"{a.label}: Host() is not a numeric literal of the reported family"
      if a.img ≠ encode a.fields then
        s := s.note s!"{a.label} ({a.prov}): raw image {hexEncode a.img} is not the canonical image {hexEncode (encode a.fields)} of its accessor fields"
      if a.hash ≠ a.href then
        s := s.note s!"{a.label}: std::hash<Address> is not hash<string_view> of the {a.img.length} image bytes"
      if a.str ≠ Addr.toString a.v6 a.host a.serv then
        s := s.note s!"{a.label}: to_string is not host:serv / [host]:serv"
      let t := [a.prov, if a.v6 then "v6" else "v4"] ++ (if a.scope ≠ 0 then ["scoped"] else [])
      pure { s with addrs := s.addrs.push a, opAddrs := a.label :: s.opAddrs, tags := t ++ s.tags }
  | ["cmp", l1, l2, e, ne, l, g, h] =>
    match s.find l1, s.find l2, flag [e] "eq", flag [ne] "ne", flag [l] "lt", flag [g] "gt", flag [h] "heq" with
    | some a, some b, some eq, some ne, some lt, some gt, some heq =>
      let fe := a.fields == b.fields
      if eq ≠ fe then
        throw ("spec", s!"{l1} == {l2} is {eq} but family/host/port/scope " ++ (if fe then "agree" else "differ") ++
          s!" ({a.prov} vs {b.prov})")
      if ne = eq then throw ("spec", s!"{l1} != {l2} is not the negation of ==")
      if (if lt then 1 else 0) + (if eq then 1 else 0) + (if gt then 1 else 0) ≠ 1 then
        throw ("spec", s!"{l1} vs {l2}: not exactly one of <, ==, > holds (lt={b2s lt} eq={b2s eq} gt={b2s gt})")
      if eq ∧ !heq then throw ("spec", s!"{l1} == {l2} but their std::hash differ")
      if l1 = l2 ∧ (lt ∨ !eq) then throw ("spec", s!"{l1} compared with itself: < or not ==")
      let mut s := s
      if eq ≠ Addr.eq a.img b.img ∨ ne ≠ Addr.ne a.img b.img then
        s := s.note s!"{l1} == {l2}: impl {eq}, model {Addr.eq a.img b.img}"
      if lt ≠ Addr.lt a.img b.img ∨ gt ≠ Addr.lt b.img a.img then
        s := s.note s!"{l1} < {l2}: impl {lt}/{gt}, model {Addr.lt a.img b.img}/{Addr.lt b.img a.img}"
      let t := (if eq then (if a.prov ≠ b.prov then ["cmp.eq.xprov"] else ["cmp.eq"]) else
                if a.v6 ≠ b.v6 then ["cmp.mixed"] else if lt then ["cmp.lt"] else ["cmp.gt"])
      pure { s with cmps := s.cmps.push ⟨l1, l2, eq, lt, gt⟩, tags := t ++ s.tags }
    | _, _, _, _, _, _, _ => throw ("corr", "bad cmp observation " ++ " ".intercalate ws)
  | ["map", l, found, ufound] =>
    match s.find l with
    | none => throw ("corr", s!"map lookup of unknown label {l}")
    | some a =>
      let want := firstWithFields s a.fields
      if some found ≠ want then
        throw ("spec", s!"std::map lookup of {l} finds {found}, the first address with the same family/host/port/scope is {want.getD "none"}")
      if some ufound ≠ want then
        throw ("spec", s!"std::unordered_map lookup of {l} finds {ufound}, expected {want.getD "none"}")
      let mut s := s
      if mapFind a.img (modelMap s) ≠ some found then
        s := s.note s!"std::map lookup of {l}: impl {found}, model {(mapFind a.img (modelMap s)).getD "none"}"
      pure { s with tags := "maps" :: s.tags }
  | "maporder" :: labels =>
    let m := (modelMap s).map (·.2)
    if labels.length ≠ distinctFields s then
      throw ("spec", s!"std::map holds {labels.length} keys for {distinctFields s} distinct addresses")
    if labels ≠ m then pure (s.note s!"std::map iteration order: impl {labels}, model {m}") else
    pure s
  | ["mapsize", n, un] =>
    let d := distinctFields s
    if n.toNat? ≠ some d ∨ un.toNat? ≠ some d then
      throw ("spec", s!"containers hold {n} / {un} entries for {d} distinct addresses")
    pure s
  | "crash" :: w => throw ("spec", "crash: " ++ " ".intercalate w)
  | "throw" :: cls :: _ =>
    match s.op with
    | "udp" :: _ => pure { s with tags := "bindfail" :: s.tags }
    | "acceptor" :: _ => pure { s with tags := "bindfail" :: s.tags }
    | "connectvia" :: _ =>
      -- reaching a listener through another local address may be refused (e.g. IPV6_V6ONLY): not a violation
      if cls = "nonstd" then throw ("spec", "non-standard exception from " ++ " ".intercalate s.op)
      else pure { s.dropOp with tags := "connectvia.refused" :: s.tags }
    | _ =>
      if cls = "nonstd" then throw ("spec", "non-standard exception from " ++ " ".intercalate s.op)
      else pure (s.note (s!"unexpected exception {cls} from " ++ " ".intercalate s.op))
  | "addrfail" :: l :: _ => throw ("spec", s!"accessors of {l} throw")
  | "fail" :: w => pure ((s.note ("harness: " ++ " ".intercalate w ++ " in " ++ " ".intercalate s.op)).dropOp)
  | "locals" :: _ => pure s
  | "spelled" :: _ => pure s
  | "skip" :: _ => pure { s with tags := "skip" :: s.tags }
  | _ => throw ("corr", "unknown observation " ++ " ".intercalate ws)

partial def go (s : St) : List String → Verdict
  | [] =>
    match finishOp s with
    | .error (k, m) => { fail := some (k, m), tags := s.tags }
    | .ok s =>
      match s.corr with
      | some m => Verdict.corr m s.tags
      | none => { tags := s.tags }
  | l :: rest =>
    let w := words l
    match w with
    | [] => go s rest
    | "->" :: obs =>
      match handleObs s obs with
      | .error (k, m) => { fail := some (k, m), tags := s.tags }
      | .ok s' => go s' rest
    | _ =>
      match finishOp s with
      | .error (k, m) => { fail := some (k, m), tags := s.tags }
      | .ok s' => go { s' with op := w, opAddrs := [] } rest

def runCase (body : List String) : Verdict := go {} body

end SockModel.Drive.C13

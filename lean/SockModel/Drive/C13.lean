import SockModel.Drive.Common
import SockModel.Basic.Decimal
import SockModel.Spec.C13
/-! Driver for C13: validates `scen/address_order.cpp` transcripts.

Every transcript line is parsed into ONE typed observation `Addr.Obs` (`Spec/C13.lean`).  Then
* spec: `Addr.specStep` - the property predicate of `Spec/C13.lean`, on the observations only (accessor
  values and reported results; no raw image, no model state).  This file contains no property clause of its
  own (one source of truth; `Addr.model_satisfies_spec` proves that the predicate accepts every trace of the
  model).  A line that cannot be typed (unparsable numbers, a label reported twice, a comparison / lookup of
  a label that was never reported, an unknown observation) is a `corr` verdict: the harness cannot produce it;
* correspondence (model side): every raw image is the canonical `encode` of the field tuple read through the
  accessors; every reported `== != <`, every `std::map` lookup / iteration order equals what `Model/Addr.lean`
  computes from the raw images (`Addr.omOf`, the composition the model trace uses); `std::hash` is
  `hash<string_view>` of exactly the image bytes.  The first difference is remembered and the run continues: a
  later direct property failure is the more useful report.
-/
namespace SockModel.Drive.C13
open SockModel SockModel.Drive SockModel.Addr

/-- one `-> addr` line: the typed observation plus what only the correspondence looks at -/
structure AddrRec where
  o : AddrObs
  img : List UInt8
  host : List UInt8
  hash : String
  href : String
  str : List UInt8
  deriving Inhabited

def kv (ws : List String) (k : String) : Option String :=
  ws.findSome? fun w => match w.splitOn "=" with
    | [k', v] => if k' = k then some v else none
    | _ => none

def flag (ws : List String) (k : String) : Option Bool :=
  match kv ws k with
  | some "1" => some true
  | some "0" => some false
  | _ => none

def parseAddr (prov : String) (ws : List String) : Option AddrRec :=
  match ws with
  | label :: img :: rest => do
    let img ← hexDecode img
    let host ← (kv rest "host") >>= hexDecode
    let serv ← (kv rest "serv") >>= hexDecode
    let port ← (kv rest "port") >>= String.toNat?
    let v6 ← flag rest "v6"
    let ip ← (kv rest "ip") >>= hexDecode
    let scope ← (kv rest "scope") >>= String.toNat?
    let hash ← kv rest "hash"
    let href ← kv rest "href"
    let str ← (kv rest "str") >>= hexDecode
    pure { o := { label, prov, serv, port, v6, ip, scope }, img, host, hash, href, str }
  | _ => none

structure St where
  sp : SpecSt := {}               -- the observer's state of `Spec/C13.lean`
  recs : Array AddrRec := #[]     -- the raw images etc. (correspondence)
  op : List String := []          -- the op whose observations are being read
  tags : List String := []
  corr : Option String := none    -- first correspondence difference (the run continues: a later
                                  -- direct property failure is the more useful report)

def St.dropOp (s : St) : St := { s with op := [] }

def St.note (s : St) (msg : String) : St := if s.corr.isSome then s else { s with corr := some msg }

def St.rec? (s : St) (label : String) : Option AddrRec := s.recs.find? (·.o.label = label)

/-- an op line as a typed observation -/
def classify (w : List String) : OpLine :=
  let head : Head := match w with
    | "udp" :: _ => .udp
    | "acceptor" :: _ => .acceptor
    | "connectvia" :: _ => .connectvia
    | _ => .other
  let k : OpK := match w with
    | ["port", _, n] => .port ⟨n, n.toNat?⟩
    | [k, name, x, bind] =>
      if k = "udp" ∨ k = "acceptor" then .bind name bind
      else if k = "dgram" then .dgram name x
      else if k = "respell" then .respell name x
      else if k = "connect" then .connect name bind
      else .other
    | ["connectvia", c, _, _, _] => .connectvia c
    | ["cmpall"] => .cmpall
    | _ => .other
  { k, head, text := " ".intercalate w }

/-- model of `std::map<Address, label>::emplace` for all addresses in creation order -/
def modelMap (s : St) : List (Image × String) := omOf (s.recs.toList.map fun r => (r.img, r.o.label))

def provOf (op : List String) : String :=
  match op with
  | [k, _, kind, _] => if k = "udp" ∨ k = "acceptor" ∨ k = "connect" then s!"{k}.{kind}" else k
  | ["connectvia", _, kind, _, _] => s!"connect.{kind}"
  | k :: _ => k
  | [] => "?"

/-- evaluate the predicate on one observation -/
def spec (s : St) (o : Obs) : Except (String × String) St :=
  match specStep s.sp o with
  | .error m => .error ("spec", m)
  | .ok sp => .ok { s with sp }

/-- tags of the op that is being finished (evidence only) -/
def finishTags (s : St) : List String :=
  match s.op with
  | ["connect", _, kind, _] => if s.sp.opAddrs = 0 then [] else [s!"connect.{kind}"]
  | ["connectvia", _, _, _, _] => if s.sp.opAddrs = 0 then [] else ["connectvia"]
  | ["cmpall"] => ["cmpall"]
  | _ => []

def handleObs (s : St) (ws : List String) : Except (String × String) St := do
  match ws with
  | "addr" :: rest =>
    match parseAddr (provOf s.op) rest with
    | none => throw ("corr", "unparsable addr observation " ++ " ".intercalate ws)
    | some r =>
      let a := r.o
      if (s.sp.find a.label).isSome then throw ("corr", s!"label {a.label} reported twice")
      let mut s ← spec s (.addr a)
      -- canonical image: the provenance hypothesis of `encode_injective`
      if a.ip.length ≠ (if a.v6 then 16 else 4) then
        s := s.note s!"{a.label}: Host() is not a numeric literal of the reported family"
      if r.img ≠ encode a.fields then
        s := s.note s!"{a.label} ({a.prov}): raw image {hexEncode r.img} is not the canonical image {hexEncode (encode a.fields)} of its accessor fields"
      if r.hash ≠ r.href then
        s := s.note s!"{a.label}: std::hash<Address> is not hash<string_view> of the {r.img.length} image bytes"
      if r.str ≠ Addr.toString a.v6 r.host a.serv then
        s := s.note s!"{a.label}: to_string is not host:serv / [host]:serv"
      let t := [a.prov, if a.v6 then "v6" else "v4"] ++ (if a.scope ≠ 0 then ["scoped"] else [])
      pure { s with recs := s.recs.push r, tags := t ++ s.tags }
  | ["cmp", l1, l2, e, ne, l, g, h] =>
    match s.rec? l1, s.rec? l2, flag [e] "eq", flag [ne] "ne", flag [l] "lt", flag [g] "gt", flag [h] "heq" with
    | some a, some b, some eq, some ne, some lt, some gt, some heq =>
      let mut s ← spec s (.cmp l1 l2 eq ne lt gt heq)
      if eq ≠ Addr.eq a.img b.img ∨ ne ≠ Addr.ne a.img b.img then
        s := s.note s!"{l1} == {l2}: impl {eq}, model {Addr.eq a.img b.img}"
      if lt ≠ Addr.lt a.img b.img ∨ gt ≠ Addr.lt b.img a.img then
        s := s.note s!"{l1} < {l2}: impl {lt}/{gt}, model {Addr.lt a.img b.img}/{Addr.lt b.img a.img}"
      let t := (if eq then (if a.o.prov ≠ b.o.prov then ["cmp.eq.xprov"] else ["cmp.eq"]) else
                if a.o.v6 ≠ b.o.v6 then ["cmp.mixed"] else if lt then ["cmp.lt"] else ["cmp.gt"])
      pure { s with tags := t ++ s.tags }
    | _, _, _, _, _, _, _ => throw ("corr", "bad cmp observation " ++ " ".intercalate ws)
  | ["map", l, found, ufound] =>
    match s.rec? l with
    | none => throw ("corr", s!"map lookup of unknown label {l}")
    | some a =>
      let mut s ← spec s (.map l found ufound)
      if mapFind a.img (modelMap s) ≠ some found then
        s := s.note s!"std::map lookup of {l}: impl {found}, model {(mapFind a.img (modelMap s)).getD "none"}"
      pure { s with tags := "maps" :: s.tags }
  | "maporder" :: labels =>
    let s ← spec s (.maporder labels)
    let m := (modelMap s).map (·.2)
    if labels ≠ m then pure (s.note s!"std::map iteration order: impl {labels}, model {m}") else
    pure s
  | ["mapsize", n, un] => spec s (.mapsize ⟨n, n.toNat?⟩ ⟨un, un.toNat?⟩)
  | "crash" :: w => spec s (.crash (" ".intercalate w))
  | "throw" :: cls :: _ =>
    let s' ← spec s (.threw (cls = "nonstd"))
    match s.op with
    | "udp" :: _ => pure { s' with tags := "bindfail" :: s.tags }
    | "acceptor" :: _ => pure { s' with tags := "bindfail" :: s.tags }
    | "connectvia" :: _ => pure { s'.dropOp with tags := "connectvia.refused" :: s.tags }
    | _ => pure (s'.note (s!"unexpected exception {cls} from " ++ " ".intercalate s.op))
  | "addrfail" :: l :: _ => spec s (.addrfail l)
  | "fail" :: w =>
    let s' ← spec s .fail
    pure ((s'.note ("harness: " ++ " ".intercalate w ++ " in " ++ " ".intercalate s.op)).dropOp)
  | "locals" :: _ => spec s .quiet
  | "spelled" :: _ => spec s .quiet
  | "skip" :: _ =>
    let s ← spec s .quiet
    pure { s with tags := "skip" :: s.tags }
  | _ => throw ("corr", "unknown observation " ++ " ".intercalate ws)

def step (s : St) (l : String) : Except (String × String) St :=
  match words l with
  | [] => .ok s
  | "->" :: obs => handleObs s obs
  | w =>
    -- an op line: the previous op is finished (`specStep` does that), then this one is being read
    let t := finishTags s
    match spec s (.op (classify w)) with
    | .error e => .error e
    | .ok s' => .ok { s' with op := w, tags := t ++ s'.tags }

def go (s : St) : List String → Verdict
  | [] =>
    let t := finishTags s
    match spec s .fin with
    | .error e => { fail := some e, tags := s.tags }
    | .ok s =>
      match s.corr with
      | some m => Verdict.corr m (t ++ s.tags)
      | none => { tags := t ++ s.tags }
  | l :: rest =>
    match step s l with
    | .error e => { fail := some e, tags := s.tags }
    | .ok s' => go s' rest

def runCase (body : List String) : Verdict := go {} body

end SockModel.Drive.C13

import SockModel.Drive.Common
import SockModel.Spec.C14
/-! Driver for C14: validates fault-injection transcripts of `harness/scen/faults.cpp`.

* spec (observations only): the transcript is parsed into typed observations `Spec.Obs` (`toItem`, `toEv`,
  `toOutcome`, `toStep`, `roundObs`) and handed to `Spec.specRun` of `Spec/C14.lean` - this file contains no
  property clause of its own (one source of truth; `Fd.Spec.model_satisfies_spec` proves that the predicate
  accepts every trace of the model).  A line that cannot be typed (unknown call name, descriptor label that
  is not `fd<k>`) is a `corr` verdict "malformed transcript".
* correspondence: the scenario's program of `Model/Fd.lean`, run under the fault oracle read off the
  observed trace, predicts the same outcomes, events and closes; fault-free call traces agree with the
  model's up to reordering of the order-insensitive calls.
-/
namespace SockModel.Drive.C14
open SockModel SockModel.Drive SockModel.Fd
open SockModel.Fd.Spec (sysName)

/-! ## observations -/

inductive Item where
  | sys (name fd cls : String) (code : Int) (newfd : Option String)
  | close (fd : String)
  | badclose (what : String)
  deriving Repr, Inhabited

structure StepObs where
  kind : String
  items : List Item := []
  evs : List String := []
  outcome : List String := []
  deriving Repr, Inhabited

structure RoundObs where
  have_ : List String := []
  setupItems : List Item := []
  steps : List StepObs := []
  teardown : List Item := []
  ledger : Option (Nat × Nat) := none
  deriving Repr, Inhabited

structure CaseObs where
  verb : String := ""
  scen : String := ""
  plan : List String := []
  rounds : List RoundObs := []
  done : Bool := false
  crash : Option String := none
  bad : Option String := none

def Item.isFail : Item → Bool
  | .sys _ _ cls _ _ => cls == "fault" || cls == "err"
  | _ => false

def parseItem (w : List String) : Option Item :=
  match w with
  | ["sys", name, fd, "ok"] => some (.sys name fd "ok" 0 none)
  | ["sys", name, fd, "ok", nfd] => some (.sys name fd "ok" 0 (some nfd))
  | ["sys", name, fd, cls, code] => some (.sys name fd cls (code.toInt?.getD 0) none)
  | ["close", fd] => some (.close fd)
  | "badclose" :: rest => some (.badclose (" ".intercalate rest))
  | _ => none

/-- phase: 0 = before first step (setup), 1 = in step, 2 = teardown -/
structure PSt where
  c : CaseObs := {}
  cur : Option RoundObs := none
  step : Option StepObs := none
  phase : Nat := 0

def PSt.flushStep (p : PSt) : PSt :=
  match p.step, p.cur with
  | some s, some r => { p with step := none, cur := some { r with steps := r.steps ++ [s] } }
  | _, _ => p

def PSt.flushRound (p : PSt) : PSt :=
  let p := p.flushStep
  match p.cur with
  | some r => { p with cur := none, c := { p.c with rounds := p.c.rounds ++ [r] } }
  | none => p

def parseCase (body : List String) : CaseObs :=
  let p := body.foldl (init := ({} : PSt)) fun p l =>
    match obs? l with
    | none =>
      match words l with
      | verb :: scen :: _ => { p with c := { p.c with verb := verb, scen := scen } }
      | _ => p
    | some w =>
      match w with
      | "plan" :: rest => { p with c := { p.c with plan := rest } }
      | ["round", _] => { p.flushRound with cur := some {}, phase := 0 }
      | "have" :: fds =>
        match p.cur with
        | some r => { p with cur := some { r with have_ := fds } }
        | none => p
      | ["step", kind] => { p.flushStep with step := some { kind := kind }, phase := 1 }
      | ["teardown"] => { p.flushStep with phase := 2 }
      | "ev" :: rest =>
        match p.step with
        | some s => { p with step := some { s with evs := s.evs ++ [" ".intercalate rest] } }
        | none => p
      | "outcome" :: rest =>
        match p.step with
        | some s => { p with step := some { s with outcome := rest } }
        | none => p
      | ["ledger", o, e] =>
        let n (s : String) := ((s.splitOn "=").getD 1 "").toNat?.getD 999
        match p.cur with
        | some r => { p with cur := some { r with ledger := some (n o, n e) } }
        | none => p
      | "done" :: _ => { p.flushRound with c := { p.flushRound.c with done := true } }
      | "crash" :: rest => { p with c := { p.c with crash := some (" ".intercalate rest) } }
      | "badcase" :: rest => { p with c := { p.c with bad := some (" ".intercalate rest) } }
      | "toolong" :: rest => { p with c := { p.c with bad := some ("call trace longer than the enumerated fault positions: " ++ " ".intercalate rest) } }
      | _ =>
        match parseItem w with
        | none => p
        | some it =>
          match p.phase, p.step, p.cur with
          | 1, some s, _ => { p with step := some { s with items := s.items ++ [it] } }
          | 2, _, some r => { p with cur := some { r with teardown := r.teardown ++ [it] } }
          | _, _, some r => { p with cur := some { r with setupItems := r.setupItems ++ [it] } }
          | _, _, _ => p
  p.flushRound.c

/-! ## typed observations for `Spec/C14.lean` (no property clause lives in this file) -/

def udpOrAcceptorScenario (scen : String) : Bool :=
  scen == "udp_async_recv" || scen == "acceptor_async_accept"

def allSys : List Sys :=
  [.socket, .bind, .listen, .connect, .accept, .fcntl, .setsockopt, .getsockopt, .getsockname, .getpeername,
   .send, .sendto, .recv, .recvfrom, .poll, .getaddrinfo, .getnameinfo]

def parseSys (n : String) : Option Sys := allSys.find? fun c => sysName c == n

/-- `fd<k>` -/
def parseFd (s : String) : Option Nat :=
  if s.startsWith "fd" then (s.drop 2).toString.toNat? else none

def toItem : Item → Except String Spec.Item
  | .sys name _ cls code newfd =>
    match parseSys name with
    | none => .error s!"unknown system call {name}"
    | some c =>
      if cls == "ok" then
        match newfd with
        | none => .ok (.call c (.ok none))
        | some l =>
          match parseFd l with
          | some n => .ok (.call c (.ok (some n)))
          | none => .error s!"bad descriptor label {l}"
      else if cls == "fault" || cls == "err" then .ok (.call c (.fail code))
      else .error s!"unknown result class {cls}"
  | .close fd =>
    match parseFd fd with
    | some n => .ok (.close n)
    | none => .error s!"bad descriptor label {fd}"
  | .badclose what => .ok (.badclose what)

def toEv (e : String) : Spec.Ev :=
  let k : Spec.EvKind :=
    match words e with
    | ["disconnect"] => .disconnect
    | ["connect"] => .connect
    | "future" :: "exn" :: _ => .futureExn
    | "future" :: "broken" :: _ => .futureBroken
    | "future" :: "value" :: _ => .futureValue
    | "receive" :: _ => .receive
    | "receivefrom" :: _ => .receiveFrom
    | _ => .other
  ⟨k, e⟩

def toCat (s : String) : Spec.Cat :=
  if s == "system" then .system else if s == "address" then .address else if s == "logic" then .logic
  else if s == "runtime" then .runtime else .other s

def toOutcome (w : List String) : Spec.Outcome :=
  match w with
  | ["ok"] => .ok
  | ["exn", cat, code] =>
    match code.toInt? with
    | some n => .exn (toCat cat) n
    | none => .improper w
  | _ => .improper w

def toKind (s : String) : Spec.StepKind :=
  if s == "ctor" then .ctor else if s == "op" then .op else if s == "accept" then .accept
  else if s == "consume" then .consume else if s == "drive" then .drive else .other s

def toStep (s : StepObs) : Except String Spec.StepObs := do
  let items ← s.items.mapM toItem
  pure { kind := toKind s.kind, items := items, evs := s.evs.map toEv, outcome := toOutcome s.outcome }

def roundObs (r : RoundObs) : Except String (List Spec.Obs) := do
  let setup ← r.setupItems.mapM toItem
  let have_ ← r.have_.mapM fun l => match parseFd l with | some n => .ok n | none => .error s!"bad descriptor label {l}"
  let steps ← r.steps.mapM toStep
  let td ← r.teardown.mapM toItem
  pure ([.setup setup have_] ++ steps.map .step ++ [.teardown td r.ledger])

/-! ## the model side -/

structure Env where
  held : List (String × List Fd) := []
  d : Option DSt := none

def Env.fds (e : Env) (v : String) : List Fd := ((e.held.find? (·.1 == v)).map (·.2)).getD []
def Env.fd (e : Env) (v : String) : Fd := (e.fds v).headD 9999
def Env.has (e : Env) (v : String) : Bool := !(e.fds v).isEmpty
def Env.hold (e : Env) (v : String) (fds : List Fd) : Env :=
  if fds.isEmpty then e else { e with held := e.held.filter (·.1 != v) ++ [(v, e.fds v ++ fds)] }
def Env.drop (e : Env) (v : String) : Env := { e with held := e.held.filter (·.1 != v) }

structure Act where
  step : Bool
  run : Env → M (Env × List Ev)
  onFail : Env → Env := id

def liftM (m : M (List Fd)) (f : List Fd → Env) : M (Env × List Ev) := do
  let fds ← m
  pure (f fds, [])

def mk (stp : Bool) (v : String) (m : M (List Fd)) : Act :=
  { step := stp, run := fun e => liftM m (e.hold v) }
def opOn (v : String) (f : Fd → M (List Fd)) (into : String := "got") : Act :=
  { step := true, run := fun e => if e.has v then liftM (f (e.fd v)) (e.hold into) else pure (e, []) }
def consume (stp : Bool) (v src : String) (c : Consumer) : Act :=
  { step := stp, run := fun e => liftM (c.run (e.fd src)) ((e.drop src).hold v), onFail := fun e => e.drop src }
def mkDriver : Act :=
  { step := false, run := fun e => do
      let fds ← driverCtor
      pure ({ (e.hold "drv" fds) with d := some { pipeFrom := fds.headD 9999, pipeTo := fds.getD 1 9999 } }, []) }
def attach (v : String) (k : Kind) (rx sendQ : Nat) : Act :=
  { step := false, run := fun e =>
      pure ({ e with d := e.d.map fun d => { d with socks := d.socks ++ [{ fd := e.fd v, kind := k, rx := rx, sendQ := sendQ }] } }, []) }
def drive : Act :=
  { step := true, run := fun e =>
      match e.d with
      | none => pure (e, [])
      | some d => do
        let out ← driverStep d
        pure ({ (e.hold "got" out.fds) with d := some out.d }, out.evs) }
def stop : Act :=
  { step := true, run := fun e =>
      match e.d with
      | none => pure (e, [])
      | some d => do
        let _ ← driverStop d.pipeFrom
        pure ({ e with d := some { d with bumps := d.bumps + 1 } }, []) }

/-- scenario = acts + teardown order (mirrors `harness/scen/faults.cpp`) -/
def scenario (name : String) : Option (List Act × List String) :=
  match name with
  | "addr_uri" | "addr_hostserv" | "addr_port" => some ([mk true "a" addrCtor], ["a"])
  | "addr_tostring" => some ([mk true "x" addrPrint, mk true "x" addrPrint, mk true "x" addrPrint], [])
  | "udp_ctor" => some ([mk true "s" udpCtor], ["s"])
  | "tcp_ctor" => some ([mk true "s" tcpCtor], ["s"])
  | "acceptor_ctor" => some ([mk true "s" acceptorCtor], ["s"])
  | "udp_ops" => some ([mk false "s" udpCtor, opOn "s" udpSendTo, opOn "s" udpSendTo, opOn "s" udpReceiveFrom,
      opOn "s" (query .getsockname), opOn "s" (query .getsockopt)], ["s"])
  | "tcp_ops" => some ([mk false "s" tcpCtor, opOn "s" (tcpSend · 0), opOn "s" (tcpSend · 0), opOn "s" (tcpSend · 0),
      opOn "s" tcpReceive, opOn "s" (query .getsockname), opOn "s" (query .getpeername), opOn "s" (query .getsockopt)], ["s"])
  | "acceptor_listen" => some ([mk false "acc" acceptorCtor, opOn "acc" (acceptorListen true), opOn "acc" (query .getsockname)],
      ["got", "acc"])
  | "acceptor_listen_timeout" => some ([mk false "acc" acceptorCtor, opOn "acc" (acceptorListen false)], ["acc"])
  | "udp_buffered_ctor" => some ([mk false "s" udpCtor, consume true "b" "s" (.buffered true)], ["b", "s"])
  | "tcp_buffered_ctor" => some ([mk false "s" tcpCtor, consume true "b" "s" (.buffered true)], ["b", "s"])
  | "udp_buffered_ops" => some ([mk false "s" udpCtor, opOn "s" udpSendTo, opOn "s" udpReceiveFrom, opOn "s" (query .getsockname)], ["s"])
  | "tcp_buffered_ops" => some ([mk false "s" tcpCtor, opOn "s" (tcpSend · 0), opOn "s" tcpReceive,
      opOn "s" (query .getsockname), opOn "s" (query .getpeername)], ["s"])
  | "driver_ctor" => some ([mk true "drv" driverCtor], ["drv"])
  | "driver_step_empty" => some ([mkDriver, drive], ["drv"])
  | "driver_stop_step" => some ([mkDriver, stop, drive, drive], ["drv"])
  | "udp_async_attach" => some ([mkDriver, mk false "b" udpCtor, consume true "s" "b" .udpAsync,
      opOn "s" (query .getsockname), drive], ["s", "b", "drv"])
  | "tcp_async_attach" => some ([mkDriver, mk false "b" tcpCtor, consume true "s" "b" .tcpAsync,
      opOn "s" (query .getsockname), opOn "s" (query .getpeername), drive], ["s", "b", "drv"])
  | "acceptor_async_attach" => some ([mkDriver, mk false "a" acceptorCtor, consume true "s" "a" .acceptorAsync,
      opOn "s" (query .getsockname), drive], ["s", "a", "drv"])
  | "tcp_async_recv" => some ([mkDriver, mk false "s" tcpCtor, attach "s" .tcp 1 0, drive, drive], ["s", "drv"])
  | "tcp_async_send" => some ([mkDriver, mk false "s" tcpCtor, attach "s" .tcp 0 2, drive, drive, drive], ["s", "drv"])
  | "udp_async_recv" => some ([mkDriver, mk false "s" udpCtor, attach "s" .udp 1 0, drive, drive], ["s", "drv"])
  | "udp_async_send" => some ([mkDriver, mk false "s" udpCtor, attach "s" .udp 0 2, drive, drive, drive], ["s", "drv"])
  | "acceptor_async_accept" => some ([mkDriver, mk false "s" acceptorCtor, attach "s" .acc 1 0, drive, drive], ["got", "s", "drv"])
  | _ => none

structure MStep where
  id : Nat
  outcome : Except Exn Unit
  evs : List Ev

structure MRound where
  steps : List MStep
  firstTeardownStep : Nat

/-- run one round; step ids continue from `sid` -/
def runRound (acts : List Act) (td : List String) (o : Oracle) (L : Ledger) (sid : Nat) : MRound × Ledger × Nat :=
  let (env, L, sid, steps) := acts.foldl (init := (({} : Env), L, sid, ([] : List MStep))) fun (env, L, sid, steps) a =>
    if a.step then
      let L := { L with step := sid }
      match a.run env o L with
      | (.ok (env', evs), L') => (env', L', sid + 1, steps ++ [⟨sid, .ok (), evs⟩])
      | (.error e, L') => (a.onFail env, L', sid + 1, steps ++ [⟨sid, .error e, []⟩])
    else
      let L := { L with step := sid }
      match quiet (a.run env) o L with
      | (.ok (env', _), L') => (env', L', sid, steps)
      | (.error _, L') => (env, L', sid, steps)
  -- teardown: destroy what is held, in the harness' order (step id `sid` marks the teardown closes)
  let L := { L with step := sid }
  let L := td.foldl (init := L) fun L v => (destroy (env.fds v) o L).2
  -- anything else still held (should not happen) is destroyed too, so that a model leak shows as a mismatch
  (⟨steps, sid⟩, L, sid + 1)

def runModel (acts : List Act) (td : List String) (o : Oracle) (rounds : Nat) : List MRound × Ledger :=
  let (rs, L, _) := (List.range rounds).foldl (init := (([] : List MRound), ({} : Ledger), 0)) fun (rs, L, sid) _ =>
    let (r, L', sid') := runRound acts td o L sid
    (rs ++ [r], L', sid')
  (rs, L)

def exnWords : Exn → List String
  | .system e => ["exn", "system", toString e]
  | .address e => ["exn", "address", toString e]
  | .logic => ["exn", "logic", "0"]
  | .runtime => ["exn", "runtime", "0"]

def evWord : Ev → Option String
  | .receive _ => some "receive" | .receiveFrom _ => some "receivefrom" | .connect .. => some "connect"
  | .disconnect _ => some "disconnect" | .futureValue _ => some "future value" | .futureExn _ => some "future exn"
  | .discarded _ => none

/-- normalise an observed event: drop payload sizes and exception classes -/
def normEv (e : String) : String :=
  match words e with
  | "receive" :: _ => "receive"
  | "receivefrom" :: _ => "receivefrom"
  | "future" :: "exn" :: _ => "future exn"
  | w => " ".intercalate w

def fdLabel (fd : Fd) : String := s!"fd{fd}"

/-- calls whose relative order the model insists on (the rest may float) -/
def ordered (name : String) : Bool :=
  ["socket", "accept", "bind", "connect", "listen", "poll", "send", "sendto", "recv", "recvfrom", "getaddrinfo"].contains name

def sortStrings (l : List String) : List String := (l.toArray.qsort (· < ·)).toList

/-- observed failing calls in time order: (global step index, name, occurrence of that name within the step, code) -/
def observedFaults (rounds : List RoundObs) : List (Nat × String × Nat × Int) :=
  let (_, acc) := rounds.foldl (init := (0, [])) fun (sid, acc) r =>
    let (sid, acc) := r.steps.foldl (init := (sid, acc)) fun (sid, acc) s =>
      let (_, acc) := s.items.foldl (init := (([] : List String), acc)) fun (seen, acc) it =>
        match it with
        | .sys name _ cls code _ =>
          let k := (seen.filter (· == name)).length
          (name :: seen, if cls == "fault" || cls == "err" then acc ++ [(sid, name, k, code)] else acc)
        | _ => (seen, acc)
      (sid + 1, acc)
    (sid + 1, acc)   -- the teardown takes one step id
  acc

/-- position (index into the oracle) of the k-th call `name` of step `sid` in the model trace -/
def findPos (L : Ledger) (sid : Nat) (name : String) (k : Nat) : Option Nat :=
  let tr := L.trace.reverse
  let idx := (List.range tr.length).filter fun i =>
    match tr[i]? with
    | some c => c.step == sid && sysName c.sys == name
    | none => false
  idx[k]?

def oracleOf (faults : List (Nat × Int)) : Oracle := fun i => (faults.find? (·.1 == i)).map (·.2)

def check (c : CaseObs) : Verdict :=
  match c.bad with
  | some b => Verdict.corr s!"harness rejected the case: {b}"
  | none =>
  if c.plan.head? == some "none" then { tags := ["plan.none"] } else
  let ctx : Spec.Ctx := { scen := c.scen, plan := c.plan, discards := udpOrAcceptorScenario c.scen }
  -- 1. the property, on the observations alone: `Spec.specRun` (a crash / an unfinished run first)
  let pre : List Spec.Obs := (match c.crash with | some w => [.crash w] | none => []) ++ (if c.done then [] else [.incomplete])
  match Spec.specRun ctx {} pre with
  | .error msg => Verdict.spec msg
  | .ok _ =>
  match c.rounds.mapM roundObs with
  | .error m => Verdict.corr s!"{c.scen} faults {c.plan}: malformed transcript: {m}"
  | .ok obs =>
  match Spec.specRun ctx {} obs.flatten with
  | .error msg => Verdict.spec msg
  | .ok sp =>
  let tags := sp.tags
  -- 2. correspondence with the model
  match scenario c.scen with
  | none => Verdict.corr s!"no model program for scenario {c.scen}" tags
  | some (acts, td) =>
    let nr := c.rounds.length
    let obsF := observedFaults c.rounds
    -- translate the observed failures into oracle positions, one after the other
    let trans : Except String (List (Nat × Int)) := obsF.foldlM (init := []) fun fs (sid, name, k, code) =>
      let (_, L) := runModel acts td (oracleOf fs) nr
      match findPos L sid name k with
      | some p => .ok (fs ++ [(p, code)])
      | none => .error s!"observed failing call {name}#{k} of step {sid} has no counterpart in the model program"
    match trans with
    | .error m => Verdict.corr s!"{c.scen} faults {c.plan}: {m}" tags
    | .ok fs =>
      let (mrs, L) := runModel acts td (oracleOf fs) nr
      if L.closedTwice || L.closedForeign then Verdict.corr s!"{c.scen}: model closes twice / foreign" tags else
      if !L.live.isEmpty then Verdict.corr s!"{c.scen}: model leaks {L.live}" tags else
      let problems : List String := (c.rounds.zip mrs).flatMap fun (ro, mr) =>
        let stepProblems := (ro.steps.zip mr.steps).flatMap fun (so, ms) =>
          let mOut := match ms.outcome with | .ok _ => ["ok"] | .error e => exnWords e
          let mEvs := ms.evs.filterMap evWord
          let oEvs := so.evs.map normEv
          let mCloses := sortStrings ((L.closes.filter (·.1 == ms.id)).map (fdLabel ·.2))
          let oCloses := sortStrings (so.items.filterMap fun | .close fd => some fd | _ => none)
          let mCalls := (L.trace.reverse.filter (·.step == ms.id)).map fun c => (sysName c.sys, (c.fd.map fdLabel).getD "-")
          let oCalls := so.items.filterMap fun | .sys n fd _ _ _ => some (n, fd) | _ => none
          let traceProblem :=
            if so.items.any Item.isFail then []
            else
              let key (p : String × String) := if p.1 == "poll" then p.1 else p.1 ++ " " ++ p.2
              if sortStrings (mCalls.map key) != sortStrings (oCalls.map key) then
                [s!"step {ms.id}: calls {oCalls.map key} differ from the model's {mCalls.map key}"]
              else if (mCalls.map (·.1)).filter ordered != (oCalls.map (·.1)).filter ordered then
                [s!"step {ms.id}: order of calls {oCalls.map (·.1)} is not an extension of the model's {mCalls.map (·.1)}"]
              else []
          (if mOut != so.outcome then [s!"step {ms.id}: outcome {so.outcome}, model {mOut}"] else []) ++
          (if mEvs != oEvs then [s!"step {ms.id}: events {oEvs}, model {mEvs}"] else []) ++
          (if mCloses != oCloses then [s!"step {ms.id}: closes {oCloses}, model {mCloses}"] else []) ++ traceProblem
        let mTd := sortStrings ((L.closes.filter (·.1 == mr.firstTeardownStep)).map (fdLabel ·.2))
        let oTd := sortStrings (ro.teardown.filterMap fun | .close fd => some fd | _ => none)
        let lenProblem := if ro.steps.length != mr.steps.length then
          [s!"{ro.steps.length} steps observed, model has {mr.steps.length}"] else []
        lenProblem ++ stepProblems ++ (if mTd != oTd then [s!"teardown closes {oTd}, model {mTd}"] else [])
      match problems.head? with
      | some p => Verdict.corr s!"{c.scen} faults {c.plan}: {p}" tags
      | none =>
        let discards := (mrs.flatMap (·.steps)).flatMap (·.evs) |>.filter (fun e => match e with | .discarded _ => true | _ => false)
        let t2 := (if discards.isEmpty then [] else ["discarded"]) ++
          (if obsF.length ≥ 2 then ["faults.2"] else if obsF.length = 1 then ["faults.1"] else ["faults.0"]) ++
          [s!"scen.{c.scen}"]
        { tags := t2 ++ tags }

def runCase (body : List String) : Verdict := check (parseCase body)

end SockModel.Drive.C14

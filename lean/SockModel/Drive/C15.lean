import SockModel.Drive.C18
import SockModel.Spec.C15
/-! Driver for C15 (peer failure at any point is reported, never fatal).

Transcripts come from `harness/scen/peerfail.cpp` and use the event vocabulary of the C18 driver.

* **spec**: every line is parsed into a typed observation (`toObs`, `PeerFail.Spec.Obs`) and the property
  predicate of `Spec/C15.lean` - `specRun`, then `specFinal` - is evaluated on the observations only.  This file
  contains no property clause of its own (one source of truth; `PeerFail.Spec.model_satisfies_spec_partial` proves that the
  predicate accepts every trace of the plain-socket model).
* **correspondence**: the machinery of the C18 driver is reused (`C18.go`, which checks no property clause): the
  kernel's (and, for TLS, the engine's) answers are replayed into the model, which must make the same calls and
  produce the same outcome - i.e. the observed outcome is a member of the set the model allows for this
  reaction of the kernel.
-/
namespace SockModel.Drive.C15
open SockModel SockModel.Drive SockModel.Net SockModel.Tls SockModel.Drive.C18
open SockModel.PeerFail.Spec

def setupC15 (m : List (String × String)) : List C18.EpSt :=
  let kind := kvGet m "x"
  [{ name := "x", kind := kind, tls := kvGet m "tls" == "1", driver := if kind == "async" then "dx" else "",
     rsz := (kvGet m "rsz").toNat?.getD 4096 }]

/-! ### parsing lines into observations -/

def phaseOf (c : Char) : Phase := if c == 'r' then .r else if c == 's' then .s else .other

def killKindOf (k : String) : KillKind :=
  if k == "close" then .close else if k == "shutwr" then .shutwr else if k == "rst" then .rst else .other k

def futOfWord (r : String) : Fut :=
  if r == "ok" then .ok else if r == "exn" then .exn else if r == "pending" then .pending
  else if r == "broken" then .broken else .other

def apiOpOf (op : String) : ApiOp := if op == "send" then .send else if op == "recv" then .recv else .other

/-- an event line (`-> <event>`) -/
def evObs : Ev → Option Obs
  | .api who op args => if who == "x" then some (.api (apiOpOf op) (args.head?.bind String.toInt?)) else none
  | .os who (.poll _ t ready) => if who == "x" then some (.poll t ready) else none
  | .os who (.send _ ns _) => some (.send who ns)
  | .ret who rest =>
    if who == "x" then
      match rest with
      | "throw" :: cls :: what => some (.ret (.threw (cls == "logic_error") (what.contains "send:")))
      | _ => some (.ret .returned)
    else if who == "dx" then
      match rest with
      | "throw" :: r => some (.stepThrew (" ".intercalate r))
      | _ => none
    else none
  | .rx who n => if who == "x" then some (.rx n) else none
  | .disc who why => if who == "x" then some (.disc (why.contains "send:")) else none
  | .enq _ _ => some .enq
  | .fut _ i res => some (.fut i (futOfWord res))
  | .other ("peer" :: "kill" :: kind :: _ :: read :: _) =>
    let num := match read.splitOn "=" with | [_, v] => v | _ => "0"
    some (.kill (killKindOf kind) (num.toNat?.getD 0))
  | .other ["destroy", _] => some .destroy
  | _ => none

/-- one transcript line (op line or `-> …` observation line) as a typed observation; `none`: the line has no
meaning for the property -/
def toObs (l : String) : Option Obs :=
  match words l with
  | "->" :: "crash" :: x => some (.abort .crash (" ".intercalate x))
  | "->" :: "hang" :: x => some (.abort .hang (" ".intercalate x))
  | "->" :: "killed" :: x => some (.abort .killed (" ".intercalate x))
  | "->" :: "harness-error" :: _ => none
  | "->" :: "setup" :: "ok" :: kvs =>
    let m := kvOf kvs
    some (.payload ((hexDecode (if kvGet m "spay" == "" then kvGet m "ppay" else kvGet m "spay")).getD []))
  | "->" :: "loopend" :: _ :: _ => none
  | "->" :: "wire" :: _ => none
  | "->" :: "rawgot" :: _ => none
  | "->" :: "rawsent" :: _ => none
  | "->" :: "got" :: rest =>
    match rest with
    | ["x", h] => some (.got ((hexDecode h).getD []))
    | "x" :: _ => some (.got [])
    | _ => none
  | "->" :: "state" :: rest =>
    match rest with
    | "x" :: kvs => some (.state ((kvGet (kvOf kvs) "psent").toNat?.getD 0))
    | _ => none
  | "->" :: "pre" :: "done" :: r => some (.pre ((kvGet (kvOf r) "xsent").toNat?.getD 0))
  | "->" :: ev => evObs (parseEv ev)
  | "setup" :: kvs =>
    let m := kvOf kvs
    some (.setup (kvGet m "x" == "async") (kvGet m "tls" == "1"))
  | "after" :: r =>
    let m := kvOf r
    some (.after ((kvGet m "order").toList.map phaseOf) ((kvGet m "big").toNat?.getD 0))
  | _ => none

/-- correspondence only: the C18 walker (it checks no property clause) with the endpoint of this scenario -/
def hooksCorr : Hooks := { setup := setupC15 }

def runWith (C : Cfg) (body : List String) : Verdict :=
  let (pre, herr) := cutAtHarnessError body
  match specRun {} (pre.filterMap toObs) with
  | .error m => Verdict.spec m
  | .ok s =>
    match herr with
    | some m => Verdict.corr m
    | none =>
      match specFinal s with
      | some m => Verdict.spec m
      | none => go C hooksCorr {} body

def runCase (body : List String) : Verdict := runWith Cfg.current body

end SockModel.Drive.C15

import SockModel.Drive.C18
/-! Driver for C15 (peer failure at any point is reported, never fatal).

Transcripts come from `harness/scen/peerfail.cpp` and use the event vocabulary of the C18
driver, whose machinery is reused: the kernel's (and, for TLS, the engine's) answers are replayed
into the model, which must make the same calls and produce the same outcome - i.e. the observed
outcome is a member of the set the model allows for this reaction of the kernel.  `Spec.C15` below
looks at observations only. -/
namespace SockModel.Drive.C15
open SockModel SockModel.Drive SockModel.Net SockModel.Tls SockModel.Drive.C18

def setupC15 (m : List (String × String)) : List EpSt × String :=
  let kind := kvGet m "x"
  ([{ name := "x", kind := kind, tls := kvGet m "tls" == "1", driver := if kind == "async" then "dx" else "",
      rsz := (kvGet m "rsz").toNat?.getD 4096 }], "none")

/-- facts are collected as word lists in `finals`:
`kill <kind> <psent> <pread>`, `threw-after-kill`, `enq`, `futres <res>`, `disc-before-enq`, `destroyed` -/
def evC15 (d : DSt) (e : Ev) : Except String DSt := do
  let d ← specEv { d with plain := "none" } e
  let killed := d.finals.any (·.head? == some "kill")
  match e with
  | .other ("peer" :: "kill" :: kind :: sent :: read :: _) =>
    let num := fun (t : String) => match t.splitOn "=" with | [_, v] => v | _ => "0"
    pure { d with finals := ["kill", kind, num sent, num read] :: d.finals }
  | .other ["destroy", _] => pure { d with finals := ["destroyed"] :: d.finals }
  | .ret "x" ("throw" :: cls :: what) =>
    if cls == "logic_error" then throw s!"x: std::logic_error escaped ({cls}) - a peer failure must be reported as a runtime error"
    else
      let recvOp := (d.ep? "x").map (·.recvOp) == some true
      let d := if recvOp ∧ what.contains "send:" then { d with finals := ["send-error-ended-receive"] :: d.finals } else d
      pure (if killed then { d with finals := ["threw-after-kill"] :: d.finals } else d)
  | .disc "x" why =>
    pure (if why.contains "send:" then { d with finals := ["send-error-ended-receive"] :: d.finals } else d)
  | .ret "dx" ("throw" :: rest) => throw s!"Driver::Step threw instead of reporting through the handlers: {" ".intercalate rest}"
  | .enq _ _ =>
    let afterDisc := (d.ep? "x").map (·.discSeen) != some 0
    pure { d with finals := (if afterDisc then ["enq", "after-disc"] else ["enq", "live"]) :: d.finals }
  | .fut _ i res =>
    -- the i-th enqueued buffer (oldest first)
    let enqs := (d.finals.filter (·.head? == some "enq")).reverse
    let late := match enqs[i]? with | some ["enq", "after-disc"] => true | _ => false
    if res == "ok" && late then throw s!"future {i} of a buffer enqueued after the disconnect reports success"
    else if res == "pending" then throw s!"future {i} still unresolved after the socket was destroyed"
    else if res == "broken" ∧ ¬ d.finals.any (· == ["destroyed"]) then
      throw s!"future {i} was abandoned (broken promise) while the socket is still alive - its failure was swallowed"
    else pure { d with finals := ["futres", res] :: d.finals }
  | _ => pure d

def finalC15 (d : DSt) : Option String := Id.run do
  let some ep := d.ep? "x" | return some "no endpoint"
  let got := hexOf d "got" "x"
  let st := stateOf d "x"
  let psent := (kvGet st "psent").toNat?.getD 0
  let kill := d.finals.find? (·.head? == some "kill")
  let (kind, pread) := match kill with
    | some [_, k, _, r] => (k, r.toNat?.getD 0)
    | _ => ("", 0)
  -- what was delivered is a prefix of what the peer sent
  if ¬ got.isPrefixOf d.spay then return some s!"x: delivered bytes are not a prefix of what the peer sent ({got.length} bytes)"
  if got.length > psent then return some s!"x: delivered {got.length} bytes, the peer only sent {psent}"
  if kind == "" then return none
  let order := kvGet (kvOf (d.finals.findSome? (fun w => if w.head? == some "after" then some w else none) |>.getD [])) "order"
  let big := (kvGet (kvOf (d.finals.findSome? (fun w => if w.head? == some "after" then some w else none) |>.getD [])) "big").toNat?.getD 0
  let threw := d.finals.any (· == ["threw-after-kill"])
  let xsentAtKill := (kvGet (kvOf (d.finals.findSome? (fun w => if w.head? == some "pre" then some w else none) |>.getD [])) "xsent").toNat?.getD 0
  -- the failure is reported
  if ep.kind == "async" then
    if ep.discSeen ≠ 1 ∧ order ≠ "" then return some s!"x: disconnect handler ran {ep.discSeen} times after the peer's {kind}"
    let enqs := (d.finals.filter (·.head? == some "enq")).length
    let futs := (d.finals.filter (·.head? == some "futres")).length
    if d.finals.any (· == ["destroyed"]) ∧ enqs ≠ futs then return some s!"x: {enqs} buffers were enqueued but {futs} futures resolved or broke"
  else
    if order.contains 'r' ∧ ¬ threw then return some s!"x: Receive never reported the peer's {kind} (no exception)"
    if order.contains 's' ∧ kind ≠ "shutwr" ∧ big ≥ 1000000 ∧ ¬ threw then
      return some s!"x: Send of {big} more bytes never reported the peer's {kind} (no exception)"
  -- orderly close: the complete stream
  let orderly := kind == "shutwr" ∨ (kind == "close" ∧ pread ≥ xsentAtKill)
  let readFirst := ep.kind == "async" ∨ order.startsWith "r"
  if orderly ∧ readFirst ∧ order ≠ "" ∧ got.length ≠ psent then
    if ep.tls ∧ d.finals.any (· == ["send-error-ended-receive"]) then
      return some s!"tls-write-error-in-receive: x (TLS) reported the peer's orderly {kind} through a failed SEND inside Receive (session tickets), delivering {got.length} of the {psent} bytes the peer had sent"
    return some s!"x: orderly {kind} after the peer had sent {psent} bytes, but only {got.length} were delivered before the report"
  return none

/-- op lines the spec needs are remembered as well -/
def hooksC15 : Hooks := { final := finalC15, ev := evC15, setup := setupC15 }

partial def runWith (C : Cfg) (body : List String) : Verdict :=
  -- `after ...` op lines and the `-> pre done ...` observation are kept for the spec
  let extra := body.filterMap fun l =>
    match words l with
    | "after" :: r => some ("after" :: r)
    | "->" :: "pre" :: "done" :: r => some ("pre" :: r)
    | _ => none
  go C hooksC15 { finals := extra, strictInit := false } body

def runCase (body : List String) : Verdict := runWith Cfg.current body

end SockModel.Drive.C15

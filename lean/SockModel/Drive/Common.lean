import SockModel.Basic
/-! Line-protocol plumbing shared by all per-property drivers.

A transcript is a sequence of blocks
```
case <id>
<op line>
-> <observation of the implementation>
...
end <id>
```
The driver of property Cxx re-runs the model on the op lines, compares with the
observations (correspondence) and evaluates `Spec.Cxx` on the observations alone
(direct check).  Output: one line per case,
`case <id> ok <branch tags>` or `case <id> FAIL <corr|spec> <message>`.
-/
namespace SockModel.Drive

structure Verdict where
  fail : Option (String × String) := none
  tags : List String := []
  deriving Inhabited

def Verdict.corr (msg : String) (tags : List String := []) : Verdict := { fail := some ("corr", msg), tags }
def Verdict.spec (msg : String) (tags : List String := []) : Verdict := { fail := some ("spec", msg), tags }

/-- group lines into (id, body) blocks -/
def splitCases (lines : List String) : List (String × List String) :=
  let rec go (ls : List String) (cur : Option (String × List String)) (acc : List (String × List String)) :=
    match ls with
    | [] => acc.reverse
    | l :: rest =>
      if l.startsWith "case " then go rest (some ((l.drop 5).trimAscii.toString, [])) acc
      else if l.startsWith "end " then
        match cur with
        | some (id, body) => go rest none ((id, body.reverse) :: acc)
        | none => go rest none acc
      else match cur with
        | some (id, body) => go rest (some (id, l :: body)) acc
        | none => go rest none acc
  go lines none []

def dedup (l : List String) : List String :=
  l.foldl (fun acc x => if acc.contains x then acc else acc ++ [x]) []

def render (id : String) (v : Verdict) : String :=
  match v.fail with
  | none => s!"case {id} ok " ++ " ".intercalate (dedup v.tags)
  | some (k, m) => s!"case {id} FAIL {k} {m}"

/-- is this an observation line? returns the words after "->" -/
def obs? (l : String) : Option (List String) :=
  match words l with
  | "->" :: rest => some rest
  | _ => none

end SockModel.Drive

import SockModel.Drive.Common
import SockModel.Drive.C02
import SockModel.Spec.C09
/-! Driver for C09: validates UDP transcripts (`harness/scen/udp.cpp`).

Every op line with its `->` observation lines is parsed into ONE typed observation `Udp.Obs`
(`Spec/C09.lean`).  Then
* spec: `Udp.specStep` - the property predicate of `Spec/C09.lean`, on the observations only; this
  file contains no property clause of its own (one source of truth; `Udp.model_satisfies_spec` proves
  that the predicate accepts every trace of the model);
* correspondence: `Udp.sysStep` - the composed model (`sendTo`, the datagram network, the per-socket
  `SendToQ`, the driver's dispatch order) performs the same operation with the same OS answers and must
  produce the same observation.
-/
namespace SockModel.Drive.C09
open SockModel SockModel.Drive SockModel.Udp
open SockModel.AsyncQ (Bytes Fut)
open SockModel.Drive.C02 (takeObs parseRet)

structure CSt where
  sys : Sys := {}          -- model (correspondence)
  sp : SpecSt := {}        -- reference book-keeping of the property (observations only)
  lastFail : Bool := false
  tags : List String := []

def parseScript : List String → Script
  | ["fail", e] => .fail (e.toNat?.getD 0)
  | ["short", k] => .short (k.toNat?.getD 0)
  | ["timeout"] => .timeout
  | _ => .pass

def parseSrc (s : String) : Src :=
  match s.toNat? with
  | some n => .ord n
  | none => .unknown s

def parseKind (s : String) : Kind :=
  if s = "basic" then .basic else if s = "buff" then .buff else .async   -- as the harness: anything else is async

/-- the `st fut=... ret=...` line -/
def parseState (obs : List (List String)) : Except String StObs :=
  match obs.find? (fun o => o.head? == some "st") with
  | some ["st", f, r] =>
    let f := (f.drop 4).toString
    let f := if f = "-" then "" else f
    match parseRet (r.drop 4).toString with
    | some ret => .ok ⟨f.toList, ret⟩
    | none => .error "bad state line"
  | _ => .error "missing state observation"

/-- branch tags of a report of receiver `i` with `room` bytes of room (evidence only) -/
def reportTags (sp : SpecSt) (i room : Nat) : List String :=
  match sp.expect i with
  | (p, _) :: _ =>
    (if p.length > room then "recv.trunc" else if p.length = room then "recv.exact" else "recv.fits")
      :: (if p.isEmpty then ["recv.empty"] else [])
  | [] => []

def sendTag (len : Nat) (t : Int) (sc : Script) : SendObs → String
  | .ret _ => if sc = .timeout ∧ t ≥ 0 then "send.timeout" else if len = 0 then "send.empty" else "send.ok"
  | .throwSystem _ => match sc with | .fail _ => "send.fail" | _ => "send.emsgsize"
  | .throwLogic => "send.short"
  | .other _ => "send.other"

/-- correspondence: same observation (the order of `ret=` is the harness' order of discovery: the
property compares it as a set, the model lists it in `SendTo` order) -/
def sameObs : Obs → Obs → Bool
  | .asend i j m n st, .asend i' j' m' n' st' =>
    decide (i = i' ∧ j = j' ∧ m = m' ∧ n = n' ∧ st.futs = st'.futs) && sameSet st.ret st'.ret
  | .step ev st, .step ev' st' => decide (ev = ev' ∧ st.futs = st'.futs) && sameSet st.ret st'.ret
  | .destroy i st, .destroy i' st' => decide (i = i' ∧ st.futs = st'.futs) && sameSet st.ret st'.ret
  | a, b => decide (a = b)

def Obs.futs? : Obs → Option (List Char)
  | .asend _ _ _ _ st => some st.futs
  | .step _ st => some st.futs
  | .destroy _ st => some st.futs
  | _ => none

/-- spec on the observation `o`, then the model performs `op` and must observe the same -/
def CSt.apply (c : CSt) (l : String) (o : Obs) (op : Op) (tags : List String) : Except Verdict CSt :=
  match specStep c.sp o with
  | .error msg => .error (Verdict.spec s!"after '{l}': {msg}" c.tags)
  | .ok sp' =>
    let (sys', mo) := sysStep c.sys op
    match mo with
    | [o'] =>
      if sameObs o o' then .ok { c with sys := sys', sp := sp', tags := tags ++ c.tags }
      else
        match Obs.futs? o, Obs.futs? o' with
        | some f, some mf =>
          if f ≠ mf then .error (Verdict.corr s!"after '{l}': futures impl {String.ofList f} model {String.ofList mf}" c.tags)
          else .error (Verdict.corr s!"after '{l}': impl {repr o} model {repr o'}" c.tags)
        | _, _ => .error (Verdict.corr s!"after '{l}': impl {repr o} model {repr o'}" c.tags)
    | _ => .error (Verdict.corr s!"after '{l}': the model does not perform this operation (harness precondition violated: unknown / destroyed / re-used socket or message id)" c.tags)

def abortV (c : CSt) (msg : String) : Verdict :=
  match specStep c.sp (.abort msg) with
  | .error m => Verdict.spec m c.tags
  | .ok _ => Verdict.spec msg c.tags

partial def go (c : CSt) : List String → Verdict
  | [] => { tags := c.tags }
  | l :: rest =>
    let w := words l
    if w.isEmpty then go c rest else
    match w with
    | "->" :: "crash" :: x => abortV c ("crash: " ++ " ".intercalate x)
    | "->" :: "hang" :: x => abortV c ("hang: " ++ " ".intercalate x)
    | "->" :: _ => go c rest
    | _ =>
      let (obs, rest') := takeObs rest []
      match obs.find? (fun o => o.head? == some "crash" ∨ o.head? == some "hang") with
      | some o => abortV c s!"after '{l}': {" ".intercalate o}"
      | none =>
      match obs.find? (fun o => o.take 2 == ["throw", "harness"]) with
      | some o => Verdict.corr s!"after '{l}': {" ".intercalate o}" c.tags
      | none =>
      let next (r : Except Verdict CSt) : Verdict := match r with | .error v => v | .ok c => go c rest'
      match w with
      | ["fam", f] =>
        let n := f.toNat?.getD 4
        next (c.apply l (.fam n) (.fam n) [if f = "6" then "v6" else "v4"])
      | "sock" :: i :: kind :: args =>
        let i := i.toNat?.getD 0
        let rx := match args with | [_, s] => s.toNat?.getD 0 | _ => 0
        next (c.apply l (.sock i (parseKind kind) rx) (.sock i (parseKind kind) rx) ["sock." ++ kind])
      | "sendto" :: i :: j :: m :: len :: t :: script =>
        match i.toNat?, j.toNat?, m.toNat?, len.toNat?, t.toInt? with
        | some i, some j, some m, some len, some t =>
          let sc := parseScript script
          let r : SendObs :=
            match obs with
            | [["ret", n]] => match n.toNat? with | some n => .ret n | none => .other "bad ret"
            | [["throw", "system", e]] => match e.toNat? with | some e => .throwSystem e | none => .other s!"unexpected result {obs}"
            | ("throw" :: "logic" :: _) :: _ => .throwLogic
            | o => .other s!"unexpected result {o}"
          next (c.apply l (.sendto i j m len t sc r) (.sendto i j m len t sc) [sendTag len t sc r])
        | _, _, _, _, _ => Verdict.corr s!"bad line {l}" c.tags
      | ["asend", i, j, m, len] =>
        match i.toNat?, j.toNat?, m.toNat?, len.toNat? with
        | some i, some j, some m, some len =>
          if obs.any (· == ["nobuf"]) then next (c.apply l .asendNoBuf (.asend i j m len true) ["nobuf"]) else
          match parseState obs with
          | .error e => Verdict.corr s!"after '{l}': {e}" c.tags
          | .ok st => next (c.apply l (.asend i j m len st) (.asend i j m len false) ["asend"])
        | _, _, _, _ => Verdict.corr s!"bad line {l}" c.tags
      | "step" :: script =>
        let sc := parseScript script
        let sys := obs.filter (fun o => o.head? == some "sys")
        let evs := obs.filter (fun o => o.head? == some "ev")
        -- what the step did, typed
        let ev : Except Verdict StepEv :=
          match obs.find? (fun o => o.head? == some "throw") with
          | some o => .ok (.threw (" ".intercalate o))
          | none =>
          if sys.length + evs.length > 1 then .ok .many else
          match sys, evs with
          | [], [] => .ok .nothing
          | [], [["ev", "recv", i, len, hash, src]] =>
            match i.toNat?, len.toNat?, hash.toNat? with
            | some i, some len, some hash => .ok (.recv i len hash (parseSrc src))
            | _, _, _ => .error (Verdict.corr "bad ev" c.tags)
          | [("sys" :: "sendto" :: i :: len :: res)], [] =>
            match i.toNat?, len.toNat? with
            | some i, some len =>
              .ok (.sendto i len (if res == [toString len] then .full else if res.head? == some "fail" then .fail else .other (toString res)))
            | _, _ => .error (Verdict.corr "bad sys" c.tags)
          | _, _ => .error (Verdict.corr s!"after '{l}': unparsable step observations" c.tags)
        match ev with
        | .error v => v
        | .ok ev =>
        let stE := parseState obs
        let aborted := match ev with | .threw _ => true | .many => true | _ => false
        match stE, aborted with
        | .error e, false => Verdict.corr s!"after '{l}': {e}" c.tags
        | _, _ =>
        let st : StObs := match stE with | .ok st => st | .error _ => ⟨[], []⟩
        let pick := c.sys.pick.map (·.i)
        -- harness / dispatch sanity (correspondence), reported only when the property holds on the observation
        let pre : Option Verdict :=
          match ev with
          | .recv i _ _ _ => if (c.sys.sock i).isNone then some (Verdict.corr s!"unknown socket {i}" c.tags) else none
          | _ => none
        match pre with
        | some v => v
        | none =>
        let osFail := match ev with | .sendto _ _ .fail => true | _ => false
        let tags : List String :=
          match ev with
          | .recv i _ _ _ =>
            match c.sys.sock i with
            | some k => "arecv" :: reportTags c.sp i (room k 0)
            | none => []
          | .sendto _ _ .full => if c.lastFail then ["asend.ok", "asend.after_fail"] else ["asend.ok"]
          | .sendto _ _ .fail => ["asend.fail"]
          | _ => []
        match specStep c.sp (.step ev st) with
        | .error msg => Verdict.spec s!"after '{l}': {msg}" c.tags
        | .ok _ =>
        let corr : Option Verdict :=
          match ev with
          | .nothing =>
            if pick.isSome then some (Verdict.corr s!"after '{l}': model dispatches socket {repr pick}, impl did nothing" c.tags) else none
          | .recv i _ _ _ =>
            if pick ≠ some i ∨ (c.sys.net.chan i).isEmpty then
              some (Verdict.corr s!"after '{l}': model dispatches {repr pick}, impl received on {i}" c.tags) else none
          | .sendto i len res =>
            let scriptedFail : Bool := match sc with | .fail _ => true | _ => false
            if osFail && !scriptedFail && !(decide (len > maxPayload c.sys.fam)) then
              some (Verdict.corr s!"after '{l}': unexpected sendto failure {repr res}" c.tags)
            else if pick ≠ some i ∨ ¬ (c.sys.net.chan i).isEmpty then
              some (Verdict.corr s!"after '{l}': model dispatches {repr pick}, impl sent on {i}" c.tags) else none
          | _ => none
        match corr with
        | some v => v
        | none =>
          let c := match ev with | .sendto _ _ _ => { c with lastFail := osFail } | _ => c
          next (c.apply l (.step ev st) (.step osFail) tags)
      | ["recv", i, size, t] =>
        match i.toNat?, size.toNat?, t.toInt? with
        | some i, some size, some t =>
          match c.sys.sock i with
          | none => Verdict.corr s!"unknown socket {i}" c.tags
          | some k =>
            let r : Except Verdict RecvObs :=
              match obs with
              | [["got", len, hash, src]] =>
                match len.toNat?, hash.toNat? with
                | some len, some hash => .ok (.got len hash (parseSrc src))
                | _, _ => .error (Verdict.corr s!"after '{l}': bad report" c.tags)
              | [["none"]] => .ok .none
              | [["skipped"]] => .ok .skipped
              | o => .ok (.failed (toString o))
            match r with
            | .error v => v
            | .ok r =>
              let tags := match r with
                | .got _ _ _ => reportTags c.sp i (room k size)
                | .none => ["recv.none"]
                | _ => []
              next (c.apply l (.recv i size t r) (.recv i size t) tags)
        | _, _, _ => Verdict.corr s!"bad line {l}" c.tags
      | ["destroy", i] =>
        let i := i.toNat?.getD 0
        match parseState obs with
        | .error e => Verdict.corr s!"after '{l}': {e}" c.tags
        | .ok st =>
          let tag := if (c.sp.pendq i).isEmpty then "destroy.idle" else "destroy.pending"
          next (c.apply l (.destroy i st) (.destroy i) [tag])
      | _ => Verdict.corr s!"unknown line {l}" c.tags

def runCase (body : List String) : Verdict := go {} body

end SockModel.Drive.C09

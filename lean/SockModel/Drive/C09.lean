import SockModel.Drive.Common
import SockModel.Drive.C02
import SockModel.Model.Udp
/-! Driver for C09: validates UDP transcripts (`harness/scen/udp.cpp`) against `Model/Udp.lean`
(correspondence: `sendTo`, the datagram network, the per-socket `SendToQ`, the driver's dispatch
order) and evaluates the property on the observations (reference bookkeeping with plain lists:
what must be reported next per receiver, which future must have which state). -/
namespace SockModel.Drive.C09
open SockModel SockModel.Drive SockModel.Udp
open SockModel.AsyncQ (Bytes Fut fnv sameSet letter)
open SockModel.Drive.C02 (content takeObs parseRet)

structure SockInfo where
  i : Nat
  kind : String
  rx : Nat
  deriving Repr

def noLimit : Nat := 2 ^ 40

structure CSt where
  fam : Nat := 4
  socks : List SockInfo := []
  net : Net := {}
  tqs : List (Nat × TQ) := []
  ids : List Nat := []
  -- reference bookkeeping for the property (observations only)
  expect : List (Nat × List (Bytes × Nat)) := []   -- per receiver: datagrams still to be reported, in order
  status : List (Nat × Char) := []                 -- async message id ↦ expected future letter
  pendq : List (Nat × List (Nat × Nat × Nat)) := [] -- per async socket: queued (message id, len, dst)
  lastFail : Bool := false
  tags : List String := []

def maxPayload (fam : Nat) : Nat := if fam = 6 then 65527 else 65507

def lookup {α} (l : List (Nat × α)) (k : Nat) : Option α := (l.find? (·.1 = k)).map (·.2)
def setKey {α} (l : List (Nat × α)) (k : Nat) (v : α) : List (Nat × α) :=
  if l.any (·.1 = k) then l.map (fun (a, x) => if a = k then (a, v) else (a, x)) else l ++ [(k, v)]

def CSt.sock (c : CSt) (i : Nat) : Option SockInfo := c.socks.find? (·.i = i)
def CSt.expectOf (c : CSt) (i : Nat) : List (Bytes × Nat) := (lookup c.expect i).getD []
def CSt.pendOf (c : CSt) (i : Nat) : List (Nat × Nat × Nat) := (lookup c.pendq i).getD []
def CSt.tq (c : CSt) (i : Nat) : TQ := (lookup c.tqs i).getD {}
def CSt.letters (c : CSt) : String := String.ofList (c.status.map (·.2))
def CSt.resolvedIds (c : CSt) : List Nat := (c.status.filter (·.2 ≠ 'p')).map (·.1)
def CSt.room (s : SockInfo) (size : Nat) : Nat :=
  if s.kind = "basic" then size else if s.rx = 0 then noLimit else s.rx

inductive Script where
  | pass | fail (e : Nat) | short (k : Nat) | timeout
  deriving Repr, BEq

def parseScript : List String → Script
  | ["fail", e] => .fail (e.toNat?.getD 0)
  | ["short", k] => .short (k.toNat?.getD 0)
  | ["timeout"] => .timeout
  | _ => .pass

/-- spec + corr check of the state line -/
def CSt.checkState (c : CSt) (obs : List (List String)) (l : String) : Option Verdict :=
  match obs.find? (fun o => o.head? == some "st") with
  | some ["st", f, r] =>
    let f := (f.drop 4).toString
    let f := if f = "-" then "" else f
    match parseRet (r.drop 4).toString with
    | some ret =>
      if f ≠ c.letters then
        some (Verdict.spec s!"after '{l}': futures are {f}, expected {c.letters} (a future has a value iff its datagram was handed to the OS, an exception iff its sendto failed, later ones not held up)" c.tags)
      else if ¬ sameSet ret c.resolvedIds then
        some (Verdict.spec s!"after '{l}': buffers back in the pool {ret} differ from the resolved futures {c.resolvedIds}" c.tags)
      else
        let mf := String.ofList (c.ids.map fun m =>
          letter ((c.tqs.map (fun (_, t) => t.fut m)).foldl (fun acc x => if x = Fut.none then acc else x) Fut.none))
        if mf ≠ f then some (Verdict.corr s!"after '{l}': futures impl {f} model {mf}" c.tags) else none
    | none => some (Verdict.corr s!"after '{l}': bad state line" c.tags)
  | _ => some (Verdict.corr s!"after '{l}': missing state observation" c.tags)

/-- a report (len hash src) against the next expected datagram of receiver `i` with `room` bytes -/
def CSt.takeReport (c : CSt) (i room : Nat) (len hash src : String) (l : String) : Except Verdict CSt :=
  match c.expectOf i with
  | [] => .error (Verdict.spec s!"after '{l}': socket {i} reports a datagram ({len} bytes from {src}) although none is outstanding (duplicate or invented)" c.tags)
  | (p, s) :: rest =>
    let want := p.take room
    if len ≠ toString want.length ∨ hash ≠ toString (fnv want) then
      .error (Verdict.spec s!"after '{l}': socket {i} reports {len} bytes (hash {hash}); the next datagram sent to it has {p.length} bytes, with {room} bytes of room the report must be its first {want.length} bytes (hash {fnv want})" c.tags)
    else if src ≠ toString s then
      .error (Verdict.spec s!"after '{l}': socket {i} reports source {src}, the datagram was sent by socket {s}" c.tags)
    else
      -- model: the same receive on the network
      match c.net.chan i with
      | [] => .error (Verdict.corr s!"after '{l}': model channel of {i} is empty" c.tags)
      | d :: _ =>
        let rep := receiveFrom d room
        if rep.payload ≠ want ∨ rep.src ≠ s then .error (Verdict.corr s!"after '{l}': model report differs" c.tags)
        else
          let tag := if p.length > room then "recv.trunc" else if p.length = room then "recv.exact" else "recv.fits"
          let tag2 := if p.isEmpty then ["recv.empty"] else []
          .ok { c with expect := setKey c.expect i rest, net := netStep c.net (.recv i room), tags := tag :: tag2 ++ c.tags }

def CSt.deliver (c : CSt) (src dst : Nat) (p : Bytes) : CSt :=
  { c with expect := setKey c.expect dst (c.expectOf dst ++ [(p, src)]), net := netStep c.net (.deliver src dst p) }

partial def go (c : CSt) : List String → Verdict
  | [] => { tags := c.tags }
  | l :: rest =>
    let w := words l
    if w.isEmpty then go c rest else
    match w with
    | "->" :: "crash" :: x => Verdict.spec ("crash: " ++ " ".intercalate x) c.tags
    | "->" :: "hang" :: x => Verdict.spec ("hang: " ++ " ".intercalate x) c.tags
    | "->" :: _ => go c rest
    | _ =>
      let (obs, rest') := takeObs rest []
      match obs.find? (fun o => o.head? == some "crash" ∨ o.head? == some "hang") with
      | some o => Verdict.spec s!"after '{l}': {" ".intercalate o}" c.tags
      | none =>
      match obs.find? (fun o => o.take 2 == ["throw", "harness"]) with
      | some o => Verdict.corr s!"after '{l}': {" ".intercalate o}" c.tags
      | none =>
      match w with
      | ["fam", f] => go { c with fam := f.toNat?.getD 4, tags := (if f = "6" then "v6" else "v4") :: c.tags } rest'
      | "sock" :: i :: kind :: args =>
        let i := i.toNat?.getD 0
        let rx := match args with | [_, s] => s.toNat?.getD 0 | _ => 0
        go { c with socks := c.socks ++ [⟨i, kind, rx⟩], tqs := if kind = "async" then c.tqs ++ [(i, {})] else c.tqs,
                    tags := ("sock." ++ kind) :: c.tags } rest'
      | "sendto" :: i :: j :: m :: len :: t :: script =>
        match i.toNat?, j.toNat?, m.toNat?, len.toNat?, t.toInt? with
        | some i, some j, some m, some len, some t =>
          let sc := parseScript script
          let p := content m len
          let tooBig := len > maxPayload c.fam
          let wAns := if sc == .timeout then WaitAns.timedOut else WaitAns.ready
          let sAns := match sc with
            | .fail _ => SendAns.fail
            | .short k => if tooBig then SendAns.fail else SendAns.accept (min k len)
            | _ => if tooBig then SendAns.fail else SendAns.accept len
          let (res, delivered) := sendTo len t wAns sAns
          let timedOut := sc == .timeout ∧ t ≥ 0
          -- the property on the observation
          let specRes : Except String (Bool × String) :=
            match obs with
            | [["ret", n]] =>
              match n.toNat? with
              | some n =>
                if timedOut then (if n = 0 then .ok (false, "send.timeout") else .error s!"SendTo returned {n} although its wait timed out")
                else if n = len then .ok (true, if len = 0 then "send.empty" else "send.ok")
                else if n = 0 then .error s!"SendTo({len} bytes, timeout {t}) returned 0 although the wait did not time out"
                else .error s!"SendTo({len} bytes) returned the partial count {n}"
              | none => .error "bad ret"
            | [["throw", "system", e]] =>
              match sc with
              | .fail e' => if e = toString e' then .ok (false, "send.fail") else .error s!"SendTo reports errno {e}, the OS failed with {e'}"
              | _ => if tooBig ∧ e = "90" then .ok (false, "send.emsgsize") else .error s!"SendTo({len} bytes) threw system_error {e} although the OS accepted the datagram"
            | ("throw" :: "logic" :: _) :: _ =>
              match sc with
              | .short k => if k < len ∧ ¬ tooBig then .ok (true, "send.short") else .error "logic_error although sendto returned the full size"
              | _ => .error "SendTo threw logic_error"
            | o => .error s!"unexpected result {o}"
          match specRes with
          | .error msg => Verdict.spec s!"after '{l}': {msg}" c.tags
          | .ok (sentObs, tag) =>
            let obsRes := match obs with
              | [["ret", n]] => SendRes.ret (n.toNat?.getD 0)
              | [["throw", "system", _]] => SendRes.systemError
              | _ => SendRes.logicError
            if obsRes ≠ res ∨ sentObs ≠ delivered then
              Verdict.corr s!"after '{l}': impl {repr obsRes} model {repr res} (delivered {delivered})" c.tags
            else
              let c := if sentObs then c.deliver i j p else c
              go { c with tags := tag :: c.tags } rest'
        | _, _, _, _, _ => Verdict.corr s!"bad line {l}" c.tags
      | ["asend", i, j, m, len] =>
        match i.toNat?, j.toNat?, m.toNat?, len.toNat? with
        | some i, some j, some m, some len =>
          if obs.any (· == ["nobuf"]) then go { c with tags := "nobuf" :: c.tags } rest' else
          let tq := tqStep (c.tq i) (.enq m (content m len) j)
          let c := { c with tqs := setKey c.tqs i tq, ids := c.ids ++ [m], status := c.status ++ [(m, 'p')],
                            pendq := setKey c.pendq i (c.pendOf i ++ [(m, len, j)]), tags := "asend" :: c.tags }
          match c.checkState obs l with
          | some v => v
          | none => go c rest'
        | _, _, _, _ => Verdict.corr s!"bad line {l}" c.tags
      | "step" :: script =>
        let sc := parseScript script
        let sys := obs.filter (fun o => o.head? == some "sys")
        let evs := obs.filter (fun o => o.head? == some "ev")
        match obs.find? (fun o => o.head? == some "throw") with
        | some o => Verdict.spec s!"after '{l}': Step threw ({" ".intercalate o}); a failed datagram must only affect its own future" c.tags
        | none =>
        if sys.length + evs.length > 1 then Verdict.spec s!"after '{l}': more than one socket task in one step" c.tags else
        -- model: first async socket in registration order with an event
        let asyncs := c.socks.filter (·.kind = "async")
        let pick := asyncs.find? (fun s => ¬ (c.net.chan s.i).isEmpty ∨ (c.tq s.i).armed)
        -- property on the observations
        let r : Except Verdict CSt :=
          match sys, evs with
          | [], [] =>
            -- "later datagrams are not held up": nothing may be left to do
            match asyncs.find? (fun s => ¬ (c.expectOf s.i).isEmpty ∨ ¬ (c.pendOf s.i).isEmpty) with
            | some s => .error (Verdict.spec s!"after '{l}': Step did nothing although socket {s.i} has a datagram to {if (c.expectOf s.i).isEmpty then "send (held up)" else "receive"}" c.tags)
            | none => .ok c
          | [], [["ev", "recv", i, len, hash, src]] =>
            match i.toNat? with
            | some i =>
              match c.sock i with
              | some s =>
                if pick.map (·.i) ≠ some i ∨ (c.net.chan i).isEmpty then .error (Verdict.corr s!"after '{l}': model dispatches {repr (pick.map (·.i))}, impl received on {i}" c.tags)
                else (c.takeReport i (CSt.room s 0) len hash src l).map (fun c => { c with tags := "arecv" :: c.tags })
              | none => .error (Verdict.corr s!"unknown socket {i}" c.tags)
            | none => .error (Verdict.corr "bad ev" c.tags)
          | [("sys" :: "sendto" :: i :: len :: res)], [] =>
            match i.toNat?, len.toNat? with
            | some i, some len =>
              match c.pendOf i with
              | [] => .error (Verdict.spec s!"after '{l}': socket {i} issued a sendto although nothing is queued" c.tags)
              | (m, mlen, dst) :: more =>
                if mlen ≠ len then .error (Verdict.spec s!"after '{l}': socket {i} sent {len} bytes, its oldest queued datagram has {mlen} (order / boundaries)" c.tags)
                else
                  let ok := res == [toString len]
                  let failed := res.head? == some "fail"
                  if ¬ ok ∧ ¬ failed then .error (Verdict.spec s!"after '{l}': sendto returned {res}" c.tags) else
                  let scriptedFail : Bool := match sc with | .fail _ => true | _ => false
                  if failed && !scriptedFail && !(decide (len > maxPayload c.fam)) then .error (Verdict.corr s!"after '{l}': unexpected sendto failure {res}" c.tags) else
                  if pick.map (·.i) ≠ some i ∨ ¬ (c.net.chan i).isEmpty then .error (Verdict.corr s!"after '{l}': model dispatches {repr (pick.map (·.i))}, impl sent on {i}" c.tags) else
                  let tq := tqStep (c.tq i) (.writable (if ok then .ok else .fail))
                  let c := { c with tqs := setKey c.tqs i tq, pendq := setKey c.pendq i more,
                                    status := c.status.map (fun (a, x) => if a = m then (a, if ok then 'v' else 'e') else (a, x)),
                                    tags := (if ok then (if c.lastFail then ["asend.ok", "asend.after_fail"] else ["asend.ok"]) else ["asend.fail"]) ++ c.tags,
                                    lastFail := failed }
                  .ok (if ok then c.deliver i dst (content m len) else c)
            | _, _ => .error (Verdict.corr "bad sys" c.tags)
          | _, _ => .error (Verdict.corr s!"after '{l}': unparsable step observations" c.tags)
        match r with
        | .error v => v
        | .ok c =>
          -- correspondence on "nothing happened"
          if sys.isEmpty ∧ evs.isEmpty ∧ pick.isSome then
            Verdict.corr s!"after '{l}': model dispatches socket {repr (pick.map (·.i))}, impl did nothing" c.tags
          else
            match c.checkState obs l with
            | some v => v
            | none => go c rest'
      | ["recv", i, size, t] =>
        match i.toNat?, size.toNat?, t.toInt? with
        | some i, some size, some t =>
          match c.sock i with
          | none => Verdict.corr s!"unknown socket {i}" c.tags
          | some s =>
            match obs with
            | [["got", len, hash, src]] =>
              match c.takeReport i (CSt.room s size) len hash src l with
              | .error v => v
              | .ok c => go c rest'
            | [["none"]] =>
              if ¬ (c.expectOf i).isEmpty then Verdict.spec s!"after '{l}': socket {i} reports nothing although {(c.expectOf i).length} datagram(s) sent to it are outstanding (loss)" c.tags
              else if t < 0 then Verdict.spec s!"after '{l}': an unlimited ReceiveFrom returned nullopt" c.tags
              else if ¬ (c.net.chan i).isEmpty then Verdict.corr s!"after '{l}': model channel not empty" c.tags
              else go { c with tags := "recv.none" :: c.tags } rest'
            | [["skipped"]] =>
              if ¬ (c.expectOf i).isEmpty then Verdict.spec s!"after '{l}': socket {i} is not readable although {(c.expectOf i).length} datagram(s) sent to it are outstanding (loss)" c.tags
              else go c rest'
            | o => Verdict.spec s!"after '{l}': ReceiveFrom failed: {o}" c.tags
        | _, _, _ => Verdict.corr s!"bad line {l}" c.tags
      | ["destroy", i] =>
        let i := i.toNat?.getD 0
        let dead := (c.pendOf i).map (·.1)
        let tag := if dead.isEmpty then "destroy.idle" else "destroy.pending"
        let c := { c with socks := c.socks.filter (·.i ≠ i),
                          tqs := setKey c.tqs i (tqStep (c.tq i) .destroy),
                          pendq := setKey c.pendq i [], expect := setKey c.expect i [],
                          status := c.status.map (fun (a, x) => if dead.contains a then (a, 'b') else (a, x)),
                          tags := tag :: c.tags }
        match c.checkState obs l with
        | some v => v
        | none => go c rest'
      | _ => Verdict.corr s!"unknown line {l}" c.tags

def runCase (body : List String) : Verdict := go {} body

end SockModel.Drive.C09

import SockModel.Drive.Common
import SockModel.Model.Tls
import SockModel.Model.PeerFail
import SockModel.Spec.C18
/-! Driver for C18.

A transcript of `harness/scen/tls.cpp` is a flat stream of tagged events (see that file).
For every endpoint the driver

* **correspondence**: re-runs the glue model (`Model/Tls.lean`) call by call.  The engine
  (OpenSSL) and the world (kernel) are *replay instances* of the model's abstract `Engine`
  and `World`: they answer exactly what the implementation was answered, and they insist
  that the model asks the same questions in the same order (same waits with the same
  timeouts, same sends, same engine calls).  Results, handler calls, futures and the
  POLLOUT bit the driver polls with are compared.
* **spec**: every line is parsed into a typed observation (`toObs`, `Tls.Spec.Obs`) and the property predicate
  of `Spec/C18.lean` - `specRun`, then `specFinal` - is evaluated on the observations only: no marker in the raw
  stream, raw stream = TLS records starting with ClientHello / ServerHello, nothing delivered before
  `init_finished`, payload round trip, completion, a non-TLS peer yields an exception and zero bytes, MSG_NOSIGNAL
  on every send, the C07 budget of every TLS call.  This file contains no property clause of its own (one source of
  truth; `Tls.Spec.model_satisfies_spec_partial` proves that `specRun` accepts every trace of the glue model).
-/
namespace SockModel.Drive.C18
open SockModel SockModel.Drive SockModel.Net SockModel.Tls

/-! ### events -/

inductive OsEv where
  | poll (d : Dir) (t : Int) (ready : Bool)
  | send (len : Nat) (ns : Bool) (ans : SendAns)
  | recv (len : Nat) (ans : RecvAns)
  deriving Repr

def OsEv.show : OsEv → String
  | .poll d t r => s!"poll {if d == .rd then "in" else "out"} {t} {if r then "ready" else "timeout"}"
  | .send l _ (.accept k) => s!"send {l} -> {k}"
  | .send l _ (.fail e) => s!"send {l} -> errno {e}"
  | .recv l (.data bs) => s!"recv {l} -> {bs.length}"
  | .recv l (.fail e) => s!"recv {l} -> errno {e}"

inductive Ev where
  | api (who op : String) (args : List String)
  | ret (who : String) (rest : List String)
  | ssl (who : String) (isRead : Bool) (n : Nat)
  | sslret (who : String) (ans : SslAns) (init : Bool)
  | sslexn (who : String)
  | bio (who : String) (isRead : Bool)
  | os (who : String) (e : OsEv)
  | dpoll (t : Int) (res : Int) (fds : List (String × Nat × Nat))
  | dpend (who : String) (n : Nat)
  | rx (who : String) (n : Nat)
  | disc (who : String) (why : List String)
  | fut (who : String) (i : Nat) (res : String)
  | enq (who : String) (n : Nat)
  | other (w : List String)

def zeros (n : Nat) : Bytes := List.replicate n 0

def parseAns (w : String) (k : String) : Option SslAns :=
  match w with
  | "done" => k.toNat?.map .done
  | "want_read" => some .wantRead
  | "want_write" => some .wantWrite
  | "zero_return" => some .zeroReturn
  | "syscall" => some .syscallErr
  | "ssl" => some .sslErr
  | _ => none

def parseFd (tok : String) : Option (String × Nat × Nat) :=
  match tok.splitOn ":" with
  | [l, e, r] => do pure (l, ← e.toNat?, ← r.toNat?)
  | _ => none

def parseEv (w : List String) : Ev :=
  match w with
  | "api" :: who :: op :: args => .api who op args
  | "ret" :: who :: rest => .ret who rest
  | ["ssl", who, "read", n] => .ssl who true (n.toNat?.getD 0)
  | ["ssl", who, "write", n] => .ssl who false (n.toNat?.getD 0)
  | ["sslret", who, "done", k, i] => match parseAns "done" k with
      | some a => .sslret who a (i == "init=1") | none => .other w
  | ["sslret", who, a, i] => match parseAns a "" with
      | some a => .sslret who a (i == "init=1") | none => .other w
  | ["sslexn", who] => .sslexn who
  | ["bio", who, "r"] => .bio who true
  | ["bio", who, "w"] => .bio who false
  | ["os", who, "poll", d, t, r] =>
    match t.toInt? with
    | some t => .os who (.poll (if d == "in" then .rd else .wr) t (r == "ready"))
    | none => .other w
  | ["os", who, "send", len, ns, "fail", e] => .os who (.send (len.toNat?.getD 0) (ns == "ns=1") (.fail (e.toNat?.getD 0)))
  | ["os", who, "send", len, ns, r] => .os who (.send (len.toNat?.getD 0) (ns == "ns=1") (.accept (r.toNat?.getD 0)))
  | ["os", who, "recv", len, "fail", e] => .os who (.recv (len.toNat?.getD 0) (.fail (e.toNat?.getD 0)))
  | ["os", who, "recv", len, r] => .os who (.recv (len.toNat?.getD 0) (.data (zeros (r.toNat?.getD 0))))
  | "dpoll" :: t :: res :: fds =>
    match t.toInt?, res.toInt?, fds.mapM parseFd with
    | some t, some res, some fds => .dpoll t res fds
    | _, _, _ => .other w
  | ["rx", who, n] => .rx who (n.toNat?.getD 0)
  | ["dpend", who, n] => .dpend who (n.toNat?.getD 0)
  | "disc" :: who :: why => .disc who why
  | "fut" :: who :: i :: r :: _ => .fut who (i.toNat?.getD 0) r
  | ["enq", who, n] => .enq who (n.toNat?.getD 0)
  | _ => .other w

/-! ### replay instances of the model's neighbours -/

structure RecBio where
  isRead : Bool
  len : Nat
  deriving Repr

structure RecCall where
  isRead : Bool
  arg : Nat
  bios : List RecBio
  ans : Option SslAns      -- `none`: an exception thrown by a BIO callback unwound through the call
  initAfter : Bool
  deriving Repr

/-- the engine as observed: the recorded calls of the current API block -/
structure Rep where
  calls : List RecCall := []
  init : Bool := false
  bad : Option String := none

def mkProg (bios : List RecBio) (fin : EngProg Rep) : EngProg Rep :=
  match bios with
  | [] => fin
  | b :: rest =>
    if b.isRead then .bioRead b.len (fun _ => mkProg rest fin)
    else
      -- a BIO write during which no `send` was observed (the wait timed out) has an unknown, positive size
      .bioWrite (zeros (if b.len = 0 then 1 else b.len)) (fun _ => mkProg rest fin)

def repCall (σ : Rep) (isRead : Bool) (arg : Nat) : EngProg Rep :=
  match σ.calls with
  | [] => .ret (.done 0) [] { σ with bad := some s!"model calls ssl_{if isRead then "read" else "write"}({arg}), the implementation made no such call" }
  | c :: rest =>
    if c.isRead != isRead ∨ c.arg != arg then
      .ret (.done 0) [] { σ with bad := some s!"model calls ssl_{if isRead then "read" else "write"}({arg}), the implementation called ssl_{if c.isRead then "read" else "write"}({c.arg})" }
    else
      let fin : EngProg Rep := match c.ans with
        | some a =>
          let out := match a with | .done k => if isRead then zeros k else [] | _ => []
          .ret a out { σ with calls := rest, init := c.initAfter }
        | none => .ret (.done 0) [] { σ with bad := some "a BIO callback of the implementation threw, the model's did not" }
      mkProg c.bios fin

def repEngine : Engine Rep where
  sslRead σ n := repCall σ true n
  sslWrite σ bs := repCall σ false bs.length
  initFinished σ := σ.init

/-- the kernel as observed: the recorded OS calls of the current API block, in order -/
structure RW where
  evs : List OsEv := []
  now : Int := 0
  bad : Option String := none

def RW.fail (ω : RW) (asked : String) : RW :=
  match ω.bad with
  | some _ => { ω with evs := [] }
  | none =>
    let seen := match ω.evs with | e :: _ => e.show | [] => "nothing more"
    { ω with evs := [], bad := some s!"model: {asked}; implementation: {seen}" }

def repWorld : World RW where
  wait ω d t :=
    match ω.evs with
    | .poll d' t' r :: rest =>
      if d = d' ∧ t = t' then (r, { ω with evs := rest, now := ω.now + (if !r ∧ t > 0 then t else 0) })
      else (false, ω.fail s!"poll {if d == .rd then "in" else "out"} timeout {t}")
    | _ => (false, ω.fail s!"poll {if d == .rd then "in" else "out"} timeout {t}")
  send ω bs :=
    match ω.evs with
    | .send len _ ans :: rest =>
      if len = bs.length then (ans, { ω with evs := rest }) else (.fail 0, ω.fail s!"send of {bs.length} bytes")
    | _ => (.fail 0, ω.fail s!"send of {bs.length} bytes")
  recv ω n :=
    match ω.evs with
    | .recv len ans :: rest =>
      if len = n ∨ n = 0 then (ans, { ω with evs := rest }) else (.fail 0, ω.fail s!"recv into {n} bytes")
    | _ => (.fail 0, ω.fail s!"recv into {n} bytes")
  now ω := ω.now

/-! ### turning the events of one API block into replay input -/

structure Block where
  os : List OsEv := []            -- newest first while collecting
  calls : List RecCall := []      -- newest first while collecting
  cur : Option RecCall := none    -- engine call in progress
  rx : List Nat := []
  disc : Nat := 0
  dpoll : Option (Int × Int × List (String × Nat × Nat)) := none
  pend : List (String × Nat) := []   -- `SSL_pending()` of the async TLS endpoints when the step began

def Block.pushBioLen (c : RecCall) (len : Nat) : RecCall :=
  match c.bios.reverse with
  | b :: older => if b.len = 0 then { c with bios := (({ b with len := len } :: older).reverse) } else c
  | [] => c

def Block.add (b : Block) : Ev → Block
  | .ssl _ isRead n => { b with cur := some ⟨isRead, n, [], none, false⟩ }
  | .bio _ isRead => match b.cur with
    | some c => { b with cur := some { c with bios := c.bios ++ [⟨isRead, 0⟩] } }
    | none => b
  | .sslret _ ans init => match b.cur with
    | some c => { b with cur := none, calls := { c with ans := some ans, initAfter := init } :: b.calls }
    | none => b
  | .sslexn _ => match b.cur with
    | some c => { b with cur := none, calls := c :: b.calls }
    | none => b
  | .os _ e =>
    let b := { b with os := e :: b.os }
    match b.cur, e with
    | some c, .send len _ _ => { b with cur := some (Block.pushBioLen c len) }
    | some c, .recv len _ => { b with cur := some (Block.pushBioLen c len) }
    | _, _ => b
  | .rx _ n => { b with rx := n :: b.rx }
  | .disc _ _ => { b with disc := b.disc + 1 }
  | _ => b

/-! ### per-endpoint model state -/

structure EpSt where
  name : String
  kind : String := "basic"
  tls : Bool := true
  driver : String := ""
  rsz : Nat := 4096
  st : St Rep RW := { g := {}, e := {}, w := {} }
  a : Async := {}
  open_ : Option (String × List String × Block) := none     -- API call in progress (op, args, events)
  futSeen : List Bool := []                                -- observed future results, oldest first

def exnClass : Exn → String
  | .system _ => "system_error"
  | .sslError => "system_error"
  | .closed => "runtime_error"
  | .logic _ => "logic_error"

def loadBlock (ep : EpSt) (b : Block) : St Rep RW :=
  { ep.st with e := { ep.st.e with calls := b.calls.reverse, bad := none },
               w := { ep.st.w with evs := b.os.reverse, bad := none } }

/-- after a block: everything the implementation did must have been replayed -/
def leftovers (s : St Rep RW) : Option String :=
  match s.e.bad, s.w.bad with
  | some m, _ => some m
  | _, some m => some m
  | none, none =>
    match s.w.evs, s.e.calls with
    | e :: _, _ => some s!"implementation made a further OS call the model did not: {e.show}"
    | [], c :: _ =>
      match c.ans with
      | none => none   -- the call an exception unwound through; the model's interp stopped there too
      | some _ => some s!"implementation made a further ssl_{if c.isRead then "read" else "write"} call the model did not"
    | [], [] => none

def clearReplay (s : St Rep RW) : St Rep RW :=
  { s with e := { s.e with calls := [], bad := none }, w := { s.w with evs := [], bad := none } }

/-- run one synchronous API block through the model; `none` = agreement -/
def runSync (C : Cfg) (ep : EpSt) (op : String) (args : List String) (b : Block) (ret : List String) :
    Option String × EpSt × List String :=
  let s0 := loadBlock ep b
  match op, args with
  | "send", [t, len] =>
    match t.toInt?, len.toNat? with
    | some t, some len =>
      let (o, s1) : Out Nat × St Rep RW :=
        if ep.tls then sendT C repWorld repEngine s0 (zeros len) t
        else
          let r := PeerFail.sendT repWorld s0.w (zeros len) t
          match r.exn with
          | some e => (.exn e, { s0 with w := r.w })
          | none => (.ok r.sent, { s0 with w := r.w })
      let tag := if t < 0 then "send.unlimited" else if t = 0 then "send.zero" else "send.limited"
      let cmp : Option String := match o, ret with
        | .ok n, ["n", k] => if k.toNat? == some n then none else some s!"Send returns {k}, model {n}"
        | .exn e, "throw" :: cls :: _ => if cls == exnClass e then none else some s!"Send throws {cls}, model {exnClass e}"
        | .abort m, "crash" :: _ => let _ := m; none
        | .ok n, _ => some s!"model: Send returns {n}; implementation: {" ".intercalate ret}"
        | .exn e, _ => some s!"model: Send throws {exnClass e}; implementation: {" ".intercalate ret}"
        | .abort m, _ => some s!"model: {m}; implementation: {" ".intercalate ret}"
      let cmp := match leftovers s1 with | some m => some m | none => cmp
      (cmp, { ep with st := clearReplay s1 }, [tag])
    | _, _ => (some "bad send op", ep, [])
  | "recv", [t, size] =>
    match t.toInt?, size.toNat? with
    | some t, some size =>
      let (o, s1) : Out Bytes × St Rep RW :=
        if ep.tls then receiveT C repWorld repEngine s0 size t
        else match PeerFail.recvT repWorld s0.w size t with
          | .got bs w' => (.ok bs, { s0 with w := w' })
          | .nothing w' => (.ok [], { s0 with w := w' })
          | .exn e w' => (.exn e, { s0 with w := w' })
      let tag := if t < 0 then "recv.unlimited" else if t = 0 then "recv.zero" else "recv.limited"
      let cmp : Option String := match o, ret with
        | .ok [], ["none"] => none
        | .ok bs, ["n", k] => if k.toNat? == some bs.length ∧ bs ≠ [] then none else some s!"Receive returns {k}, model {bs.length}"
        | .exn e, "throw" :: cls :: _ => if cls == exnClass e then none else some s!"Receive throws {cls}, model {exnClass e}"
        | .abort _, "crash" :: _ => none
        | .ok bs, _ => some s!"model: Receive returns {bs.length}; implementation: {" ".intercalate ret}"
        | .exn e, _ => some s!"model: Receive throws {exnClass e}; implementation: {" ".intercalate ret}"
        | .abort m, _ => some s!"model: {m}; implementation: {" ".intercalate ret}"
      let cmp := match leftovers s1 with | some m => some m | none => cmp
      (cmp, { ep with st := clearReplay s1 }, [tag])
    | _, _ => (some "bad recv op", ep, [])
  | _, _ => (some s!"unknown op {op}", ep, [])

/-! ### small helpers -/

def kvOf (w : List String) : List (String × String) :=
  w.filterMap fun t => match t.splitOn "=" with | [k, v] => some (k, v) | _ => none

def kvGet (m : List (String × String)) (k : String) : String :=
  match m.find? (·.1 == k) with | some (_, v) => v | none => ""

/-! ### the case driver -/

structure DSt where
  eps : List EpSt := []
  dopen : List (String × Int × Block) := []      -- driver steps in progress: (driver, timeout, events)
  tags : List String := []
  corr : Option String := none                   -- first correspondence problem

def DSt.ep? (d : DSt) (n : String) : Option EpSt := d.eps.find? (·.name == n)
def DSt.setEp (d : DSt) (e : EpSt) : DSt := { d with eps := d.eps.map fun x => if x.name == e.name then e else x }
def DSt.noteCorr (d : DSt) (m : String) : DSt := match d.corr with | some _ => d | none => { d with corr := some m }

def revOf (r : Nat) : REvents := { rd := r % 2 == 1, wr := (r / 4) % 2 == 1, hupErr := (r / 8) % 4 != 0 }

/-- model side of one `Driver::Step` -/
def runStep (C : Cfg) (d : DSt) (dname : String) (b : Block) (ret : List String) : DSt :=
  match b.dpoll with
  | none =>
    -- Step ended before polling: nothing for the glue model to say (reported by the spec if it threw)
    d
  | some (tpoll, res, fds) =>
    -- 1. DriverQuery of every registered socket, compared with the events the driver polled with
    let asyncOn := d.eps.filter (fun e => e.kind == "async" ∧ e.driver == dname)
    let d := asyncOn.foldl (fun d ep =>
      let x : ASt Rep RW := { a := ep.a, s := ep.st }
      let x := if ep.tls then aQuery repEngine x else x
      let ep := { ep with a := x.a, st := x.s }
      let d := d.setEp ep
      match fds.find? (·.1 == ep.name) with
      | some (_, ev, _) =>
        if ¬ ep.a.registered then d.noteCorr s!"{ep.name}: model has the socket unregistered, the driver still polls it"
        else if (ev / 4) % 2 == 1 ∧ ¬ ep.a.pollOut then d.noteCorr s!"{ep.name}: driver polls for POLLOUT, model's DriverQuery does not request it"
        else if (ev / 4) % 2 == 0 ∧ ep.a.pollOut then d.noteCorr s!"{ep.name}: model's DriverQuery requests POLLOUT, the driver does not poll for it"
        else { d with tags := (if ep.a.pollOut then "query.pollout" else if ep.st.g.driverSendSuppressed then "query.suppressed" else "query.idle") :: d.tags }
      | none =>
        if ep.a.registered then d.noteCorr s!"{ep.name}: model has the socket registered, the driver does not poll it" else d) d
    -- 2. which socket does DoOneSocketTask serve
    let pipeRev := match fds.find? (·.1 == "pipe") with | some (_, _, r) => r | none => 0
    -- `QuerySockets`: the first polled socket whose `DriverQuery` reports received data held already (F8 repair);
    -- the engine is replayed, not simulated, so its `SSL_pending()` is taken from the observation
    let received : Option String :=
      (fds.find? (fun f => f.1 != "pipe" ∧ (d.eps.any fun ep => ep.name == f.1 ∧ ep.tls ∧ ep.a.registered) ∧
                           (b.pend.any fun p => p.1 == f.1 ∧ p.2 > 0))).map (·.1)
    let d := if received.isSome ∧ tpoll ≠ 0 then
        d.noteCorr s!"{dname}: a socket holds received data already, yet the driver waits with timeout {tpoll} instead of 0"
      else d
    let served := if pipeRev ≠ 0 then none
      else fds.find? (fun f => f.1 != "pipe" ∧ ((res > 0 ∧ f.2.2 ≠ 0) ∨ received == some f.1))
    let served := served.map fun f => if received == some f.1 then (f.1, f.2.1, f.2.2 ||| 1) else f
    let d := if received.isSome then { d with tags := "query.received" :: d.tags } else d
    match served with
    | none =>
      if b.calls.isEmpty ∧ b.os.isEmpty then { d with tags := "step.idle" :: d.tags }
      else d.noteCorr s!"{dname}: no socket was ready, yet the implementation worked on one"
    | some (name, _, r) =>
      match d.ep? name with
      | none => d     -- the acceptor
      | some ep =>
        let s0 := loadBlock ep b
        let rev := revOf r
        let (o, x) : Out Unit × ASt Rep RW :=
          if ep.tls then aTask C repWorld repEngine ep.rsz { a := ep.a, s := s0 } rev
          else
            let (o, p) := PeerFail.pTask repWorld ep.rsz { a := ep.a, w := s0.w } rev
            (o, { a := p.a, s := { s0 with w := p.w } })
        let newDelivered := (x.a.delivered.take (x.a.delivered.length - ep.a.delivered.length)).reverse.map (·.length)
        let tag := if rev.rd then "task.readable" else if rev.wr then (if ep.a.sendQ.isEmpty then "task.pending" else "task.writable") else "task.huperr"
        let cmp : Option String :=
          match leftovers x.s with
          | some m => some m
          | none =>
            if newDelivered ≠ b.rx.reverse then some s!"onReceive called with {b.rx.reverse}, model {newDelivered}"
            else if x.a.disconnects - ep.a.disconnects ≠ b.disc then some s!"disconnect handler ran {b.disc} times, model {x.a.disconnects - ep.a.disconnects}"
            else match o, ret with
              | .ok (), "ok" :: _ => none
              | .exn e, "throw" :: cls :: _ => if cls == exnClass e then none else some s!"Step throws {cls}, model {exnClass e}"
              | .abort _, "crash" :: _ => none
              | .ok (), _ => some s!"model: Step returns; implementation: {" ".intercalate ret}"
              | .exn e, _ => some s!"model: Step throws {exnClass e}; implementation: {" ".intercalate ret}"
              | .abort m, _ => some s!"model: {m}; implementation: {" ".intercalate ret}"
        let d := d.setEp { ep with a := x.a, st := clearReplay x.s }
        let d := { d with tags := tag :: d.tags }
        match cmp with | some m => d.noteCorr s!"{name}: {m}" | none => d

/-- what differs between the properties that share this transcript format -/
structure Hooks where
  /-- endpoints from a `setup` op line -/
  setup : List (String × String) → List EpSt

def setupC18 (m : List (String × String)) : List EpSt :=
  let rsz := (kvGet m "rsz").toNat?.getD 4096
  let shared := kvGet m "shared" == "1"
  let plain := if kvGet m "plain" == "" then "none" else kvGet m "plain"
  let ck := kvGet m "cli"
  let sk := kvGet m "srv"
  let c : EpSt := { name := "c", kind := ck, driver := if ck == "async" then "dc" else "", rsz := rsz }
  let s : EpSt := { name := "s", kind := sk, driver := if sk == "async" then (if shared ∧ ck == "async" then "dc" else "ds") else "", rsz := rsz }
  if plain == "cli" then [s] else if plain == "srv" then [c] else [c, s]

/-- the correspondence walker: re-runs the glue model next to the observed engine / OS answers.  (The property
predicate is evaluated before, on the typed observations: `runWith`.) -/
partial def go (C : Cfg) (H : Hooks) (d : DSt) : List String → Verdict
  | [] =>
    -- futures: model vs. observed
    let futProblem := d.eps.findSome? fun ep =>
      if ep.kind == "async" ∧ ep.a.futures.reverse.map (· == .ok) ≠ ep.futSeen then
        some s!"{ep.name}: futures resolved {ep.futSeen}, model {ep.a.futures.reverse.map (· == .ok)}"
      else none
    match d.corr, futProblem with
    | some m, _ => Verdict.corr m d.tags
    | none, some m => Verdict.corr m d.tags
    | none, none => { tags := d.tags }
  | l :: rest =>
    let w := words l
    match w with
    | [] => go C H d rest
    | "->" :: "crash" :: x => Verdict.spec ("crash: " ++ " ".intercalate x) d.tags
    | "->" :: "hang" :: x => Verdict.spec ("hang: " ++ " ".intercalate x) d.tags
    | "->" :: "killed" :: x => Verdict.spec ("process killed by a signal: " ++ " ".intercalate x) d.tags
    | "->" :: "harness-error" :: x => Verdict.corr ("harness error: " ++ " ".intercalate x) d.tags
    | "->" :: "setup" :: "ok" :: _ => go C H d rest
    | "->" :: "loopend" :: _ :: _ => go C H d rest
    | "->" :: "wire" :: _ => go C H d rest
    | "->" :: "got" :: _ => go C H d rest
    | "->" :: "state" :: _ => go C H d rest
    | "->" :: "rawgot" :: _ => go C H d rest
    | "->" :: "rawsent" :: _ => go C H d rest
    | "->" :: ev =>
      let e := parseEv ev
      -- route the event to the API block it belongs to
      match (e : Ev) with
      | .api who op args =>
        if op == "step" then
          go C H { d with dopen := (who, (args.head?.bind String.toInt?).getD 0, {}) :: d.dopen.filter (·.1 != who) } rest
        else match d.ep? who with
          | some ep => go C H (d.setEp { ep with open_ := some (op, args, {}) }) rest
          | none => go C H d rest
      | .ret who r =>
        match d.dopen.find? (·.1 == who) with
        | some (_, _, b) =>
          let d := { d with dopen := d.dopen.filter (·.1 != who) }
          go C H (runStep C d who b r) rest
        | none =>
          match d.ep? who with
          | some ep =>
            match ep.open_ with
            | some (op, args, b) =>
              let (cmp, ep', tg) := runSync C ep op args b r
              let d := d.setEp { ep' with open_ := none }
              let d := { d with tags := tg ++ d.tags }
              go C H (match cmp with | some m => d.noteCorr s!"{who} {op} {" ".intercalate args}: {m}" | none => d) rest
            | none => go C H d rest
          | none => go C H d rest
      | .dpoll t res fds =>
        -- belongs to the driver whose step is open and that owns one of the listed sockets
        let owner := d.dopen.find? fun (dn, _, _) =>
          fds.any (fun f => (d.eps.any fun ep => ep.name == f.1 ∧ ep.driver == dn)) ∨ d.dopen.length == 1
        match owner with
        | some (dn, to, b) =>
          go C H { d with dopen := (dn, to, { b with dpoll := some (t, res, fds) }) :: d.dopen.filter (·.1 != dn) } rest
        | none => go C H d rest
      | .dpend who n =>
        match d.ep? who with
        | some ep =>
          match d.dopen.find? (·.1 == ep.driver) with
          | some (dn, to, b) =>
            go C H { d with dopen := (dn, to, { b with pend := (who, n) :: b.pend }) :: d.dopen.filter (·.1 != dn) } rest
          | none => go C H d rest
        | none => go C H d rest
      | .enq who n =>
        match d.ep? who with
        | some ep =>
          let x := enqueue (σ := Rep) (ω := RW) { a := ep.a, s := ep.st } (zeros n)
          go C H { (d.setEp { ep with a := x.a }) with tags := "enq" :: d.tags } rest
        | none => go C H d rest
      | .fut who _ res =>
        match d.ep? who with
        | some ep =>
          -- only promises the driver resolved are the model's business (broken ones die with the socket)
          if res == "ok" ∨ res == "exn" then go C H (d.setEp { ep with futSeen := ep.futSeen ++ [res == "ok"] }) rest
          else go C H d rest
        | none => go C H d rest
      | .other _ => go C H d rest
      | ev =>
        -- ssl / bio / os / rx / disc: into the open block of the endpoint (sync) or of its driver (async)
        let who := match ev with
          | .ssl w _ _ => w | .sslret w _ _ => w | .sslexn w => w | .bio w _ => w | .os w _ => w
          | .rx w _ => w | .disc w _ => w | _ => ""
        match d.ep? who with
        | none => go C H d rest
        | some ep =>
          if ep.kind == "async" then
            match d.dopen.find? (·.1 == ep.driver) with
            | some (dn, to, b) => go C H { d with dopen := (dn, to, b.add ev) :: d.dopen.filter (·.1 != dn) } rest
            | none => go C H d rest
          else
            match ep.open_ with
            | some (op, args, b) => go C H (d.setEp { ep with open_ := some (op, args, b.add ev) }) rest
            | none => go C H d rest
    | "upgrade" :: who :: _ =>
      -- a buffered endpoint used synchronously so far is handed to a driver of its own (scen/tls.cpp): from now on the
      -- correspondence replays it through the asynchronous layer of the model, on the SAME glue state
      match d.ep? who with
      | some ep => go C H (d.setEp { ep with kind := "async", driver := "d" ++ who, a := {} }) rest
      | none => go C H d rest
    | "setup" :: kvs =>
      let m := kvOf kvs
      let eps := H.setup m
      go C H { d with eps := eps,
                      tags := s!"pair.{"+".intercalate (eps.map fun e => (if e.tls then "tls-" else "plain-") ++ e.kind)}" :: d.tags } rest
    | _ => go C H d rest

def hooksC18 : Hooks := { setup := setupC18 }

/-! ### parsing lines into observations (`Tls.Spec.Obs`) -/

open SockModel.Tls.Spec in
def whoOf (n : String) : Who := if n == "c" then .c else if n == "s" then .s else .other n

open SockModel.Tls.Spec in
/-- an event line (`-> <event>`) -/
def evObs : Ev → Option Obs
  | .api who op args =>
    some (.api (whoOf who) (if op == "send" then .send else if op == "recv" then .recv else .other)
      (args.head?.bind String.toInt?))
  | .os who (.poll _ t ready) => some (.poll (whoOf who) t ready)
  | .os who (.send _ ns _) => some (.send (whoOf who) ns)
  | .sslret who ans init => some (.sslret (whoOf who) ans.isDone init)
  | .ret who rest =>
    match rest with
    | ["n", k] => some (.ret (whoOf who) (.n (k.toNat?.getD 0)))
    | "throw" :: _ => some (.ret (whoOf who) .threw)
    | _ => some (.ret (whoOf who) .other)
  | .rx who n => some (.rx (whoOf who) n)
  | .disc who _ => some (.disc (whoOf who))
  | _ => none

def hexArg : List String → Bytes
  | [h] => (hexDecode h).getD []
  | _ => []

open SockModel.Tls.Spec in
/-- one transcript line (op line or `-> …` observation line) as a typed observation; `none`: the line has no
meaning for the property -/
def toObs (l : String) : Option Obs :=
  match words l with
  | "->" :: "crash" :: x => some (.abort .crash (" ".intercalate x))
  | "->" :: "hang" :: x => some (.abort .hang (" ".intercalate x))
  | "->" :: "killed" :: x => some (.abort .killed (" ".intercalate x))
  | "->" :: "harness-error" :: _ => none
  | "->" :: "setup" :: "ok" :: kvs =>
    let m := kvOf kvs
    let pay := fun (a b : String) => (hexDecode (if kvGet m a == "" then kvGet m b else kvGet m a)).getD []
    some (.payload ((hexDecode (kvGet m "marker")).getD []) (pay "cpay" "xpay") (pay "spay" "ppay"))
  | "->" :: "loopend" :: r :: _ => some (.loopend (r == "stuck"))
  | "->" :: "wire" :: who :: rest => some (.wire (whoOf who) (hexArg rest))
  | "->" :: "wire" :: _ => none
  | "->" :: "got" :: who :: rest => some (.got (whoOf who) (hexArg rest))
  | "->" :: "got" :: _ => none
  | "->" :: "state" :: who :: kvs =>
    let m := kvOf kvs
    let num := fun (k : String) => if kvGet m k == "" then none else some ((kvGet m k).toNat?.getD 0)
    some (.state (whoOf who) { tls12 := kvGet m "ver" == "TLSv1.2", sent := num "sent", failed := kvGet m "failed" == "1",
                               init := num "init", pending := num "pending" })
  | "->" :: "state" :: _ => none
  | "->" :: "rawgot" :: rest => some (.rawgot (hexArg rest))
  | "->" :: "rawsent" :: _ => none
  | "->" :: ev => evObs (parseEv ev)
  | "setup" :: kvs =>
    let m := kvOf kvs
    let rsz := (kvGet m "rsz").toNat?.getD 4096
    let plain := if kvGet m "plain" == "" then "none" else kvGet m "plain"
    some (.setup (if plain == "cli" then none else some ⟨kvGet m "cli" == "async", rsz⟩)
                 (if plain == "srv" then none else some ⟨kvGet m "srv" == "async", rsz⟩) (plain != "none"))
  | _ => none

def isHarnessError (l : String) : Option String :=
  match words l with
  | "->" :: "harness-error" :: x => some ("harness error: " ++ " ".intercalate x)
  | _ => none

/-- the lines up to the first `-> harness-error` line (the harness itself gave up there: not a verdict about the
library), and that line's text -/
def cutAtHarnessError : List String → List String × Option String
  | [] => ([], none)
  | l :: rest =>
    match isHarnessError l with
    | some m => ([], some m)
    | none => let (a, b) := cutAtHarnessError rest; (l :: a, b)

/-- the property predicate on the typed observations (`Spec/C18.lean`), then the correspondence walker -/
def runWith (C : Cfg) (body : List String) : Verdict :=
  let (pre, herr) := cutAtHarnessError body
  match SockModel.Tls.Spec.specRun {} (pre.filterMap toObs) with
  | .error m => Verdict.spec m
  | .ok s =>
    match herr with
    | some m => Verdict.corr m
    | none =>
      match SockModel.Tls.Spec.specFinal s with
      | some m => Verdict.spec m
      | none => go C hooksC18 {} body

def runCase (body : List String) : Verdict := runWith Cfg.current body
/-- the model before 319faf2 (a Receive that timed out leaves WANT_READ cached) -/
def runCaseLegacyRecv (body : List String) : Verdict := runWith Cfg.legacyRecvReset body

end SockModel.Drive.C18

import SockModel.Drive.Common
import SockModel.Model.Tls
import SockModel.Model.PeerFail
/-! Driver for C18.

A transcript of `harness/scen/tls.cpp` is a flat stream of tagged events (see that file).
For every endpoint the driver

* **correspondence**: re-runs the glue model (`Model/Tls.lean`) call by call.  The engine
  (OpenSSL) and the world (kernel) are *replay instances* of the model's abstract `Engine`
  and `World`: they answer exactly what the implementation was answered, and they insist
  that the model asks the same questions in the same order (same waits with the same
  timeouts, same sends, same engine calls).  Results, handler calls, futures and the
  POLLOUT bit the driver polls with are compared.
* **spec** (`Spec.C18`, observations only): no marker in the raw stream, raw stream = TLS
  records starting with ClientHello / ServerHello, nothing delivered before `init_finished`,
  payload round trip, completion, a non-TLS peer yields an exception and zero bytes,
  MSG_NOSIGNAL on every send.
-/
namespace SockModel.Drive.C18
open SockModel SockModel.Drive SockModel.Net SockModel.Tls

/-! ### events -/

inductive OsEv where
  | poll (d : Dir) (t : Int) (ready : Bool)
  | send (len : Nat) (ns : Bool) (ans : SendAns)
  | recv (len : Nat) (ans : RecvAns)
  deriving Repr

def OsEv.show : OsEv → String
  | .poll d t r => s!"poll {if d == .rd then "in" else "out"} {t} {if r then "ready" else "timeout"}"
  | .send l _ (.accept k) => s!"send {l} -> {k}"
  | .send l _ (.fail e) => s!"send {l} -> errno {e}"
  | .recv l (.data bs) => s!"recv {l} -> {bs.length}"
  | .recv l (.fail e) => s!"recv {l} -> errno {e}"

inductive Ev where
  | api (who op : String) (args : List String)
  | ret (who : String) (rest : List String)
  | ssl (who : String) (isRead : Bool) (n : Nat)
  | sslret (who : String) (ans : SslAns) (init : Bool)
  | sslexn (who : String)
  | bio (who : String) (isRead : Bool)
  | os (who : String) (e : OsEv)
  | dpoll (t : Int) (res : Int) (fds : List (String × Nat × Nat))
  | dpend (who : String) (n : Nat)
  | rx (who : String) (n : Nat)
  | disc (who : String) (why : List String)
  | fut (who : String) (i : Nat) (res : String)
  | enq (who : String) (n : Nat)
  | other (w : List String)

def zeros (n : Nat) : Bytes := List.replicate n 0

def parseAns (w : String) (k : String) : Option SslAns :=
  match w with
  | "done" => k.toNat?.map .done
  | "want_read" => some .wantRead
  | "want_write" => some .wantWrite
  | "zero_return" => some .zeroReturn
  | "syscall" => some .syscallErr
  | "ssl" => some .sslErr
  | _ => none

def parseFd (tok : String) : Option (String × Nat × Nat) :=
  match tok.splitOn ":" with
  | [l, e, r] => do pure (l, ← e.toNat?, ← r.toNat?)
  | _ => none

def parseEv (w : List String) : Ev :=
  match w with
  | "api" :: who :: op :: args => .api who op args
  | "ret" :: who :: rest => .ret who rest
  | ["ssl", who, "read", n] => .ssl who true (n.toNat?.getD 0)
  | ["ssl", who, "write", n] => .ssl who false (n.toNat?.getD 0)
  | ["sslret", who, "done", k, i] => match parseAns "done" k with
      | some a => .sslret who a (i == "init=1") | none => .other w
  | ["sslret", who, a, i] => match parseAns a "" with
      | some a => .sslret who a (i == "init=1") | none => .other w
  | ["sslexn", who] => .sslexn who
  | ["bio", who, "r"] => .bio who true
  | ["bio", who, "w"] => .bio who false
  | ["os", who, "poll", d, t, r] =>
    match t.toInt? with
    | some t => .os who (.poll (if d == "in" then .rd else .wr) t (r == "ready"))
    | none => .other w
  | ["os", who, "send", len, ns, "fail", e] => .os who (.send (len.toNat?.getD 0) (ns == "ns=1") (.fail (e.toNat?.getD 0)))
  | ["os", who, "send", len, ns, r] => .os who (.send (len.toNat?.getD 0) (ns == "ns=1") (.accept (r.toNat?.getD 0)))
  | ["os", who, "recv", len, "fail", e] => .os who (.recv (len.toNat?.getD 0) (.fail (e.toNat?.getD 0)))
  | ["os", who, "recv", len, r] => .os who (.recv (len.toNat?.getD 0) (.data (zeros (r.toNat?.getD 0))))
  | "dpoll" :: t :: res :: fds =>
    match t.toInt?, res.toInt?, fds.mapM parseFd with
    | some t, some res, some fds => .dpoll t res fds
    | _, _, _ => .other w
  | ["rx", who, n] => .rx who (n.toNat?.getD 0)
  | ["dpend", who, n] => .dpend who (n.toNat?.getD 0)
  | "disc" :: who :: why => .disc who why
  | "fut" :: who :: i :: r :: _ => .fut who (i.toNat?.getD 0) r
  | ["enq", who, n] => .enq who (n.toNat?.getD 0)
  | _ => .other w

/-! ### replay instances of the model's neighbours -/

structure RecBio where
  isRead : Bool
  len : Nat
  deriving Repr

structure RecCall where
  isRead : Bool
  arg : Nat
  bios : List RecBio
  ans : Option SslAns      -- `none`: an exception thrown by a BIO callback unwound through the call
  initAfter : Bool
  deriving Repr

/-- the engine as observed: the recorded calls of the current API block -/
structure Rep where
  calls : List RecCall := []
  init : Bool := false
  bad : Option String := none

def mkProg (bios : List RecBio) (fin : EngProg Rep) : EngProg Rep :=
  match bios with
  | [] => fin
  | b :: rest =>
    if b.isRead then .bioRead b.len (fun _ => mkProg rest fin)
    else
      -- a BIO write during which no `send` was observed (the wait timed out) has an unknown, positive size
      .bioWrite (zeros (if b.len = 0 then 1 else b.len)) (fun _ => mkProg rest fin)

def repCall (σ : Rep) (isRead : Bool) (arg : Nat) : EngProg Rep :=
  match σ.calls with
  | [] => .ret (.done 0) [] { σ with bad := some s!"model calls ssl_{if isRead then "read" else "write"}({arg}), the implementation made no such call" }
  | c :: rest =>
    if c.isRead != isRead ∨ c.arg != arg then
      .ret (.done 0) [] { σ with bad := some s!"model calls ssl_{if isRead then "read" else "write"}({arg}), the implementation called ssl_{if c.isRead then "read" else "write"}({c.arg})" }
    else
      let fin : EngProg Rep := match c.ans with
        | some a =>
          let out := match a with | .done k => if isRead then zeros k else [] | _ => []
          .ret a out { σ with calls := rest, init := c.initAfter }
        | none => .ret (.done 0) [] { σ with bad := some "a BIO callback of the implementation threw, the model's did not" }
      mkProg c.bios fin

def repEngine : Engine Rep where
  sslRead σ n := repCall σ true n
  sslWrite σ bs := repCall σ false bs.length
  initFinished σ := σ.init

/-- the kernel as observed: the recorded OS calls of the current API block, in order -/
structure RW where
  evs : List OsEv := []
  now : Int := 0
  bad : Option String := none

def RW.fail (ω : RW) (asked : String) : RW :=
  match ω.bad with
  | some _ => { ω with evs := [] }
  | none =>
    let seen := match ω.evs with | e :: _ => e.show | [] => "nothing more"
    { ω with evs := [], bad := some s!"model: {asked}; implementation: {seen}" }

def repWorld : World RW where
  wait ω d t :=
    match ω.evs with
    | .poll d' t' r :: rest =>
      if d = d' ∧ t = t' then (r, { ω with evs := rest, now := ω.now + (if !r ∧ t > 0 then t else 0) })
      else (false, ω.fail s!"poll {if d == .rd then "in" else "out"} timeout {t}")
    | _ => (false, ω.fail s!"poll {if d == .rd then "in" else "out"} timeout {t}")
  send ω bs :=
    match ω.evs with
    | .send len _ ans :: rest =>
      if len = bs.length then (ans, { ω with evs := rest }) else (.fail 0, ω.fail s!"send of {bs.length} bytes")
    | _ => (.fail 0, ω.fail s!"send of {bs.length} bytes")
  recv ω n :=
    match ω.evs with
    | .recv len ans :: rest =>
      if len = n ∨ n = 0 then (ans, { ω with evs := rest }) else (.fail 0, ω.fail s!"recv into {n} bytes")
    | _ => (.fail 0, ω.fail s!"recv into {n} bytes")
  now ω := ω.now

/-! ### turning the events of one API block into replay input -/

structure Block where
  os : List OsEv := []            -- newest first while collecting
  calls : List RecCall := []      -- newest first while collecting
  cur : Option RecCall := none    -- engine call in progress
  rx : List Nat := []
  disc : Nat := 0
  dpoll : Option (Int × Int × List (String × Nat × Nat)) := none
  pend : List (String × Nat) := []   -- `SSL_pending()` of the async TLS endpoints when the step began

def Block.pushBioLen (c : RecCall) (len : Nat) : RecCall :=
  match c.bios.reverse with
  | b :: older => if b.len = 0 then { c with bios := (({ b with len := len } :: older).reverse) } else c
  | [] => c

def Block.add (b : Block) : Ev → Block
  | .ssl _ isRead n => { b with cur := some ⟨isRead, n, [], none, false⟩ }
  | .bio _ isRead => match b.cur with
    | some c => { b with cur := some { c with bios := c.bios ++ [⟨isRead, 0⟩] } }
    | none => b
  | .sslret _ ans init => match b.cur with
    | some c => { b with cur := none, calls := { c with ans := some ans, initAfter := init } :: b.calls }
    | none => b
  | .sslexn _ => match b.cur with
    | some c => { b with cur := none, calls := c :: b.calls }
    | none => b
  | .os _ e =>
    let b := { b with os := e :: b.os }
    match b.cur, e with
    | some c, .send len _ _ => { b with cur := some (Block.pushBioLen c len) }
    | some c, .recv len _ => { b with cur := some (Block.pushBioLen c len) }
    | _, _ => b
  | .rx _ n => { b with rx := n :: b.rx }
  | .disc _ _ => { b with disc := b.disc + 1 }
  | _ => b

/-! ### per-endpoint model state -/

structure EpSt where
  name : String
  kind : String := "basic"
  tls : Bool := true
  driver : String := ""
  rsz : Nat := 4096
  st : St Rep RW := { g := {}, e := {}, w := {} }
  a : Async := {}
  open_ : Option (String × List String × Block) := none     -- API call in progress (op, args, events)
  futSeen : List Bool := []                                -- observed future results, oldest first
  -- spec side (observations only)
  lastDoneInit : Bool := false          -- the latest engine answer was `done` with init_finished
  delivered : Nat := 0
  threw : Bool := false
  discSeen : Nat := 0
  recvOp : Bool := false
  callT : Option Int := none            -- timeout of the synchronous Send/Receive in progress (C07 clauses)
  spent : Int := 0                      -- virtual ms its timed-out waits have consumed so far

def exnClass : Exn → String
  | .system _ => "system_error"
  | .sslError => "system_error"
  | .closed => "runtime_error"
  | .logic _ => "logic_error"

def loadBlock (ep : EpSt) (b : Block) : St Rep RW :=
  { ep.st with e := { ep.st.e with calls := b.calls.reverse, bad := none },
               w := { ep.st.w with evs := b.os.reverse, bad := none } }

/-- after a block: everything the implementation did must have been replayed -/
def leftovers (s : St Rep RW) : Option String :=
  match s.e.bad, s.w.bad with
  | some m, _ => some m
  | _, some m => some m
  | none, none =>
    match s.w.evs, s.e.calls with
    | e :: _, _ => some s!"implementation made a further OS call the model did not: {e.show}"
    | [], c :: _ =>
      match c.ans with
      | none => none   -- the call an exception unwound through; the model's interp stopped there too
      | some _ => some s!"implementation made a further ssl_{if c.isRead then "read" else "write"} call the model did not"
    | [], [] => none

def clearReplay (s : St Rep RW) : St Rep RW :=
  { s with e := { s.e with calls := [], bad := none }, w := { s.w with evs := [], bad := none } }

/-- run one synchronous API block through the model; `none` = agreement -/
def runSync (C : Cfg) (ep : EpSt) (op : String) (args : List String) (b : Block) (ret : List String) :
    Option String × EpSt × List String :=
  let s0 := loadBlock ep b
  match op, args with
  | "send", [t, len] =>
    match t.toInt?, len.toNat? with
    | some t, some len =>
      let (o, s1) : Out Nat × St Rep RW :=
        if ep.tls then sendT C repWorld repEngine s0 (zeros len) t
        else
          let r := PeerFail.sendT repWorld s0.w (zeros len) t
          match r.exn with
          | some e => (.exn e, { s0 with w := r.w })
          | none => (.ok r.sent, { s0 with w := r.w })
      let tag := if t < 0 then "send.unlimited" else if t = 0 then "send.zero" else "send.limited"
      let cmp : Option String := match o, ret with
        | .ok n, ["n", k] => if k.toNat? == some n then none else some s!"Send returns {k}, model {n}"
        | .exn e, "throw" :: cls :: _ => if cls == exnClass e then none else some s!"Send throws {cls}, model {exnClass e}"
        | .abort m, "crash" :: _ => let _ := m; none
        | .ok n, _ => some s!"model: Send returns {n}; implementation: {" ".intercalate ret}"
        | .exn e, _ => some s!"model: Send throws {exnClass e}; implementation: {" ".intercalate ret}"
        | .abort m, _ => some s!"model: {m}; implementation: {" ".intercalate ret}"
      let cmp := match leftovers s1 with | some m => some m | none => cmp
      (cmp, { ep with st := clearReplay s1 }, [tag])
    | _, _ => (some "bad send op", ep, [])
  | "recv", [t, size] =>
    match t.toInt?, size.toNat? with
    | some t, some size =>
      let (o, s1) : Out Bytes × St Rep RW :=
        if ep.tls then receiveT C repWorld repEngine s0 size t
        else match PeerFail.recvT repWorld s0.w size t with
          | .got bs w' => (.ok bs, { s0 with w := w' })
          | .nothing w' => (.ok [], { s0 with w := w' })
          | .exn e w' => (.exn e, { s0 with w := w' })
      let tag := if t < 0 then "recv.unlimited" else if t = 0 then "recv.zero" else "recv.limited"
      let cmp : Option String := match o, ret with
        | .ok [], ["none"] => none
        | .ok bs, ["n", k] => if k.toNat? == some bs.length ∧ bs ≠ [] then none else some s!"Receive returns {k}, model {bs.length}"
        | .exn e, "throw" :: cls :: _ => if cls == exnClass e then none else some s!"Receive throws {cls}, model {exnClass e}"
        | .abort _, "crash" :: _ => none
        | .ok bs, _ => some s!"model: Receive returns {bs.length}; implementation: {" ".intercalate ret}"
        | .exn e, _ => some s!"model: Receive throws {exnClass e}; implementation: {" ".intercalate ret}"
        | .abort m, _ => some s!"model: {m}; implementation: {" ".intercalate ret}"
      let cmp := match leftovers s1 with | some m => some m | none => cmp
      (cmp, { ep with st := clearReplay s1 }, [tag])
    | _, _ => (some "bad recv op", ep, [])
  | _, _ => (some s!"unknown op {op}", ep, [])

/-! ### Spec.C18 helpers (observations only) -/

def isInfix (pat s : Bytes) : Bool :=
  if pat.isEmpty then false else
  let rec go (s : Bytes) (fuel : Nat) : Bool :=
    match fuel with
    | 0 => false
    | fuel + 1 =>
      if pat.isPrefixOf s then true else
      match s with
      | [] => false
      | _ :: t => go t fuel
  go s (s.length + 1)

structure Rec where
  typ : Nat
  ver : Nat
  len : Nat
  first : Nat      -- first payload byte (handshake message type for a plaintext handshake record)
  complete : Bool

def parseRecords (bs : Bytes) : Except String (List Rec) :=
  let rec go (bs : Bytes) (fuel : Nat) (acc : List Rec) : Except String (List Rec) :=
    match fuel with
    | 0 => .ok acc.reverse
    | fuel + 1 =>
      match bs with
      | [] => .ok acc.reverse
      | t :: v1 :: v2 :: l1 :: l2 :: rest =>
        let typ := t.toNat
        let ver := v1.toNat * 256 + v2.toNat
        let len := l1.toNat * 256 + l2.toNat
        if typ < 20 ∨ typ > 23 then .error s!"record {acc.length}: content type {typ} is not a TLS record type"
        else if ver ≠ 0x0301 ∧ ver ≠ 0x0303 then .error s!"record {acc.length}: version {ver}"
        else if len > 16384 + 256 then .error s!"record {acc.length}: length {len}"
        else
          let first := match rest with | b :: _ => b.toNat | [] => 0
          if rest.length < len then .ok (⟨typ, ver, len, first, false⟩ :: acc).reverse
          else go (rest.drop len) fuel (⟨typ, ver, len, first, true⟩ :: acc)
      | _ => .ok acc.reverse   -- fewer than 5 bytes of a header at the very end
  go bs (bs.length + 1) []

/-- the raw stream one side wrote: TLS records; the first is a plaintext handshake record carrying
ClientHello (1) resp. ServerHello (2); in TLS 1.2 no application-data record precedes ChangeCipherSpec -/
def specWire (who : String) (isClient : Bool) (tls12 : Bool) (wire marker : Bytes) : Option String :=
  if isInfix marker wire then some s!"plaintext marker found in the raw stream written by {who}"
  else match parseRecords wire with
    | .error m => some s!"raw stream of {who} is not a sequence of TLS records: {m}"
    | .ok [] => none
    | .ok (r :: rest) =>
      if r.typ ≠ 22 then some s!"first record written by {who} has type {r.typ}, not handshake(22)"
      else if r.first ≠ (if isClient then 1 else 2) then
        some s!"first record written by {who} is handshake message {r.first}, expected {if isClient then "ClientHello" else "ServerHello"}"
      else if tls12 then
        let beforeCcs := rest.takeWhile (fun r => r.typ ≠ 20)
        if beforeCcs.length < rest.length ∧ beforeCcs.any (fun r => r.typ = 23) then
          some s!"application-data record written by {who} before ChangeCipherSpec (TLS 1.2)"
        else if ¬ rest.any (fun r => r.typ = 20) ∧ rest.any (fun r => r.typ = 23) then
          some s!"application-data record written by {who} without a preceding ChangeCipherSpec (TLS 1.2)"
        else none
      else none

def kvOf (w : List String) : List (String × String) :=
  w.filterMap fun t => match t.splitOn "=" with | [k, v] => some (k, v) | _ => none

def kvGet (m : List (String × String)) (k : String) : String :=
  match m.find? (·.1 == k) with | some (_, v) => v | none => ""

/-! ### the case driver -/

structure DSt where
  eps : List EpSt := []
  setup : List (String × String) := []
  marker : Bytes := []
  cpay : Bytes := []
  spay : Bytes := []
  plain : String := "none"
  dopen : List (String × Int × Block) := []      -- driver steps in progress: (driver, timeout, events)
  loopend : Option String := none
  tags : List String := []
  corr : Option String := none                   -- first correspondence problem (reported after the spec)
  strictInit : Bool := true                      -- C18: data may only be delivered when SSL_is_init_finished
  finals : List (List String) := []

def DSt.ep? (d : DSt) (n : String) : Option EpSt := d.eps.find? (·.name == n)
def DSt.setEp (d : DSt) (e : EpSt) : DSt := { d with eps := d.eps.map fun x => if x.name == e.name then e else x }
def DSt.noteCorr (d : DSt) (m : String) : DSt := match d.corr with | some _ => d | none => { d with corr := some m }

def revOf (r : Nat) : REvents := { rd := r % 2 == 1, wr := (r / 4) % 2 == 1, hupErr := (r / 8) % 4 != 0 }

/-- model side of one `Driver::Step` -/
def runStep (C : Cfg) (d : DSt) (dname : String) (b : Block) (ret : List String) : DSt :=
  match b.dpoll with
  | none =>
    -- Step ended before polling: nothing for the glue model to say (reported by the spec if it threw)
    d
  | some (tpoll, res, fds) =>
    -- 1. DriverQuery of every registered socket, compared with the events the driver polled with
    let asyncOn := d.eps.filter (fun e => e.kind == "async" ∧ e.driver == dname)
    let d := asyncOn.foldl (fun d ep =>
      let x : ASt Rep RW := { a := ep.a, s := ep.st }
      let x := if ep.tls then aQuery repEngine x else x
      let ep := { ep with a := x.a, st := x.s }
      let d := d.setEp ep
      match fds.find? (·.1 == ep.name) with
      | some (_, ev, _) =>
        if ¬ ep.a.registered then d.noteCorr s!"{ep.name}: model has the socket unregistered, the driver still polls it"
        else if (ev / 4) % 2 == 1 ∧ ¬ ep.a.pollOut then d.noteCorr s!"{ep.name}: driver polls for POLLOUT, model's DriverQuery does not request it"
        else if (ev / 4) % 2 == 0 ∧ ep.a.pollOut then d.noteCorr s!"{ep.name}: model's DriverQuery requests POLLOUT, the driver does not poll for it"
        else { d with tags := (if ep.a.pollOut then "query.pollout" else if ep.st.g.driverSendSuppressed then "query.suppressed" else "query.idle") :: d.tags }
      | none =>
        if ep.a.registered then d.noteCorr s!"{ep.name}: model has the socket registered, the driver does not poll it" else d) d
    -- 2. which socket does DoOneSocketTask serve
    let pipeRev := match fds.find? (·.1 == "pipe") with | some (_, _, r) => r | none => 0
    -- `QuerySockets`: the first polled socket whose `DriverQuery` reports received data held already (F8 repair);
    -- the engine is replayed, not simulated, so its `SSL_pending()` is taken from the observation
    let received : Option String :=
      (fds.find? (fun f => f.1 != "pipe" ∧ (d.eps.any fun ep => ep.name == f.1 ∧ ep.tls ∧ ep.a.registered) ∧
                           (b.pend.any fun p => p.1 == f.1 ∧ p.2 > 0))).map (·.1)
    let d := if received.isSome ∧ tpoll ≠ 0 then
        d.noteCorr s!"{dname}: a socket holds received data already, yet the driver waits with timeout {tpoll} instead of 0"
      else d
    let served := if pipeRev ≠ 0 then none
      else fds.find? (fun f => f.1 != "pipe" ∧ ((res > 0 ∧ f.2.2 ≠ 0) ∨ received == some f.1))
    let served := served.map fun f => if received == some f.1 then (f.1, f.2.1, f.2.2 ||| 1) else f
    let d := if received.isSome then { d with tags := "query.received" :: d.tags } else d
    match served with
    | none =>
      if b.calls.isEmpty ∧ b.os.isEmpty then { d with tags := "step.idle" :: d.tags }
      else d.noteCorr s!"{dname}: no socket was ready, yet the implementation worked on one"
    | some (name, _, r) =>
      match d.ep? name with
      | none => d     -- the acceptor
      | some ep =>
        let s0 := loadBlock ep b
        let rev := revOf r
        let (o, x) : Out Unit × ASt Rep RW :=
          if ep.tls then aTask C repWorld repEngine ep.rsz { a := ep.a, s := s0 } rev
          else
            let (o, p) := PeerFail.pTask repWorld ep.rsz { a := ep.a, w := s0.w } rev
            (o, { a := p.a, s := { s0 with w := p.w } })
        let newDelivered := (x.a.delivered.take (x.a.delivered.length - ep.a.delivered.length)).reverse.map (·.length)
        let tag := if rev.rd then "task.readable" else if rev.wr then (if ep.a.sendQ.isEmpty then "task.pending" else "task.writable") else "task.huperr"
        let cmp : Option String :=
          match leftovers x.s with
          | some m => some m
          | none =>
            if newDelivered ≠ b.rx.reverse then some s!"onReceive called with {b.rx.reverse}, model {newDelivered}"
            else if x.a.disconnects - ep.a.disconnects ≠ b.disc then some s!"disconnect handler ran {b.disc} times, model {x.a.disconnects - ep.a.disconnects}"
            else match o, ret with
              | .ok (), "ok" :: _ => none
              | .exn e, "throw" :: cls :: _ => if cls == exnClass e then none else some s!"Step throws {cls}, model {exnClass e}"
              | .abort _, "crash" :: _ => none
              | .ok (), _ => some s!"model: Step returns; implementation: {" ".intercalate ret}"
              | .exn e, _ => some s!"model: Step throws {exnClass e}; implementation: {" ".intercalate ret}"
              | .abort m, _ => some s!"model: {m}; implementation: {" ".intercalate ret}"
        let d := d.setEp { ep with a := x.a, st := clearReplay x.s }
        let d := { d with tags := tag :: d.tags }
        match cmp with | some m => d.noteCorr s!"{name}: {m}" | none => d

/-- spec bookkeeping for one event (observations only) -/
def specEv (d : DSt) (e : Ev) : Except String DSt :=
  match e with
  | .sslret who ans init =>
    match d.ep? who with
    | some ep => .ok (d.setEp { ep with lastDoneInit := ans.isDone && init })
    | none => .ok d
  | .api who op args =>
    match d.ep? who with
    | some ep =>
      let T : Option Int := if op == "send" ∨ op == "recv" then (args.head?.bind String.toInt?) else none
      .ok (d.setEp { ep with recvOp := op == "recv", callT := T, spent := 0 })
    | none => .ok d
  | .os who (.poll _ t ready) =>
    -- C07 for the TLS socket: "negative = unlimited, zero = never blocks, positive = at most that long in total,
    -- however many waits the handshake / the record layer needs"; under the virtual clock a wait that times out
    -- consumes exactly its argument, one that finds the descriptor ready consumes nothing
    match d.ep? who with
    | some ep =>
      match ep.callT with
      | none => .ok d
      | some T =>
        if T < 0 then
          if t ≥ 0 then .error s!"{who}: call with unlimited timeout issued a bounded wait poll({t})" else .ok d
        else if T = 0 then
          if t ≠ 0 then .error s!"{who}: call with timeout 0 issued a blocking wait poll({t})" else .ok d
        else if t < 0 then .error s!"{who}: call with timeout {T} ms issued an unlimited wait"
        else if ep.spent + t > T then
          .error s!"{who}: call with timeout {T} ms waits poll({t}) after its earlier waits already consumed {ep.spent} ms: over budget"
        else .ok (d.setEp { ep with spent := ep.spent + (if ready then 0 else t) })
    | none => .ok d
  | .ret who rest =>
    match d.ep? who, rest with
    | some ep, ["n", k] =>
      let k := k.toNat?.getD 0
      if ep.recvOp ∧ k > 0 then
        if d.strictInit ∧ ep.tls ∧ ¬ ep.lastDoneInit then .error s!"{who}: Receive delivered {k} bytes although the engine had not finished the handshake / not answered done"
        else if d.plain ≠ "none" then .error s!"{who}: Receive delivered {k} bytes from a peer that does not speak TLS"
        else .ok (d.setEp { ep with delivered := ep.delivered + k, callT := none })
      else .ok (d.setEp { ep with callT := none })
    | some ep, "throw" :: _ => .ok (d.setEp { ep with threw := true, callT := none })
    | some ep, _ => .ok (d.setEp { ep with callT := none })
    | _, _ => .ok d
  | .rx who n =>
    match d.ep? who with
    | some ep =>
      if n = 0 then .error s!"{who}: receive handler invoked with an empty buffer"
      else if d.strictInit ∧ ep.tls ∧ ¬ ep.lastDoneInit then .error s!"{who}: receive handler invoked with {n} bytes although the engine had not finished the handshake"
      else if d.plain ≠ "none" then .error s!"{who}: receive handler delivered {n} bytes from a peer that does not speak TLS"
      else .ok (d.setEp { ep with delivered := ep.delivered + n })
    | none => .ok d
  | .disc who _ =>
    match d.ep? who with
    | some ep =>
      if ep.discSeen ≥ 1 then .error s!"{who}: disconnect handler invoked twice"
      else .ok (d.setEp { ep with discSeen := ep.discSeen + 1 })
    | none => .ok d
  | .os who (.send _ ns _) =>
    if ns then .ok d else .error s!"{who}: raw send without MSG_NOSIGNAL"
  | _ => .ok d

def stateOf (d : DSt) (who : String) : List (String × String) :=
  match d.finals.find? (fun w => w.take 2 == ["state", who]) with
  | some w => kvOf w
  | none => []

def hexOf (d : DSt) (key who : String) : Bytes :=
  match d.finals.find? (fun w => w.take 2 == [key, who]) with
  | some [_, _, h] => (hexDecode h).getD []
  | _ => []

/-- the end-of-case part of Spec.C18 -/
def specFinal (d : DSt) : Option String := Id.run do
  let mut problems : List String := []
  -- raw streams
  for ep in d.eps do
    let st := stateOf d ep.name
    let tls12 := kvGet st "ver" == "TLSv1.2"
    match specWire ep.name (ep.name == "c") tls12 (hexOf d "wire" ep.name) d.marker with
    | some m => problems := problems ++ [m]
    | none => pure ()
  if problems ≠ [] then return problems.head?
  let rawgot := match d.finals.find? (fun w => w.head? == some "rawgot") with
    | some [_, h] => (hexDecode h).getD [] | _ => []
  if isInfix d.marker rawgot then return some "plaintext marker reached a plain TCP peer"
  if d.plain ≠ "none" then
    -- a peer that does not speak TLS: exception / disconnect handler, zero bytes delivered
    for ep in d.eps do
      let got := hexOf d "got" ep.name
      if got ≠ [] then return some s!"{ep.name}: {got.length} bytes delivered from a peer that does not speak TLS"
      if ¬ (ep.threw ∨ ep.discSeen ≥ 1) then return some s!"{ep.name}: talking to a non-TLS peer was not reported (no exception, no disconnect handler)"
    -- what the plain peer read must itself be TLS records (an alert) or nothing
    match parseRecords rawgot with
    | .error m => return some s!"the plain TCP peer read something that is not a TLS record: {m}"
    | .ok _ => pure ()
    return none
  -- TLS <-> TLS: payload integrity and completion
  for ep in d.eps do
    let got := hexOf d "got" ep.name
    let peerPay := if ep.name == "c" then d.spay else d.cpay
    let peer := if ep.name == "c" then "s" else "c"
    let peerSent := (kvGet (stateOf d peer) "sent").toNat?.getD 0
    if ¬ got.isPrefixOf peerPay then return some s!"{ep.name}: received bytes are not a prefix of what the peer sent ({got.length} bytes received)"
    -- (while a TLS Send is being retried the engine may already have transmitted records that the Send
    -- calls so far did not account for; the accounting is exact once the retries are through - see `done` below)
    let _ := peerSent
    if ep.threw ∨ ep.discSeen > 0 ∨ kvGet (stateOf d ep.name) "failed" == "1" then
      return some s!"{ep.name}: failure reported (exception / disconnect / failed future) on a healthy TLS connection"
  match d.loopend with
  | some "stuck" =>
    let pend := d.eps.filter (fun ep => ep.kind == "async" ∧ ((kvGet (stateOf d ep.name) "pending").toNat?.getD 0) > 0)
    match pend with
    | ep :: _ =>
      return some s!"tls-pending-stall: {ep.name} (async, rxBufSize {ep.rsz}) has {kvGet (stateOf d ep.name) "pending"} decrypted bytes pending inside the engine that the driver never delivers; received {(hexOf d "got" ep.name).length}"
    | [] =>
      let inits := d.eps.map (fun ep => s!"{ep.name}:init={kvGet (stateOf d ep.name) "init"},got={(hexOf d "got" ep.name).length},sent={kvGet (stateOf d ep.name) "sent"}")
      return some s!"exchange did not complete (handshake or payload stuck): {inits}"
  | _ => pure ()
  -- after the last op every payload must have arrived in full
  for ep in d.eps do
    let got := hexOf d "got" ep.name
    let peerPay := if ep.name == "c" then d.spay else d.cpay
    if got ≠ peerPay then return some s!"{ep.name}: received {got.length} of {peerPay.length} bytes"
    if kvGet (stateOf d ep.name) "init" ≠ "1" then return some s!"{ep.name}: handshake not finished at the end"
  return none

/-- what differs between the properties that share this transcript format -/
structure Hooks where
  final : DSt → Option String
  ev : DSt → Ev → Except String DSt
  /-- endpoints (and the plain-peer flag) from a `setup` op line -/
  setup : List (String × String) → List EpSt × String

def setupC18 (m : List (String × String)) : List EpSt × String :=
  let rsz := (kvGet m "rsz").toNat?.getD 4096
  let shared := kvGet m "shared" == "1"
  let plain := if kvGet m "plain" == "" then "none" else kvGet m "plain"
  let ck := kvGet m "cli"
  let sk := kvGet m "srv"
  let c : EpSt := { name := "c", kind := ck, driver := if ck == "async" then "dc" else "", rsz := rsz }
  let s : EpSt := { name := "s", kind := sk, driver := if sk == "async" then (if shared ∧ ck == "async" then "dc" else "ds") else "", rsz := rsz }
  (if plain == "cli" then [s] else if plain == "srv" then [c] else [c, s], plain)

partial def go (C : Cfg) (H : Hooks) (d : DSt) : List String → Verdict
  | [] =>
    match H.final d with
    | some m => Verdict.spec m d.tags
    | none =>
      -- futures: model vs. observed
      let futProblem := d.eps.findSome? fun ep =>
        if ep.kind == "async" ∧ ep.a.futures.reverse.map (· == .ok) ≠ ep.futSeen then
          some s!"{ep.name}: futures resolved {ep.futSeen}, model {ep.a.futures.reverse.map (· == .ok)}"
        else none
      match d.corr, futProblem with
      | some m, _ => Verdict.corr m d.tags
      | none, some m => Verdict.corr m d.tags
      | none, none => { tags := d.tags }
  | l :: rest =>
    let w := words l
    match w with
    | [] => go C H d rest
    | "->" :: "crash" :: x => Verdict.spec ("crash: " ++ " ".intercalate x) d.tags
    | "->" :: "hang" :: x => Verdict.spec ("hang: " ++ " ".intercalate x) d.tags
    | "->" :: "killed" :: x => Verdict.spec ("process killed by a signal: " ++ " ".intercalate x) d.tags
    | "->" :: "harness-error" :: x => Verdict.corr ("harness error: " ++ " ".intercalate x) d.tags
    | "->" :: "setup" :: "ok" :: kvs =>
      let m := kvOf kvs
      let pay := fun (a b : String) => (hexDecode (if kvGet m a == "" then kvGet m b else kvGet m a)).getD []
      let d := { d with marker := (hexDecode (kvGet m "marker")).getD [], cpay := pay "cpay" "xpay", spay := pay "spay" "ppay" }
      go C H d rest
    | "->" :: "loopend" :: r :: _ => go C H { d with loopend := some r } rest
    | "->" :: "wire" :: _ => go C H { d with finals := (w.drop 1) :: d.finals } rest
    | "->" :: "got" :: _ => go C H { d with finals := (w.drop 1) :: d.finals } rest
    | "->" :: "state" :: _ => go C H { d with finals := (w.drop 1) :: d.finals } rest
    | "->" :: "rawgot" :: _ => go C H { d with finals := (w.drop 1) :: d.finals } rest
    | "->" :: "rawsent" :: _ => go C H { d with finals := (w.drop 1) :: d.finals } rest
    | "->" :: ev =>
      let e := parseEv ev
      match H.ev d e with
      | .error m => Verdict.spec m d.tags
      | .ok d =>
        -- route the event to the API block it belongs to
        match e with
        | .api who op args =>
          if op == "step" then
            go C H { d with dopen := (who, (args.head?.bind String.toInt?).getD 0, {}) :: d.dopen.filter (·.1 != who) } rest
          else match d.ep? who with
            | some ep => go C H (d.setEp { ep with open_ := some (op, args, {}) }) rest
            | none => go C H d rest
        | .ret who r =>
          match d.dopen.find? (·.1 == who) with
          | some (_, _, b) =>
            let d := { d with dopen := d.dopen.filter (·.1 != who) }
            go C H (runStep C d who b r) rest
          | none =>
            match d.ep? who with
            | some ep =>
              match ep.open_ with
              | some (op, args, b) =>
                let (cmp, ep', tg) := runSync C ep op args b r
                let d := d.setEp { ep' with open_ := none }
                let d := { d with tags := tg ++ d.tags }
                go C H (match cmp with | some m => d.noteCorr s!"{who} {op} {" ".intercalate args}: {m}" | none => d) rest
              | none => go C H d rest
            | none => go C H d rest
        | .dpoll t res fds =>
          -- belongs to the driver whose step is open and that owns one of the listed sockets
          let owner := d.dopen.find? fun (dn, _, _) =>
            fds.any (fun f => (d.eps.any fun ep => ep.name == f.1 ∧ ep.driver == dn)) ∨ d.dopen.length == 1
          match owner with
          | some (dn, to, b) =>
            go C H { d with dopen := (dn, to, { b with dpoll := some (t, res, fds) }) :: d.dopen.filter (·.1 != dn) } rest
          | none => go C H d rest
        | .dpend who n =>
          match d.ep? who with
          | some ep =>
            match d.dopen.find? (·.1 == ep.driver) with
            | some (dn, to, b) =>
              go C H { d with dopen := (dn, to, { b with pend := (who, n) :: b.pend }) :: d.dopen.filter (·.1 != dn) } rest
            | none => go C H d rest
          | none => go C H d rest
        | .enq who n =>
          match d.ep? who with
          | some ep =>
            let x := enqueue (σ := Rep) (ω := RW) { a := ep.a, s := ep.st } (zeros n)
            go C H { (d.setEp { ep with a := x.a }) with tags := "enq" :: d.tags } rest
          | none => go C H d rest
        | .fut who _ res =>
          match d.ep? who with
          | some ep =>
            -- only promises the driver resolved are the model's business (broken ones die with the socket)
            if res == "ok" ∨ res == "exn" then go C H (d.setEp { ep with futSeen := ep.futSeen ++ [res == "ok"] }) rest
            else go C H d rest
          | none => go C H d rest
        | .other _ => go C H d rest
        | ev =>
          -- ssl / bio / os / rx / disc: into the open block of the endpoint (sync) or of its driver (async)
          let who := match ev with
            | .ssl w _ _ => w | .sslret w _ _ => w | .sslexn w => w | .bio w _ => w | .os w _ => w
            | .rx w _ => w | .disc w _ => w | _ => ""
          match d.ep? who with
          | none => go C H d rest
          | some ep =>
            if ep.kind == "async" then
              match d.dopen.find? (·.1 == ep.driver) with
              | some (dn, to, b) => go C H { d with dopen := (dn, to, b.add ev) :: d.dopen.filter (·.1 != dn) } rest
              | none => go C H d rest
            else
              match ep.open_ with
              | some (op, args, b) => go C H (d.setEp { ep with open_ := some (op, args, b.add ev) }) rest
              | none => go C H d rest
    | "setup" :: kvs =>
      let m := kvOf kvs
      let (eps, plain) := H.setup m
      go C H { d with eps := eps, setup := m, plain := plain,
                      tags := s!"pair.{"+".intercalate (eps.map fun e => (if e.tls then "tls-" else "plain-") ++ e.kind)}" :: d.tags } rest
    | _ => go C H d rest

def hooksC18 : Hooks := { final := specFinal, ev := specEv, setup := setupC18 }

def runCase (body : List String) : Verdict := go Cfg.current hooksC18 {} body
/-- the model before 319faf2 (a Receive that timed out leaves WANT_READ cached) -/
def runCaseLegacyRecv (body : List String) : Verdict := go Cfg.legacyRecvReset hooksC18 {} body

end SockModel.Drive.C18

import SockModel.Drive.Common
import SockModel.Model.Uri
import SockModel.Model.Addr
/-! Driver for C11 and C12: validates `scen/address_parse.cpp` transcripts against `Model/Uri.lean`.

* correspondence (both properties): outcome class and the `(node, service, flags)` handed to
  `getaddrinfo` equal the model's `parseUri` / `parseHostServ`; the pre-fix regex dissection
  (differential oracle, inputs ≤ 2000 bytes) equals the model's `dissectRaw`.
* C11 on observations only: every construction ends in a value or an exception derived from
  `std::exception`; no crash, signal, hang, foreign exception.
* C12 on observations only: a service that reaches `getaddrinfo` and that `strtoul` reads
  completely is ≤ 65535 and equals `Port()`; `Service()` is the decimal text of `Port()`;
  `to_string` is `host:serv` / `[host]:serv` and parses back to an equal Address; all spellings
  of one literal endpoint succeed, report the ground-truth host / port / family and are equal.
-/
namespace SockModel.Drive.UriOld
open SockModel SockModel.Drive SockModel.Uri

def fnv1a (b : Bytes) : UInt64 :=
  b.foldl (fun h c => (h ^^^ c.toUInt64) * 1099511628211) 14695981039346656037

def hex16 (v : UInt64) : String :=
  String.ofList ((List.range 16).map fun i => hexDigit ((v >>> (UInt64.ofNat (60 - 4 * i))).toNat % 16))

/-- the harness's encoding of a byte string: hex up to 65536 bytes, else length and FNV-1a hash -/
def enc (b : Bytes) : String :=
  if b.length ≤ 65536 then hexEncode b else s!"#{b.length}:{hex16 (fnv1a b)}"

def kv (ws : List String) (k : String) : Option String :=
  ws.findSome? fun w => match w.splitOn "=" with
    | [k', v] => if k' = k then some v else none
    | _ => none

def repeatUnit (unit : Bytes) (n : Nat) : Bytes := Id.run do
  let r := unit.reverse
  let mut acc : Bytes := []
  for _ in [0:n] do
    acc := r ++ acc
  return acc.reverse

inductive Input where
  | uri (b : Bytes)
  | pair (h s : Bytes)
  | big (what : String)      -- too large for the model: property checks only

structure Obs where
  gai : Option (String × String × Nat) := none     -- node enc, serv enc, flags
  legacy : Option (Option (String × String × Bool)) := none
  outcome : List String := []

structure St where
  prop : Nat
  lit : Option (Bytes × Nat × Bool) := none
  tags : List String := []
  corr : Option String := none

def St.note (s : St) (msg : String) : St := if s.corr.isSome then s else { s with corr := some msg }

def stdClasses : List String := ["invalid_argument", "out_of_range", "logic_error", "system_error", "runtime_error", "other"]

def describe : Input → String
  | .uri b => s!"uri {enc b}"
  | .pair h sv => s!"pair {enc h} {enc sv}"
  | .big w => w

/-- C11 / common: the outcome is a value or a std::exception -/
def specOutcome (inp : Input) (o : Obs) : Except String Unit :=
  match o.outcome with
  | "ok" :: _ => pure ()
  | ["throw", cls] =>
    if stdClasses.contains cls then pure ()
    else throw s!"{describe inp}: exception not derived from std::exception"
  | "accessorthrow" :: _ => throw s!"{describe inp}: accessors of the constructed Address throw"
  | "died" :: w => throw s!"{describe inp}: process died during construction ({" ".intercalate w})"
  | "crash" :: w => throw s!"{describe inp}: crash ({" ".intercalate w})"
  | "hang" :: w => throw s!"{describe inp}: hang ({" ".intercalate w})"
  | [] => throw s!"{describe inp}: no outcome reported"
  | w => throw s!"{describe inp}: unexpected outcome {" ".intercalate w}"

/-- C12 on the observations of one construction -/
def specFidelity (s : St) (inp : Input) (o : Obs) : Except String Unit := do
  let reads : Option (Bool × Nat) := match o.gai with
    | some (_, servEnc, _) => (hexDecode servEnc) >>= numericReads
    | none => none
  let numeric : Option Nat := match o.gai with
    | some (_, servEnc, _) => (hexDecode servEnc) >>= strtoulReads
    | none => none
  match reads, numeric with
  | some (neg, m), some v =>
    if m > 65535 ∨ (neg ∧ m ≠ 0) then
      throw s!"{describe inp}: numeric service {if neg then "-" else ""}{m} reached getaddrinfo (would be wrapped to port {v % 65536})"
  | _, _ => pure ()
  match o.outcome with
  | "ok" :: rest =>
    match (kv rest "host") >>= hexDecode, (kv rest "serv") >>= hexDecode, (kv rest "port") >>= String.toNat?,
          kv rest "v6", (kv rest "str") >>= hexDecode, kv rest "reparse" with
    | some host, some serv, some port, some v6, some str, some re =>
      let v6 := v6 == "1"
      match numeric with
      | some v => if port ≠ v then throw s!"{describe inp}: Port() is {port} but the numeric service was {v}"
      | none => pure ()
      if serv ≠ Decimal.render port then throw s!"{describe inp}: Service() is not the decimal text of Port() {port}"
      if str ≠ Addr.toString v6 host serv then throw s!"{describe inp}: to_string is not host:port / [host]:port"
      if re ≠ "eq" then throw s!"{describe inp}: to_string() does not parse back to an equal Address ({re})"
      match s.lit with
      | some (h, p, l6) =>
        if host ≠ h then throw s!"{describe inp}: Host() {hexEncode host} is not the canonical text {hexEncode h}"
        if port ≠ p then throw s!"{describe inp}: Port() is {port}, expected {p}"
        if v6 ≠ l6 then throw s!"{describe inp}: IsV6() is wrong"
      | none => pure ()
    | _, _, _, _, _, _ => throw s!"{describe inp}: unparsable ok observation"
  | _ =>
    match s.lit with
    | some _ => throw s!"{describe inp}: a documented spelling of a literal endpoint was rejected ({" ".intercalate o.outcome})"
    | none => pure ()

def AI_NUMERICSERV : Nat := 1024

/-- correspondence with the model -/
def corrCheck (inp : Input) (o : Obs) : Option String :=
  let expectGai (c : GaiCall) : Option String :=
    match o.gai with
    | none => some s!"{describe inp}: model reaches getaddrinfo({enc c.node}, {enc c.serv}), impl did not ({" ".intercalate o.outcome})"
    | some (n, sv, fl) =>
      if n ≠ enc c.node ∨ sv ≠ enc c.serv then
        some s!"{describe inp}: getaddrinfo arguments: impl ({n}, {sv}), model ({enc c.node}, {enc c.serv})"
      else if (fl / AI_NUMERICSERV % 2 == 1) ≠ c.numericServ then
        some s!"{describe inp}: AI_NUMERICSERV: impl flags {fl}, model {c.numericServ}"
      else match o.outcome with
        | "ok" :: _ => none
        | ["throw", "system_error"] => none
        | w => some s!"{describe inp}: after getaddrinfo the impl reports {" ".intercalate w}"
  let expectExn (e : Exn) : Option String :=
    if o.gai.isSome then some s!"{describe inp}: model throws {e.name}, impl reached getaddrinfo"
    else if o.outcome ≠ ["throw", e.name] then
      some s!"{describe inp}: model throws {e.name}, impl: {" ".intercalate o.outcome}"
    else none
  match inp with
  | .big _ => none
  | .uri b =>
    let r := match parseUri b with
      | .ok c => expectGai c
      | .error e => expectExn e
    match r with
    | some m => some m
    | none =>
      match o.legacy with
      | none => none
      | some leg =>
        match leg, dissectRaw b with
        | none, none => none
        | some (h, sv, num), some d =>
          if h = enc d.host ∧ sv = enc d.serv ∧ num = d.numeric then none
          else some s!"{describe inp}: pre-fix regex dissection ({h}, {sv}, {num}) differs from the model ({enc d.host}, {enc d.serv}, {d.numeric})"
        | none, some d => some s!"{describe inp}: pre-fix regex does not match, model dissects ({enc d.host}, {enc d.serv})"
        | some (h, sv, _), none => some s!"{describe inp}: pre-fix regex dissects ({h}, {sv}), model rejects"
  | .pair h sv =>
    match parseHostServ h sv with
    | .ok c => expectGai c
    | .error e => expectExn e

def inputTags (inp : Input) : List String :=
  let bytes := match inp with | .uri b => b | .pair h sv => h ++ sv | .big _ => []
  (match inp with | .uri _ => ["uri"] | .pair _ _ => ["pair"] | .big _ => ["big"]) ++
  (if bytes.contains 0 then ["nul"] else []) ++ (if bytes.any (· ≥ 0x80) then ["hi"] else []) ++
  (if bytes.any isLineBreak then ["linebreak"] else []) ++ (if bytes.length > 2000 then ["long"] else [])

def obsTags (o : Obs) : List String :=
  (match o.outcome with
   | "ok" :: _ => ["ok"]
   | ["throw", c] => [s!"throw.{c}"]
   | _ => []) ++
  (match o.gai with
   | some (_, _, fl) => if fl / AI_NUMERICSERV % 2 == 1 then ["gai.numericserv"] else ["gai"]
   | none => []) ++
  (match o.legacy with
   | some none => ["legacy.nomatch"]
   | some (some _) => ["legacy.match"]
   | none => [])

/-- read the observation lines that follow an op -/
def takeObs : List String → Obs → Except String (Obs × List String)
  | [], o => pure (o, [])
  | l :: rest, o =>
    match obs? l with
    | none => pure (o, l :: rest)
    | some ("gai" :: w) =>
      match kv w "node", kv w "serv", (kv w "flags") >>= String.toNat? with
      | some n, some sv, some fl => takeObs rest { o with gai := some (n, sv, fl) }
      | _, _, _ => throw s!"bad gai observation {l}"
    | some ["legacy", "nomatch"] => takeObs rest { o with legacy := some none }
    | some ["legacy", h, sv, num] => takeObs rest { o with legacy := some (some (h, sv, num == "1")) }
    | some ("litbegin" :: _) => pure (o, l :: rest)
    | some ("litend" :: _) => pure (o, l :: rest)
    | some w => takeObs rest { o with outcome := w }

def finish (s : St) (inp : Input) (o : Obs) (kind : String) : Except (String × String) St := do
  match specOutcome inp o with
  | .error m => throw ("spec", m)
  | .ok _ => pure ()
  if s.prop = 12 then
    match specFidelity s inp o with
    | .error m => throw ("spec", m)
    | .ok _ => pure ()
  let s := match corrCheck inp o with
    | some m => s.note m
    | none => s
  pure { s with tags := kind :: (inputTags inp ++ obsTags o ++ s.tags) }

partial def go (s : St) : List String → Verdict
  | [] =>
    match s.corr with
    | some m => Verdict.corr m s.tags
    | none => { tags := s.tags }
  | l :: rest =>
    let w := words l
    let fail (k m : String) : Verdict := { fail := some (k, m), tags := s.tags }
    let construct (inp : Input) (kind : String) : Verdict :=
      match takeObs rest {} with
      | .error m => fail "corr" m
      | .ok (o, rest') =>
        match finish s inp o kind with
        | .error (k, m) => fail k m
        | .ok s' => go s' rest'
    match w with
    | [] => go s rest
    | ["uri", h] =>
      match hexDecode h with
      | some b => construct (.uri b) "op.uri"
      | none => fail "corr" s!"bad line {l}"
    | ["pair", h, sv] =>
      match hexDecode h, hexDecode sv with
      | some h, some sv => construct (.pair h sv) "op.pair"
      | _, _ => fail "corr" s!"bad line {l}"
    | ["ladder", pre, unit, n, suf] =>
      match hexDecode pre, hexDecode unit, n.toNat?, hexDecode suf with
      | some pre, some unit, some n, some suf =>
        if pre.length + unit.length * n + suf.length ≤ 2000000 then
          construct (.uri (pre ++ repeatUnit unit n ++ suf)) "op.ladder"
        else construct (.big l) "op.ladder"
      | _, _, _, _ => fail "corr" s!"bad line {l}"
    | ["ladderpair", which, pre, unit, n, suf] =>
      match hexDecode pre, hexDecode unit, n.toNat?, hexDecode suf with
      | some pre, some unit, some n, some suf =>
        if pre.length + unit.length * n + suf.length ≤ 2000000 then
          let t := pre ++ repeatUnit unit n ++ suf
          construct (if which = "host" then .pair t [0x38, 0x30] else .pair (ofChars "localhost".toList) t) "op.ladder"
        else construct (.big l) "op.ladder"
      | _, _, _, _ => fail "corr" s!"bad line {l}"
    | "lit" :: _ => go { s with tags := "op.lit" :: s.tags } rest
    | "name" :: _ => go { s with tags := "op.name" :: s.tags } rest
    | "->" :: "litbegin" :: kvs =>
      match (kv kvs "host") >>= hexDecode, (kv kvs "port") >>= String.toNat?, kv kvs "v6" with
      | some h, some p, some v6 => go { s with lit := some (h, p, v6 == "1") } rest
      | _, _, _ => fail "corr" s!"bad line {l}"
    | "->" :: "litend" :: kvs =>
      if s.prop = 12 ∧ (kv kvs "allok" ≠ some "1" ∨ kv kvs "alleq" ≠ some "1") then
        fail "spec" (s!"spellings of one literal endpoint do not all yield equal Addresses ({" ".intercalate kvs})")
      else go { s with lit := none } rest
    | "->" :: "crash" :: x => fail "spec" ("crash: " ++ " ".intercalate x)
    | "->" :: "hang" :: x => fail "spec" ("hang: " ++ " ".intercalate x)
    | _ => fail "corr" s!"unknown line {l}"

def runCase11 (body : List String) : Verdict := go { prop := 11 } body
def runCase12 (body : List String) : Verdict := go { prop := 12 } body

end SockModel.Drive.UriOld

import SockModel.Model.UriLemmas
import SockModel.Legacy.UriRegex
import SockModel.Spec.Uri
/-!
# C11  Address construction is total: a value or an exception for every string

Property theorems only (helpers live in `Model/UriLemmas.lean`).  The model
(`Model/Uri.lean`) follows the repaired code: `UriDissect` by plain scans.  Every
function of the model is a composition of total list primitives (`takeWhile`, `drop`,
`take`, `reverse`, `foldl`) without fuel and without `partial`: that the definitions were
accepted by Lean *is* the termination proof for every input of every length, and each
primitive is a single pass.  What the theorems below add is the *classification* of the
outcome and the bounds of every slice.  That the C++ uses loops rather than recursion (stack
use independent of the length) is not a statement about the model; it is evidenced by the
small-stack length ladders of the check (testing, labelled as such).
-/
namespace SockModel.Uri
open SockModel.Decimal

/-- "Constructing an Address from any URI string ... either yields a usable Address or throws an
exception derived from std::exception": for EVERY byte string the dissection ends in a value or
in one of three named exception classes (`logic_error` = unexpected format, `out_of_range` from
`std::stoll`, `runtime_error` = port out of range).  `invalid_argument` from `std::stoll` ("no
conversion") is impossible: the guard is only reached with at least one digit. -/
theorem dissect_total_classified (s : Bytes) :
    (∃ d, dissect s = .ok d) ∨ dissect s = .error .logicError ∨
    dissect s = .error .outOfRange ∨ dissect s = .error .runtimeError := by
  unfold dissect
  cases hr : dissectRaw s with
  | none => exact Or.inr (Or.inl rfl)
  | some d =>
    simp only
    have hfacts := dissectRaw_some hr
    have classify : isServiceNumeric d.serv = true →
        ((∃ d', (checkRange d.serv).map (fun _ => d) = .ok d') ∨
          (checkRange d.serv).map (fun _ => d) = .error .logicError ∨
          (checkRange d.serv).map (fun _ => d) = .error .outOfRange ∨
          (checkRange d.serv).map (fun _ => d) = .error .runtimeError) := by
      intro hnum
      have hne := checkRange_ne_invalid hnum
      cases hc : checkRange d.serv with
      | ok u => exact Or.inl ⟨d, rfl⟩
      | error e =>
        cases e with
        | invalidArgument => exact absurd hc hne
        | logicError => exact Or.inr (Or.inl rfl)
        | outOfRange => exact Or.inr (Or.inr (Or.inl rfl))
        | runtimeError => exact Or.inr (Or.inr (Or.inr rfl))
    unfold guardRange
    by_cases hn : d.numeric = true
    · simp only [hn, if_true]
      exact classify (isServiceNumeric_of_digits (hfacts.2.2.2.1 hn).1)
    · simp only [hn, if_false, Bool.false_eq_true]
      by_cases hs : isServiceNumeric d.serv = true
      · simp only [hs, if_true]
        exact classify hs
      · simp only [hs, if_false, Bool.false_eq_true]
        exact Or.inl ⟨d, rfl⟩

/-- the same for the whole of `ParseUri` up to the `getaddrinfo` call; `invalid_argument` exactly
for the empty string -/
theorem parseUri_total_classified (s : Bytes) :
    (∃ c, parseUri s = .ok c) ∨ (s = [] ∧ parseUri s = .error .invalidArgument) ∨
    (s ≠ [] ∧ (parseUri s = .error .logicError ∨ parseUri s = .error .outOfRange ∨
      parseUri s = .error .runtimeError)) := by
  unfold parseUri
  cases s with
  | nil => exact Or.inr (Or.inl ⟨rfl, rfl⟩)
  | cons x xs =>
    simp only [List.isEmpty_cons, Bool.false_eq_true, if_false]
    rcases dissect_total_classified (x :: xs) with ⟨d, h⟩ | h | h | h
    · exact Or.inl ⟨d.toGai, by rw [h]; rfl⟩
    · exact Or.inr (Or.inr ⟨by simp, Or.inl (by rw [h]; rfl)⟩)
    · exact Or.inr (Or.inr ⟨by simp, Or.inr (Or.inl (by rw [h]; rfl))⟩)
    · exact Or.inr (Or.inr ⟨by simp, Or.inr (Or.inr (by rw [h]; rfl))⟩)

/-- "or from any host/service string pair": `ParseHostServ` reaches `getaddrinfo` or throws
`invalid_argument` (an empty argument), `out_of_range` or `runtime_error` -/
theorem parseHostServ_total_classified (host serv : Bytes) :
    (∃ c, parseHostServ host serv = .ok c) ∨
    ((host = [] ∨ serv = []) ∧ parseHostServ host serv = .error .invalidArgument) ∨
    (host ≠ [] ∧ serv ≠ [] ∧ (parseHostServ host serv = .error .outOfRange ∨
      parseHostServ host serv = .error .runtimeError)) := by
  unfold parseHostServ
  cases host with
  | nil => exact Or.inr (Or.inl ⟨Or.inl rfl, rfl⟩)
  | cons h hs =>
    cases serv with
    | nil => exact Or.inr (Or.inl ⟨Or.inr rfl, rfl⟩)
    | cons c cs =>
      simp only [List.isEmpty_cons, Bool.false_eq_true, if_false]
      by_cases hn : isServiceNumeric (c :: cs) = true
      · simp only [hn, if_true]
        have hne := checkRange_ne_invalid hn
        cases hc : checkRange (c :: cs) with
        | ok u => exact Or.inl ⟨_, rfl⟩
        | error e =>
          cases e with
          | invalidArgument => exact absurd hc hne
          | logicError =>
            -- `checkRange` has no `logic_error` outcome
            exfalso
            unfold checkRange checkRangeCore rangeOf at hc
            split at hc
            · cases hc
            · split at hc <;> split at hc <;> (try split at hc) <;> cases hc
          | outOfRange => exact Or.inr (Or.inr ⟨by simp, by simp, Or.inl rfl⟩)
          | runtimeError => exact Or.inr (Or.inr ⟨by simp, by simp, Or.inr rfl⟩)
      · simp only [hn, if_false, Bool.false_eq_true]
        exact Or.inl ⟨_, rfl⟩

/-- "it never ... reads outside its input": every slice the dissection takes is a contiguous
part of the input (`<:+:` unfolds to `∃ pre post, pre ++ slice ++ post = s`), and a numeric port
sits right behind a colon that follows the part the host was cut from -/
theorem slices_in_bounds (s : Bytes) (d : Dissect) (h : dissect s = .ok d) :
    (∃ pre post, pre ++ d.host ++ post = s) ∧ (∃ pre post, pre ++ d.serv ++ post = s) ∧
    (d.numeric = true → ∃ pre mid post, s = pre ++ mid ++ 0x3a :: d.serv ++ post ∧ d.host <:+: mid) := by
  have hf := dissectRaw_some (dissect_ok_raw h)
  exact ⟨hf.1, hf.2.1, fun hn => (hf.2.2.2.1 hn).2⟩

/-- shape of the result: the host never contains a '/', a numeric port is a non-empty digit
string, a scheme consists of word characters -/
theorem dissect_shape (s : Bytes) (d : Dissect) (h : dissect s = .ok d) :
    (0x2f : UInt8) ∉ d.host ∧ (d.numeric = true → isDigits d.serv = true) ∧
    (d.numeric = false → ∀ c ∈ d.serv, isWord c = true) := by
  have hf := dissectRaw_some (dissect_ok_raw h)
  exact ⟨hf.2.2.1, fun hn => (hf.2.2.2.1 hn).1, hf.2.2.2.2⟩

/-- what is handed to `getaddrinfo` are valid C strings cut out of the input: no NUL inside, and
each is a contiguous part of the input -/
theorem gai_args_in_bounds (s : Bytes) (c : GaiCall) (h : parseUri s = .ok c) :
    c.node <:+: s ∧ c.serv <:+: s ∧ (0 : UInt8) ∉ c.node ∧ (0 : UInt8) ∉ c.serv := by
  unfold parseUri at h
  split at h
  · cases h
  · cases hd : dissect s with
    | error e => rw [hd] at h; cases h
    | ok d =>
      rw [hd] at h
      have hc : c = d.toGai := by cases h; rfl
      subst hc
      have hb := slices_in_bounds s d hd
      have nonul : ∀ (x : Bytes), (0 : UInt8) ∉ cstr x := by
        intro x hm
        have := (mem_takeWhile hm).1
        simp at this
      refine ⟨?_, ?_, nonul _, nonul _⟩
      · exact List.IsInfix.trans (List.takeWhile_prefix _).isInfix hb.1
      · exact List.IsInfix.trans (List.takeWhile_prefix _).isInfix hb.2.1

/-- the length ladders of finding F4 for EVERY length: any non-empty text without ':' and '/'
(`'a'^n`, digit runs, `'['^n`, arbitrary bytes incl. NUL and non-ASCII) is taken as a host name
with an empty service - an `ok` outcome of the dissection whatever the length -/
theorem plain_host_any_length (h : Bytes) (hne : h ≠ []) (hc : (0x3a : UInt8) ∉ h) (hs : (0x2f : UInt8) ∉ h) :
    parseUri h = .ok ⟨cstr h, [], false⟩ := by
  have hemp : h.isEmpty = false := by cases h <;> simp at hne ⊢
  have htp : trimPath h = some h := by
    have := trimPath_eval (a := h) (tail := []) hs hne (Or.inl rfl)
    simpa using this
  have hraw : dissectRaw h = some ⟨h, [], false⟩ := by
    unfold dissectRaw
    rw [trimServAndPath_nocolon hc, htp]
    simp only [Option.map_some]
    unfold splitPort
    rw [splitLast_none hc]
  unfold parseUri dissect
  simp only [hemp, Bool.false_eq_true, if_false, hraw]
  have hnn : isServiceNumeric [] = false := by decide
  simp [guardRange, hnn, Except.map, Dissect.toGai, cstr]

/-- a text that starts with '/' (in particular `'/'^n` for every n ≥ 1) has no host part:
`logic_error`, for every continuation -/
theorem leading_slash_rejected (rest : Bytes) : parseUri (0x2f :: rest) = .error .logicError := by
  have hraw : dissectRaw (0x2f :: rest) = none := by
    unfold dissectRaw
    rw [trimServAndPath_nonword (by decide) (by decide)]
    simp [trimPath]
  simp [parseUri, dissect, hraw, Except.map]

/-- the repair F4 changes no outcome: for EVERY input the plain-scan dissection returns exactly
what the declarative reading of the three original regular expressions (`Legacy/UriRegex.lean`:
`reServ`, `rePortBracket`, `rePort` with ECMAScript priorities) selects -/
theorem dissect_refines_regex (s : Bytes) (d : Dissect) : dissectRaw s = some d ↔ Regex.RegexDissects s d := by
  constructor
  · intro e
    unfold dissectRaw at e
    cases ht : trimServAndPath s with
    | none => simp [ht] at e
    | some rs =>
      obtain ⟨u, serv⟩ := rs
      simp only [ht] at e
      refine ⟨serv, u, Regex.trimServAndPath_iff.mp ht, ?_⟩
      cases hsp : splitPort u with
      | none =>
        simp only [hsp, Option.some.injEq] at e
        subst e
        exact Or.inr ⟨rfl, Regex.splitPort_none_iff.mp hsp, rfl, rfl⟩
      | some hp =>
        obtain ⟨h, p⟩ := hp
        simp only [hsp, Option.some.injEq] at e
        subst e
        exact Or.inl ⟨rfl, Regex.splitPort_iff.mp hsp⟩
  · intro ⟨serv, u, hre, hport⟩
    have ht := Regex.trimServAndPath_iff.mpr hre
    obtain ⟨dh, ds, dn⟩ := d
    rcases hport with ⟨hn, hrp⟩ | ⟨hn, hno, hh, hs⟩
    · simp only at hn hrp
      subst hn
      simp [dissectRaw, ht, Regex.splitPort_iff.mpr hrp]
    · simp only at hn hh hs
      subst hn; subst hh; subst hs
      simp [dissectRaw, ht, Regex.splitPort_none_iff.mpr hno]

/-- ... and it rejects (`logic_error`) exactly the inputs on which `reServ` does not match -/
theorem dissect_rejects_iff_regex_nonmatch (s : Bytes) :
    dissect s = .error .logicError ↔ ¬ ∃ serv u, Regex.ReServ s serv u := by
  rw [← Regex.trimServAndPath_none_iff]
  constructor
  · intro h
    cases ht : trimServAndPath s with
    | none => rfl
    | some rs =>
      exfalso
      obtain ⟨u, serv⟩ := rs
      have hraw : ∃ d, dissectRaw s = some d := by
        unfold dissectRaw
        simp only [ht]
        cases splitPort u with
        | none => exact ⟨_, rfl⟩
        | some hp => exact ⟨_, rfl⟩
      obtain ⟨d, hd⟩ := hraw
      rcases dissect_total_classified s with ⟨d', h'⟩ | h' | h' | h'
      · rw [h] at h'; cases h'
      · -- logic_error: but with a successful split the error can only come from the range guard
        unfold dissect at h
        simp only [hd] at h
        unfold guardRange at h
        have nolog : ∀ (r : Except Exn Unit), r ≠ .error .logicError → r.map (fun _ => d) ≠ .error .logicError := by
          intro r hr hm
          cases r with
          | ok u => cases hm
          | error e => cases e <;> simp [Except.map] at hm hr
        have hcr : checkRange d.serv ≠ .error .logicError := by
          unfold checkRange checkRangeCore rangeOf
          split
          · simp
          · split <;> split <;> (try split) <;> simp
        split at h
        · exact nolog _ hcr h
        · split at h
          · exact nolog _ hcr h
          · cases h
      · rw [h] at h'; cases h'
      · rw [h] at h'; cases h'
  · intro ht
    simp [dissect, dissectRaw, ht]

namespace C11
/-- the predicate `./check C11` evaluates on the implementation's observations (`Spec/Uri.lean`: `specStep`
in mode `.totality` - "a value or an exception derived from std::exception; no crash, signal, hang, foreign
exception, throwing accessor") accepts every trace of the model: `parseUri` / `parseHostServ` followed by an
ARBITRARY name service (`getaddrinfo` may answer anything, `getnameinfo` may print anything), for every
history of `uri` / `pair` constructions and literal / service-name groups of any length over arbitrary byte
strings.  No hypothesis.  So a `spec` verdict of `./check C11` is a difference between implementation and
model, and the oracle is never stricter than the model. -/
theorem spec_holds_on_model {α : Type} [DecidableEq α] (ns : NameService α) (history : List (Op α)) :
    ∃ s, C11.specRun {} (modelTrace ns history) = .ok s :=
  C11.model_satisfies_spec ns history
end C11

/-! ### non-vacuity / examples (each class of outcome is inhabited) -/

example : parseUri (ofChars "http://[::1]:8080/a/b?c".toList) =
    .ok ⟨ofChars "::1".toList, ofChars "8080".toList, true⟩ := by decide
example : Regex.RegexDissects (ofChars "http://[::1]:8080/a/b?c".toList) ⟨ofChars "::1".toList, ofChars "8080".toList, true⟩ :=
  (dissect_refines_regex _ _).mp (by decide)
example : ¬ ∃ serv u, Regex.ReServ (ofChars "host/pa\nth".toList) serv u :=
  (dissect_rejects_iff_regex_nonmatch _).mp (by decide)
example : parseUri [] = .error .invalidArgument := by decide
example : parseUri (ofChars "host/pa\nth".toList) = .error .logicError := by decide
example : parseUri (ofChars "h:99999".toList) = .error .runtimeError := by decide
example : parseUri (ofChars "h:99999999999999999999".toList) = .error .outOfRange := by decide
example : parseUri (ofChars "99999://h".toList) = .error .runtimeError := by decide
example : parseHostServ [0x68] (ofChars " -9223372036854775809".toList) = .error .outOfRange := by decide
example : parseHostServ [0x68] (ofChars "-9223372036854775808".toList) = .error .runtimeError := by decide
example : parseUri ([0x61, 0x00, 0x62, 0x3a, 0x38, 0x30]) = .ok ⟨[0x61], [0x38, 0x30], true⟩ := by decide
example : parseHostServ [0x68] [0x38, 0x30, 0x00, 0x78] = .ok ⟨[0x68], [0x38, 0x30], false⟩ := by decide

end SockModel.Uri

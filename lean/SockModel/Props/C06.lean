import SockModel.Model.ToDosLemmas
import SockModel.Spec.C06
import SockModel.Generated.Funcs
import SockModel.Model.GenTodoWorld
import SockModel.Generated.Loops
import SockModel.Basic.TieTactic
/-!
# C06  ToDo scheduling: never early, in due order, exactly once, cancellable, shiftable

Property theorems only.  `run clamp fuel {} ops` is the state after *any* history
`ops` of construct(when | delay | unscheduled) / Shift / Cancel / drop-handle /
clock-advance / Step(timeout) operations, where every task body is itself any
list of such management calls (including on the task's own ToDo) and clock
advances.  `fuel` bounds the iterations of one `StepTodos` loop (the code loops
forever if tasks keep rescheduling due tasks under an unlimited timeout); every
statement holds for every `fuel`.  Calls from other threads are serialised by
`stepMtx` (C04), so a concurrent history is one of these histories.
-/
namespace SockModel.ToDos
open SockModel.Deadline

/-- the deque stays sorted by due time and holds at most one entry per ToDo -/
theorem todos_sorted_unique (clamp : Bool) (fuel : Nat) (ops : List Op) :
    Sorted (run clamp fuel {} ops).todos ∧ (ids (run clamp fuel {} ops).todos).Nodup :=
  ⟨(inv_run clamp fuel inv_init ops).sorted, (inv_run clamp fuel inv_init ops).nodup⟩

/-- "never before its due time": every invocation happened at a clock reading `now ≥ when` -/
theorem never_early (clamp : Bool) (fuel : Nat) (ops : List Op) (id : Nat) (w now : Int) (rest : List Entry) (seq : Nat)
    (h : Event.ran id w now rest seq ∈ (run clamp fuel {} ops).log) : w ≤ now :=
  ((inv_run clamp fuel inv_init ops).logOk _ h).1

/-- "tasks run in order of due time": the task invoked was due no later than every other pending one -/
theorem due_order (clamp : Bool) (fuel : Nat) (ops : List Op) (id : Nat) (w now : Int) (rest : List Entry) (seq : Nat)
    (h : Event.ran id w now rest seq ∈ (run clamp fuel {} ops).log) : ∀ e ∈ rest, w ≤ e.when :=
  ((inv_run clamp fuel inv_init ops).logOk _ h).2.1

/-- "equal due times in scheduling order": `seq` numbers the schedulings (construction with a due time,
Shift) in the order in which they took effect; the task invoked was scheduled before every other pending
task with the same due time.  Together with `due_order`: each invocation picks the minimum of the
pending set by (due time, scheduling order) - the reference scheduler the check evaluates on the
implementation's trace. -/
theorem ties_by_scheduling_order (clamp : Bool) (fuel : Nat) (ops : List Op) (id : Nat) (w now : Int)
    (rest : List Entry) (seq : Nat) (h : Event.ran id w now rest seq ∈ (run clamp fuel {} ops).log) :
    ∀ e ∈ rest, e.when = w → seq < e.seq :=
  ((inv_run clamp fuel inv_init ops).logOk _ h).2.2.2

/-- "equal due times in scheduling order": a newly scheduled entry goes behind all
pending entries with the same due time (and the front of the list is what runs next) -/
theorem ties_in_scheduling_order (clamp : Bool) (fuel : Nat) (ops : List Op) (e : Entry) :
    let l := (run clamp fuel {} ops).todos
    (insert l e).filter (fun x => x.when = e.when) = l.filter (fun x => x.when = e.when) ++ [e] :=
  insert_stable _ e (inv_run clamp fuel inv_init ops).sorted

/-- "exactly once per scheduling" (at most once): the invocation removed the ToDo's only entry,
so without a new Shift it cannot be invoked again -/
theorem run_pops_only_entry (clamp : Bool) (fuel : Nat) (ops : List Op) (id : Nat) (w now : Int) (rest : List Entry)
    (seq : Nat) (h : Event.ran id w now rest seq ∈ (run clamp fuel {} ops).log) : id ∉ ids rest :=
  ((inv_run clamp fuel inv_init ops).logOk _ h).2.2.1

/-- "Cancel before the start prevents the run": after Cancel the ToDo has no entry -/
theorem cancel_prevents (clamp : Bool) (fuel : Nat) (ops : List Op) (id : Nat) :
    let s := run clamp fuel {} ops
    id ∈ s.live → id ∉ ids (applyOp s (.cancel id)).todos := by
  intro s hl
  have h := inv_run clamp fuel inv_init ops
  simp only [applyOp, if_pos hl]
  exact not_mem_ids_remove id h.nodup

/-- Cancel of an idle or already executed ToDo changes nothing -/
theorem finished_cancel_noop (s : St) (id : Nat) (h : id ∉ ids s.todos) :
    (applyOp s (.cancel id)).todos = s.todos := by
  have : ∀ l : List Entry, id ∉ ids l → remove l id = l := by
    intro l
    induction l with
    | nil => intro _; rfl
    | cons y ys ih =>
      intro hn
      simp only [ids, List.map_cons, List.mem_cons, not_or] at hn
      unfold remove
      rw [if_neg (fun h' => hn.1 h'.symm)]
      rw [ih hn.2]
  simp only [applyOp]
  split
  · exact this _ h
  · rfl

/-- "Shift replaces a pending run by a single run at the new time, or schedules an idle or
already executed ToDo (again)": afterwards the ToDo has exactly one entry, at the new time -/
theorem shift_replaces (clamp : Bool) (fuel : Nat) (ops : List Op) (id : Nat) (w : Int) :
    let s := run clamp fuel {} ops
    id ∈ s.live →
      (applyOp s (.shift id w)).todos.filter (fun e => e.id = id) = [⟨id, w, s.nextSeq⟩] := by
  intro s hl
  have h := inv_run clamp fuel inv_init ops
  simp only [applyOp, if_pos hl, move]
  have hno : id ∉ ids (remove s.todos id) := not_mem_ids_remove id h.nodup
  obtain ⟨pre, post, h1, h2, _, _⟩ := insert_split (remove s.todos id) ⟨id, w, s.nextSeq⟩
  rw [h1]
  rw [h2] at hno
  simp only [ids, List.map_append, List.mem_append, not_or, List.mem_map, not_exists, not_and] at hno
  have hpre : pre.filter (fun e => e.id = id) = [] := by
    apply List.filter_eq_nil_iff.mpr
    intro e he; simpa using hno.1 e he
  have hpost : post.filter (fun e => e.id = id) = [] := by
    apply List.filter_eq_nil_iff.mpr
    intro e he; simpa using hno.2 e he
  rw [List.filter_append, hpre, List.filter_cons_of_pos (by simp), hpost]
  rfl

/-- "a ToDo object need not be kept alive for its task to run": destroying the handle leaves
the pending entry in place -/
theorem handle_free (s : St) (id : Nat) : (applyOp s (.drop id)).todos = s.todos := rfl

/-! promptness -/

theorem log_applyOp (s : St) (op : BodyOp) : (applyOp s op).log = s.log := by
  cases op <;> simp only [applyOp] <;> (try split) <;> rfl

theorem log_foldl_applyOp (s : St) (ops : List BodyOp) : (ops.foldl applyOp s).log = s.log := by
  induction ops generalizing s with
  | nil => rfl
  | cons op ops ih => simp only [List.foldl_cons]; rw [ih, log_applyOp]

theorem log_stepTodos_suffix (fuel : Nat) (d : Deadline) (s : St) :
    ∃ pre, (stepTodos fuel d s).2.log = pre ++ s.log := by
  induction fuel generalizing d s with
  | zero => exact ⟨[.fuel], rfl⟩
  | succ fuel ih =>
    unfold stepTodos
    split
    · exact ⟨[], rfl⟩
    · rename_i front rest _
      split
      · exact ⟨[], rfl⟩
      · simp only
        split
        · exact ⟨[_], by rw [log_foldl_applyOp]; rfl⟩
        · split
          · obtain ⟨pre, hpre⟩ := ih (d.tick _) ((s.body front.id).foldl applyOp
              { s with todos := rest, log := .ran front.id front.when d.now rest front.seq :: s.log })
            refine ⟨pre ++ [.ran front.id front.when d.now rest front.seq], ?_⟩
            rw [hpre, log_foldl_applyOp]; simp
          · exact ⟨[_], by rw [log_foldl_applyOp]; rfl⟩

theorem log_pollSockets (clamp : Bool) (t : Int) (s : St) :
    ∃ ms, (pollSockets clamp t s).log = Event.poll ms :: s.log := by
  unfold pollSockets
  generalize (if clamp = true then toMsec t else toMsecLegacy t) = ms
  refine ⟨ms, ?_⟩
  simp only
  split
  · rfl
  · split <;> rfl

theorem stepTodos_runs_front (fuel : Nat) (d : Deadline) (s : St) (front : Entry) (rest : List Entry)
    (ht : s.todos = front :: rest) (hdue : front.when ≤ d.now) :
    Event.ran front.id front.when d.now rest front.seq ∈ (stepTodos (fuel + 1) d s).2.log := by
  unfold stepTodos
  rw [ht]
  have hn : ¬ (front.when - d.now > 0) := by omega
  simp only [hn, ↓reduceIte]
  split
  · rw [log_foldl_applyOp]; simp
  · split
    · obtain ⟨pre, hpre⟩ := log_stepTodos_suffix fuel (d.tick ((s.body front.id).foldl applyOp
          { s with todos := rest, log := .ran front.id front.when d.now rest front.seq :: s.log }).now)
        ((s.body front.id).foldl applyOp
          { s with todos := rest, log := .ran front.id front.when d.now rest front.seq :: s.log })
      rw [hpre, log_foldl_applyOp]; simp
    · rw [log_foldl_applyOp]; simp

/-- "promptly after it (at the next step; a due time in the past means as soon as possible)":
a `Step` - with any timeout - that starts at or after the due time of the earliest pending ToDo
invokes that task. -/
theorem prompt (clamp : Bool) (fuel : Nat) (t : Int) (s : St) (front : Entry) (rest : List Entry)
    (ht : s.todos = front :: rest) (hdue : front.when ≤ s.now) :
    Event.ran front.id front.when s.now rest front.seq ∈ (step clamp (fuel + 1) t s).log := by
  have hmake : (Deadline.make t s.now).now = s.now := by
    unfold Deadline.make; split
    · rfl
    · split <;> rfl
  have hst := stepTodos_runs_front fuel (Deadline.make t s.now) s front rest ht (by rw [hmake]; exact hdue)
  rw [hmake] at hst
  unfold step
  rw [ht]
  simp only [List.isEmpty_cons, Bool.false_eq_true, if_false]
  obtain ⟨ms, hms⟩ := log_pollSockets clamp (stepTodos (fuel + 1) (Deadline.make t s.now) s).1
    (stepTodos (fuel + 1) (Deadline.make t s.now) s).2
  rw [hms]
  exact List.mem_cons_of_mem _ hst

/-- **the whole property, as the check evaluates it on the implementation, holds on the model**: the
reference scheduler of `Spec/C06.lean` - a bag of (task, due time, scheduling order) maintained from
the operations alone, which rejects an invocation of a task that is not scheduled (twice, after
Cancel, after the ToDo object is gone), an invocation before the due time, and an invocation that
overtakes a task due earlier or equally due but scheduled earlier - accepts every invocation the
model makes, in every history of any length with arbitrary task bodies (re-scheduling, cancelling,
creating and dropping ToDos from inside tasks) and arbitrary clocks.  `./check C06` runs the very
same functions (`RefSched.SpSt.ran`, `.user`) on the transcript of the real library. -/
theorem spec_holds_on_model (clamp : Bool) (fuel : Nat) (ops : List Op) :
    ∃ sp, RefSched.replay clamp fuel {} {} ops = .ok sp :=
  RefSched.model_accepted clamp fuel ops

/-! ### non-vacuity -/

example :
    (run true 10 {} [.new 1 1000 [], .new 2 1000 [.shift 2 5000], .clock 1000, .step 0, .step 0]).todos
      = [⟨2, 5000, 2⟩] := by decide

example : (RefSched.replay true 10 {} {}
    [.new 1 1000 [], .new 2 1000 [.shift 2 5000], .clock 1000, .step 0, .step 0]).toOption.map (·.pend)
      = some [⟨2, 5000, 2⟩] := by decide

/-- the reference scheduler is not trivially accepting: a tie invoked in the wrong order is rejected -/
example : (((({} : RefSched.SpSt).user (.new 1 1000 [])).user (.new 2 1000 [])).ran 2 1000).toOption.isNone := by decide

end SockModel.ToDos

/-! ## Source-derived tie (DESIGN.md §0.7)

`SockModel.Gen.*` (Generated/Funcs.lean) is regenerated on every run by tools/cxx2lean.py from the clang AST of
the CURRENT /repo/src: WhenBefore::operator() (todo_impl.cpp) and the due test of StepTodos (driver_impl.cpp).
Each theorem below states that the generated function and the hand-written model function agree for ALL
arguments; a change of the C++ function changes the generated definition and the theorem stops checking. -/
namespace SockModel.Props.C06
open SockModel SockModel.Deadline SockModel.ToDos

/-- the list of `when` values the generated search runs over -/
def whens (l : List Entry) : List Int := l.map (·.when)

/-- forward search (`std::find_if`) with a predicate that is `when < x`: the model's `insert`, on any list -/
theorem insert_findIf (p : Int → Bool) (l : List Entry) (e : Entry) (hp : ∀ x, p x = decide (e.when < x)) :
    ToDos.insert l e = l.take (Gen.findIfIdx p (whens l)) ++ e :: l.drop (Gen.findIfIdx p (whens l)) := by
  induction l with
  | nil => rfl
  | cons x xs ih =>
    simp only [whens, List.map_cons, Gen.findIfIdx, ToDos.insert, hp] at ih ⊢
    by_cases h : e.when < x.when
    · simp [h]
    · simp only [h, decide_false, if_false, Bool.false_eq_true, List.take_succ_cons, List.drop_succ_cons, List.cons_append]
      rw [ih]

/-- `k` is a position at which `e` may go: nothing in front of it is later than `e`, everything from it on is -/
def IsPos (l : List Entry) (w : Int) (k : Nat) : Prop :=
  k ≤ l.length ∧ (∀ i, i < k → ¬ w < (whens l).getD i 0) ∧ (∀ i, k ≤ i → i < l.length → w < (whens l).getD i 0)

theorem insert_isPos (l : List Entry) (e : Entry) : ∀ k, IsPos l e.when k → ToDos.insert l e = l.take k ++ e :: l.drop k := by
  induction l with
  | nil =>
    intro k ⟨h1, _, _⟩
    have : k = 0 := by simpa using h1
    subst this; rfl
  | cons x xs ih =>
    intro k ⟨h1, h2, h3⟩
    cases k with
    | zero =>
      have := h3 0 (Nat.le_refl _) (by simp)
      simp only [whens, List.map_cons, List.getD_cons_zero] at this
      simp [ToDos.insert, this]
    | succ k =>
      have hx := h2 0 (Nat.succ_pos _)
      simp only [whens, List.map_cons, List.getD_cons_zero] at hx
      have hk : IsPos xs e.when k := by
        refine ⟨by simpa using h1, fun i hi => ?_, fun i hi hl => ?_⟩
        · have := h2 (i + 1) (by omega)
          simpa [whens] using this
        · have := h3 (i + 1) (by omega) (by simp; omega)
          simpa [whens] using this
      simp only [ToDos.insert, hx, if_false, List.take_succ_cons, List.drop_succ_cons, List.cons_append]
      rw [ih k hk]

theorem sorted_getD {l : List Entry} (hs : Sorted l) (i j : Nat) (hij : i ≤ j) (hj : j < l.length) :
    (whens l).getD i 0 ≤ (whens l).getD j 0 := by
  induction l generalizing i j with
  | nil => simp at hj
  | cons x xs ih =>
    have hs' := List.pairwise_cons.mp hs
    cases j with
    | zero =>
      have : i = 0 := by omega
      subst this; exact Int.le_refl _
    | succ j =>
      cases i with
      | zero =>
        simp only [whens, List.map_cons, List.getD_cons_zero, List.getD_cons_succ]
        have hj' : j < xs.length := by simpa using hj
        have hm : xs[j] ∈ xs := List.getElem_mem hj'
        have := hs'.1 _ hm
        simpa [List.getD_eq_getElem?_getD, hj'] using this
      | succ i =>
        have := ih hs'.2 i j (by omega) (by simpa using hj)
        simpa [whens] using this

/-- backward search from position `n`, on a sorted list whose elements from `n` on are all later than `e` -/
theorem backScan_isPos (p : Int → Bool) (l : List Entry) (w : Int) (hp : ∀ x, p x = decide (w < x)) (hs : Sorted l) :
    ∀ n, n ≤ l.length → (∀ i, n ≤ i → i < l.length → w < (whens l).getD i 0) →
      IsPos l w (Gen.backScanIdx p (whens l) n) := by
  intro n
  induction n with
  | zero =>
    intro _ h
    exact ⟨Nat.zero_le _, fun i hi => absurd hi (Nat.not_lt_zero _), fun i _ hl => h i (Nat.zero_le _) hl⟩
  | succ n ih =>
    intro hn h
    simp only [Gen.backScanIdx, hp]
    by_cases hc : w < (whens l).getD n 0
    · simp only [hc, decide_true, if_true]
      refine ih (by omega) (fun i hi hl => ?_)
      by_cases hin : i = n
      · subst hin; exact hc
      · exact h i (by omega) hl
    · simp only [hc, decide_false, if_false, Bool.false_eq_true]
      refine ⟨hn, fun i hi => ?_, h⟩
      have := sorted_getD hs i n (by omega) (by omega)
      omega

/-- `ToDos::Insert`: the new element goes where the CURRENT source's search (`Gen.Todos_Insert_pos`: forward `find_if`, or a
backward scan from `end()`) stops.  The list is sorted whenever `Insert` runs (`sorted_nodup`); the forward search does not
need that, the backward one does.  The proof does not depend on how the source spells the comparison. -/
theorem tie_insert_whenBefore (l : List Entry) (e : Entry) (hs : Sorted l) :
    ToDos.insert l e =
      l.take (Gen.Todos_Insert_pos (whens l) e.when) ++ e :: l.drop (Gen.Todos_Insert_pos (whens l) e.when) := by
  have hp : ∀ w x : Int, (decide (w < x)) = decide (w < x) := fun _ _ => rfl
  unfold Gen.Todos_Insert_pos
  first
    | exact insert_findIf _ l e (fun x => by tie_bool_arith)
    | (refine insert_isPos l e _ ?_
       have hl : (whens l).length = l.length := by simp [whens]
       rw [hl]
       exact backScan_isPos _ l e.when (fun x => by tie_bool_arith) hs l.length (Nat.le_refl _)
         (fun i hi hl => absurd hl (by omega)))

theorem tie_stepTodos_due (fuel : Nat) (d : Deadline) (s : St) (front : Entry) (rest : List Entry)
    (h : s.todos = front :: rest) :
    stepTodos (fuel + 1) d s =
      if Gen.StepTodos_notDue front.when d.now then
        (Gen.MinDuration (front.when - d.now) d.remaining, s)
      else
        let s1 := { s with todos := rest, log := .ran front.id front.when d.now rest front.seq :: s.log }
        let s2 := (s.body front.id).foldl applyOp s1
        let d' := d.tick s2.now
        if s2.todos.isEmpty then (d'.remaining, s2)
        else if d'.timeLeft then stepTodos fuel d' s2
        else (0, s2) := by
  have hm : ∀ l r : Int, Gen.MinDuration l r = minDuration l r := by
    intro l r
    simp only [Gen.MinDuration, minDuration, toMs, nsPerMs]
    repeat' split
    all_goals omega
  simp only [stepTodos, h, Gen.StepTodos_notDue, hm]
  by_cases hd : front.when - d.now > 0 <;> simp
end SockModel.Props.C06

/-! ## Source-derived tie, stage 3 (DESIGN.md §0.7.2): `Driver::DriverImpl::StepTodos<Deadline>` as a loop

`SockModel.Gen.StepTodos_Unlimited / _Zero / _Limited` (Generated/Loops.lean) are regenerated on every run from the
three instantiations of `StepTodos` in the clang AST of src/driver_impl.cpp, over the abstract deque / task interface
`Gen.TodoWorld` (`front()->when`, `pop_front` after the move, `task->what()`, `empty()`, the clock).  They are run on
the model's own state (`GenWorld.todoWorld`: the list of `ToDos.St`, task bodies applied by `applyOp`) and tied to
`ToDos.stepTodos` for EVERY list, every task bodies, every clock value and every fuel (`stepTodosO`: the model with
the fuel made visible; `stepTodosO_sound` gives `stepTodos` back). -/
namespace SockModel.Props.C06
open SockModel SockModel.Deadline SockModel.ToDos SockModel.GenWorld

theorem gen_minDuration (l r : Int) : Gen.MinDuration l r = minDuration l r := by
  simp only [Gen.MinDuration, minDuration, toMs, nsPerMs]
  tie_arith

theorem gen_remaining_l (now dl : Int) : Gen.DeadlineLimited_Remaining now dl = (Deadline.limited now dl).remaining := by
  simp only [Gen.DeadlineLimited_Remaining, Deadline.remaining, toMs, nsPerMs]
  tie_arith

theorem gen_timeLeft_l (now dl : Int) : Gen.DeadlineLimited_TimeLeft now dl = (Deadline.limited now dl).timeLeft := by
  simp only [Gen.DeadlineLimited_TimeLeft, Deadline.timeLeft]
  tie_bool_arith

theorem body_upd (s : St) (t : List Entry) (l : List Event) (id : Nat) :
    St.body { s with todos := t, log := l } id = s.body id := rfl

/-- what the generated `StepTodos` must return for what the model returns -/
def TodoRel (g : Gen.Res Int × TSt) (m : Option (Int × St)) : Prop :=
  match m with
  | none => g.1 = .halted
  | some (r, s') => g.1 = .ok r ∧ g.2.st = s'

/-- one iteration of `StepTodos` on the model's state: unfolds the generated loop where it is applied to a
successor and the model, runs the deque / task operations, splits every `if` of either side (simplifying again after
each split) and closes every path (the recursive one by the induction hypothesis) -/
macro "tie_todos_simp" loopdef:ident hs:ident : tactic => `(tactic| (
  simp only [$loopdef:ident, stepTodosO, $hs:ident, Gen.M.bind, Gen.M.pure, Gen.Clocked_Tick, t_clockNow_eq, t_frontWhen_eq,
    t_popFront_eq, t_runTask_eq, t_todosEmpty_eq, gen_minDuration, gen_remaining_l, gen_timeLeft_l,
    Gen.Unlimited_Remaining, Gen.Unlimited_TimeLeft, Gen.ZeroLimited_Remaining, Gen.ZeroLimited_TimeLeft,
    Deadline.now, Deadline.tick, body_upd]))

macro "tie_todos_step" loopdef:ident ih:ident hs:ident : tactic => `(tactic| (
  tie_todos_simp $loopdef $hs
  repeat' (split <;> (try tie_todos_simp $loopdef $hs))
  all_goals (try simp only [*, if_true, if_false, not_true_eq_false, not_false_eq_true, Bool.false_eq_true])
  all_goals first
    | (simp [TodoRel, Deadline.remaining, Deadline.timeLeft, Gen.M.pure]; done)
    | (simp_all [TodoRel, Deadline.remaining, Deadline.timeLeft, Gen.M.pure]; done)
    | (exfalso; simp_all; done)
    | (refine $ih:ident _ _ ?_; simp_all; done)))

theorem stepTodos_limited_loop (fuel : Nat) (d0 dl : Int) : ∀ (n : Nat) (s : St) (c : Option Entry), s.todos ≠ [] →
    TodoRel (Gen.StepTodos_Limited_loop1 todoWorld fuel d0 dl n s.now ⟨s, c⟩) (stepTodosO n (.limited s.now dl) s) := by
  intro n
  induction n with
  | zero => intro s c _; simp [Gen.StepTodos_Limited_loop1, stepTodosO, TodoRel, Gen.M.halt]
  | succ n ih =>
    intro s c hne
    cases hs : s.todos with
    | nil => exact absurd hs hne
    | cons front rest =>
      tie_todos_step Gen.StepTodos_Limited_loop1 ih hs

theorem stepTodos_unlimited_loop (fuel : Nat) (d0 : Int) : ∀ (n : Nat) (s : St) (c : Option Entry), s.todos ≠ [] →
    TodoRel (Gen.StepTodos_Unlimited_loop1 todoWorld fuel d0 n s.now ⟨s, c⟩) (stepTodosO n (.unlimited s.now) s) := by
  intro n
  induction n with
  | zero => intro s c _; simp [Gen.StepTodos_Unlimited_loop1, stepTodosO, TodoRel, Gen.M.halt]
  | succ n ih =>
    intro s c hne
    cases hs : s.todos with
    | nil => exact absurd hs hne
    | cons front rest =>
      tie_todos_step Gen.StepTodos_Unlimited_loop1 ih hs

theorem stepTodos_zero_loop (fuel : Nat) (d0 : Int) : ∀ (n : Nat) (s : St) (c : Option Entry), s.todos ≠ [] →
    TodoRel (Gen.StepTodos_Zero_loop1 todoWorld fuel d0 n s.now ⟨s, c⟩) (stepTodosO n (.zero s.now) s) := by
  intro n
  induction n with
  | zero => intro s c _; simp [Gen.StepTodos_Zero_loop1, stepTodosO, TodoRel, Gen.M.halt]
  | succ n ih =>
    intro s c hne
    cases hs : s.todos with
    | nil => exact absurd hs hne
    | cons front rest =>
      tie_todos_step Gen.StepTodos_Zero_loop1 ih hs

/-- **tie of `Driver::DriverImpl::StepTodos<Deadline>`**, one theorem per instantiation: run on the model's state (any
list of ToDos, any task bodies, any clock) with the deadline object constructed at the current clock reading, the
function generated from the C++ source halts exactly when the model's fuel runs out and otherwise returns the model's
remaining time and leaves the model's state (list, clock, ghost log of the invocations in order) -/
theorem tie_StepTodos_Limited (fuel : Nat) (dl : Int) (s : St) (c : Option Entry) (hne : s.todos ≠ []) :
    TodoRel (Gen.StepTodos_Limited todoWorld fuel s.now dl ⟨s, c⟩) (stepTodosO fuel (.limited s.now dl) s) :=
  stepTodos_limited_loop fuel s.now dl fuel s c hne

theorem tie_StepTodos_Unlimited (fuel : Nat) (s : St) (c : Option Entry) (hne : s.todos ≠ []) :
    TodoRel (Gen.StepTodos_Unlimited todoWorld fuel s.now ⟨s, c⟩) (stepTodosO fuel (.unlimited s.now) s) :=
  stepTodos_unlimited_loop fuel s.now fuel s c hne

theorem tie_StepTodos_Zero (fuel : Nat) (s : St) (c : Option Entry) (hne : s.todos ≠ []) :
    TodoRel (Gen.StepTodos_Zero todoWorld fuel s.now ⟨s, c⟩) (stepTodosO fuel (.zero s.now) s) :=
  stepTodos_zero_loop fuel s.now fuel s c hne

/-- ... and therefore `ToDos.stepTodos` itself whenever the fuel suffices (`stepTodosO_sound`) -/
theorem tie_StepTodos_model (fuel : Nat) (timeoutMs : Int) (s : St) (r : Int × St)
    (h : stepTodosO fuel (Deadline.make timeoutMs s.now) s = some r) :
    stepTodos fuel (Deadline.make timeoutMs s.now) s = r :=
  stepTodosO_sound fuel _ s r h
end SockModel.Props.C06

import SockModel.Model.PoolLemmas
import SockModel.Spec.C10
import SockModel.Generated.Funcs
import SockModel.Basic.TieTactic
/-!
# C10  BufferPool accounting and recycling, including the sockets' receive pools

Property theorems only (helpers live in `Model/PoolLemmas.lean`).
Every statement quantifies over *all* histories `ops` (any length, any release
order).  Concurrency: `Get` and `Recycle` are each atomic under `m_mtx`, so an
interleaving of any number of threads *is* a history.
`n < sizeMax` is the fact that `maxCount` is a `size_t`.
-/
namespace SockModel.Pool

/-- "A pool created with limit N > 0 never has more than N buffers outstanding
(the N+1st Get throws and changes nothing)". -/
theorem pool_limit (n r : Nat) (hpos : 0 < n) (hn : n < sizeMax) (ops : List Op) :
    let p := run (create n r) ops
    p.busy.length ≤ n ∧
    (p.busy.length = n → get p = .outOfBuffers ∧ step p .get = p) := by
  intro p
  have h : PoolInv n r p := inv_run hn (inv_create n r) ops
  have hc := h.conserv hpos
  refine ⟨by omega, ?_⟩
  intro hfull
  have hidle : p.idle = [] := by
    apply List.eq_nil_of_length_eq_zero; omega
  have hm := h.maxM1
  rw [maxM1_pos hpos hn] at hm
  have hget : get p = .outOfBuffers := by
    unfold get
    rw [hidle]
    simp only
    rw [if_neg (by omega)]
  exact ⟨hget, by simp [step, hget]⟩

/-- "a pool with N = 0 never refuses" (as long as fewer than 2^64 buffers are
outstanding, i.e. always on a real machine). -/
theorem pool_unlimited (r : Nat) (ops : List Op) :
    let p := run (create 0 r) ops
    p.busy.length < sizeMax → ∃ b p', get p = .ok b p' := by
  intro p hlen
  have h : PoolInv 0 r p := inv_run (by simp [sizeMax]) (inv_create 0 r) ops
  have hm := h.maxM1
  rw [maxM1_zero] at hm
  unfold get
  split
  · rw [if_pos (by omega)]
    exact ⟨_, _, rfl⟩
  · exact ⟨_, _, rfl⟩

/-- "every Get yields a buffer that is empty, distinct from all other
outstanding buffers and, for pre-allocated pools, already has the reserved
capacity". -/
theorem pool_get_fresh (n r : Nat) (hn : n < sizeMax) (ops : List Op) (b : BufId) (p' : Pool) :
    let p := run (create n r) ops
    get p = .ok b p' →
      b ∉ p.busy ∧ p'.busy = p.busy ++ [b] ∧ p'.busy.Nodup ∧ p'.len b = 0 ∧
      (0 < n → r ≤ p'.cap b) := by
  intro p hg
  have h : PoolInv n r p := inv_run hn (inv_create n r) ops
  have h' : PoolInv n r p' := inv_get hn h hg
  have hnd' : p'.busy.Nodup := (List.nodup_append.mp h'.nodup).2.1
  unfold get at hg
  split at hg
  · rename_i hidle
    split at hg
    · cases hg
      refine ⟨?_, rfl, hnd', by simp, ?_⟩
      · intro hmem
        have := h.below p.next (by simp [hmem])
        omega
      · intro hpos
        -- unreachable: with n > 0 and idle = [] the pool is full
        have hc := h.conserv hpos
        have hm := h.maxM1
        rw [maxM1_pos hpos hn] at hm
        simp only [hidle, List.length_nil, Nat.zero_add] at hc
        have := hc.1
        omega
    · cases hg
  · rename_i b0 rest hidle
    cases hg
    refine ⟨?_, rfl, hnd', by simp, ?_⟩
    · intro hmem
      have hnd := h.nodup
      rw [hidle] at hnd
      have := (List.nodup_append.mp hnd).2.2 b (by simp) b hmem
      exact this rfl
    · intro hpos
      have hlt : b < n := by
        have := h.below b (by simp [hidle])
        have := (h.conserv hpos).2
        omega
      exact h.capRes hpos b hlt

/-- "a pool never creates a new buffer while it has an idle one"; pre-allocated
pools never allocate after construction. -/
theorem pool_conservation (n r : Nat) (hn : n < sizeMax) (ops : List Op) :
    let p := run (create n r) ops
    (0 < n → p.idle.length + p.busy.length = n ∧ p.next = n) ∧
    (∀ b p', get p = .ok b p' → p.idle ≠ [] → p'.next = p.next ∧ p.idle.head? = some b) := by
  intro p
  have h : PoolInv n r p := inv_run hn (inv_create n r) ops
  refine ⟨h.conserv, ?_⟩
  intro b p' hg hne
  unfold get at hg
  split at hg
  · rename_i hidle; exact absurd hidle hne
  · rename_i b0 rest hidle
    cases hg
    simp [hidle]

/-- "Releasing a buffer - on any thread, in any order - makes that same buffer
available again with its storage intact". -/
theorem pool_release_reuse (n r : Nat) (ops : List Op) (b : BufId) (p' : Pool) :
    let p := run (create n r) ops
    recycle p b = some p' →
      ∃ p'', get p' = .ok b p'' ∧ p''.cap b = p.cap b ∧ p''.next = p.next := by
  intro p hr
  unfold recycle at hr
  split at hr
  · cases hr
    exact ⟨_, rfl, rfl, rfl⟩
  · cases hr

/-- one operation never shrinks the storage of an existing buffer and never forgets a buffer id -/
theorem step_capacity_monotone (p : Pool) (op : Op) (b : BufId) (hb : b < p.next) :
    p.cap b ≤ (step p op).cap b ∧ p.next ≤ (step p op).next := by
  cases op with
  | get =>
    have hne : b ≠ p.next := by omega
    cases hidle : p.idle with
    | nil =>
      by_cases hlim : p.busy.length ≤ p.maxM1
      · simp [step, get, hidle, hlim, upd, hne]
      · simp [step, get, hidle, hlim]
    | cons b0 rest => simp [step, get, hidle]
  | rel b' =>
    by_cases hin : b' ∈ p.busy <;> simp [step, recycle, hin]
  | fill b' m =>
    by_cases hin : b' ∈ p.busy
    · by_cases hbb : b = b'
      · subst hbb; simp [step, fill, hin, upd]; omega
      · simp [step, fill, hin, upd, hbb]
    · simp [step, fill, hin]

/-- "with its storage intact", over whole histories: whatever Get / release / write
operations follow, in any order and on any thread, the capacity of a buffer the pool
owns never shrinks (so a recycled buffer still has everything it ever reserved or grew to). -/
theorem pool_capacity_monotone (p : Pool) (ops : List Op) (b : BufId) (hb : b < p.next) :
    p.cap b ≤ (run p ops).cap b ∧ p.next ≤ (run p ops).next := by
  induction ops generalizing p with
  | nil => simp [run]
  | cons op ops ih =>
    have h1 := step_capacity_monotone p op b hb
    have h2 := ih (step p op) (by omega)
    simp only [run, List.foldl_cons] at h2 ⊢
    omega

/-- pre-allocated pools: after any history every Get still yields a buffer that is empty and
has at least the reserved capacity, and at least what the user grew it to earlier -/
theorem pool_get_keeps_growth (n r : Nat) (ops1 ops2 : List Op) (b : BufId)
    (hb : b < (run (create n r) ops1).next) :
    (run (create n r) ops1).cap b ≤ (run (create n r) (ops1 ++ ops2)).cap b := by
  have := pool_capacity_monotone (run (create n r) ops1) ops2 b hb
  simpa [run, List.foldl_append] using this.1

example : (run (create 1 8) [.get, .fill 0 100, .rel 0, .get]).cap 0 = 100 := by decide

/-- releasing is possible exactly for outstanding buffers, in any order -/
theorem pool_release_any_order (p : Pool) (b : BufId) :
    (recycle p b).isSome ↔ b ∈ p.busy := by
  unfold recycle; split <;> simp_all

/-! ### receive pools of buffered / async sockets -/

theorem rx_inv (n size : Nat) (hn : n < sizeMax) (ops : List RxOp) :
    let s := rxRun size { pool := create n size, held := [] } ops
    PoolInv n size s.pool ∧ s.pool.busy = s.held := by
  intro s
  suffices H : ∀ (s0 : RxState), (PoolInv n size s0.pool ∧ s0.pool.busy = s0.held) →
      (PoolInv n size (rxRun size s0 ops).pool ∧ (rxRun size s0 ops).pool.busy = (rxRun size s0 ops).held) from
    H _ ⟨inv_create n size, rfl⟩
  induction ops with
  | nil => intro s0 h; exact h
  | cons op ops ih =>
    intro s0 ⟨hinv, hheld⟩
    apply ih
    cases op with
    | rx o =>
      simp only [rxStep, rx]
      cases hg : get s0.pool with
      | outOfBuffers => exact ⟨hinv, hheld⟩
      | ok b p1 =>
        have h1 := inv_get hn hinv hg
        have hb1 : p1.busy = s0.pool.busy ++ [b] := by
          unfold get at hg
          split at hg
          · split at hg
            · cases hg; rfl
            · cases hg
          · cases hg; rfl
        have hnd1 : p1.busy.Nodup := (List.nodup_append.mp h1.nodup).2.1
        have hbn : b ∉ s0.pool.busy := by
          rw [hb1] at hnd1
          intro hm
          exact (List.nodup_append.mp hnd1).2.2 b hm b (by simp) rfl
        have h2 := inv_fill b size h1
        have hb2 : (fill p1 b size).busy = p1.busy := by unfold fill; split <;> rfl
        have hmem2 : b ∈ (fill p1 b size).busy := by rw [hb2, hb1]; simp
        have hrec : recycle (fill p1 b size) b
            = some { (fill p1 b size) with idle := b :: (fill p1 b size).idle,
                                           busy := (fill p1 b size).busy.erase b } := by
          unfold recycle; rw [if_pos hmem2]
        have herase : (fill p1 b size).busy.erase b = s0.pool.busy := by
          rw [hb2, hb1]
          rw [List.erase_append_right _ hbn]
          simp
        cases o with
        | value m =>
          simp only
          refine ⟨inv_fill b m h2, ?_⟩
          have : (fill (fill p1 b size) b m).busy = (fill p1 b size).busy := by
            unfold fill; split <;> rfl
          simp only [this, hb2, hb1, hheld]
        | nothing =>
          simp only [hrec]
          exact ⟨inv_recycle h2 hrec, by simpa [herase] using hheld⟩
        | exn =>
          simp only [hrec]
          exact ⟨inv_recycle h2 hrec, by simpa [herase] using hheld⟩
    | drop b =>
      simp only [rxStep]
      split
      · cases hr : recycle s0.pool b with
        | none => exact ⟨hinv, hheld⟩
        | some q =>
          refine ⟨inv_recycle hinv hr, ?_⟩
          unfold recycle at hr
          split at hr
          · cases hr; simp [hheld]
          · cases hr
      · exact ⟨hinv, hheld⟩

/-- "Buffered and asynchronous sockets return their receive buffer on every path
(timeout, error, peer close), so a socket configured with N receive buffers can
always receive while the user holds fewer than N": after *any* history of
receives (every outcome) and drops, the pool's outstanding buffers are exactly
the ones the user holds, and the next receive obtains a buffer. -/
theorem rx_pool_always_available (n size : Nat) (hpos : 0 < n) (hn : n < sizeMax)
    (ops : List RxOp) (o : RxOutcome) :
    let s := rxRun size { pool := create n size, held := [] } ops
    s.pool.busy = s.held ∧
    (s.held.length < n → rx s.pool size o ≠ .outOfBuffers) := by
  intro s
  have hinv : PoolInv n size s.pool := (rx_inv n size hn ops).1
  have hheld : s.pool.busy = s.held := (rx_inv n size hn ops).2
  refine ⟨hheld, ?_⟩
  intro hlt
  have hc := hinv.conserv hpos
  have hlen : s.pool.busy.length < n := by
    rw [hheld]; exact hlt
  have hidle : s.pool.idle ≠ [] := by
    intro hnil
    have := hc.1
    rw [hnil] at this
    simp at this
    omega
  unfold rx
  cases hg : get s.pool with
  | outOfBuffers =>
    unfold get at hg
    split at hg
    · rename_i h0; exact absurd h0 hidle
    · cases hg
  | ok b p1 =>
    have h1 := inv_get hn hinv hg
    have hb1 : b ∈ p1.busy := by
      unfold get at hg
      split at hg
      · split at hg
        · cases hg; simp
        · cases hg
      · cases hg; simp
    have hmem2 : b ∈ (fill p1 b size).busy := by
      have : (fill p1 b size).busy = p1.busy := by unfold fill; split <;> rfl
      rw [this]; exact hb1
    cases o with
    | value m => simp
    | nothing => simp only [recycle, if_pos hmem2]; simp
    | exn => simp only [recycle, if_pos hmem2]; simp

/-- every buffer the receive pool knows already has room for a full receive -/
def Warm (size : Nat) (p : Pool) : Prop := ∀ b, b < p.next → size ≤ p.cap b

theorem warm_fill {size : Nat} {p : Pool} (b m : Nat) (h : Warm size p) : Warm size (fill p b m) := by
  intro x hx
  by_cases hin : b ∈ p.busy
  · have hx' : x < p.next := by simpa [fill, hin] using hx
    have := h x hx'
    by_cases hxb : x = b
    · subst hxb; simp [fill, hin, upd]; omega
    · simpa [fill, hin, upd, hxb] using this
  · have hx' : x < p.next := by simpa [fill, hin] using hx
    simpa [fill, hin] using h x hx'

theorem warm_recycle {size : Nat} {p q : Pool} {b : Nat} (h : Warm size p) (hr : recycle p b = some q) :
    Warm size q := by
  unfold recycle at hr
  split at hr
  · cases hr; exact h
  · cases hr

/-- `GetBuffer()` = `Get` + `resize(rxBufSize)`: the pool is warm again afterwards, whether the
buffer was idle or newly created -/
theorem warm_get_fill {size : Nat} {p p1 : Pool} {b : Nat} (h : Warm size p) (hg : get p = .ok b p1) :
    Warm size (fill p1 b size) := by
  unfold get at hg
  split at hg
  · split at hg
    · cases hg
      intro x hx
      have hin : p.next ∈ p.busy ++ [p.next] := by simp
      by_cases hxb : x = p.next
      · subst hxb; simp [fill, upd]
      · have hx' : x < p.next := by
          have : x < p.next + 1 := by simpa [fill] using hx
          omega
        simpa [fill, upd, hxb] using h x hx'
    · cases hg
  · rename_i b0 rest hidle
    cases hg
    exact warm_fill _ _ h

/-- "malloc counts around Get on a warm pool": on a socket with `rxBufCount = n` (any `n`, also the
unlimited `0`) and `rxBufSize = size`, after *any* history of receives (every outcome) and drops,
every buffer the pool knows has capacity for a full receive - so the `resize(rxBufSize)` of a receive
that reuses a buffer never reallocates, and only a receive that creates a new buffer allocates. -/
theorem rx_pool_stays_warm (n size : Nat) (ops : List RxOp) :
    Warm size (rxRun size { pool := create n size, held := [] } ops).pool := by
  have hinit : Warm size (create n size) := by
    intro b hb
    have : b < n := hb
    simp [create, this]
  suffices H : ∀ (s : RxState), Warm size s.pool → Warm size (rxRun size s ops).pool from H _ hinit
  induction ops with
  | nil => intro s h; simpa [rxRun] using h
  | cons op ops ih =>
    intro s h
    have hstep : Warm size (rxStep size s op).pool := by
      cases op with
      | rx o =>
        simp only [rxStep]
        unfold rx
        cases hg : get s.pool with
        | outOfBuffers => simpa using h
        | ok b p1 =>
          have h2 := warm_get_fill h hg
          cases o with
          | value m => simpa using warm_fill b m h2
          | nothing =>
            cases hr : recycle (fill p1 b size) b with
            | none => simpa [hr] using h
            | some q => simpa [hr] using warm_recycle h2 hr
          | exn =>
            cases hr : recycle (fill p1 b size) b with
            | none => simpa [hr] using h
            | some q => simpa [hr] using warm_recycle h2 hr
      | drop b =>
        simp only [rxStep]
        split
        · cases hr : recycle s.pool b with
          | none => simpa using h
          | some q => simpa using warm_recycle h hr
        · exact h
    have := ih _ hstep
    simpa [rxRun, List.foldl_cons] using this

/-- a reused receive buffer needs no growth: the buffer a receive obtains from a non-empty idle stack
already has capacity `≥ rxBufSize` -/
theorem rx_reuse_no_growth (n size : Nat) (hn : n < sizeMax) (ops : List RxOp) (b : BufId) (p1 : Pool) :
    let s := rxRun size { pool := create n size, held := [] } ops
    get s.pool = .ok b p1 → s.pool.idle ≠ [] → size ≤ s.pool.cap b ∧ p1.cap b = s.pool.cap b := by
  intro s hg hne
  have hw := rx_pool_stays_warm n size ops
  unfold get at hg
  split at hg
  · rename_i h0; exact absurd h0 hne
  · rename_i b0 rest hidle
    cases hg
    have hinv : PoolInv n size s.pool := (rx_inv n size hn ops).1
    have hlt : b < s.pool.next := hinv.below b (by simp [hidle])
    exact ⟨hw b hlt, rfl⟩

example : (rxRun 8 { pool := create 0 8, held := [] } [.rx (.value 3), .drop 0, .rx .nothing]).pool.cap 0 = 8 := by
  decide

/-- the predicate `./check C10` evaluates on the implementation's observations (`Spec/C10.lean`:
`specGetOk`, `specGetThrow`) accepts every trace of the model, for every `(N, reserve)` and every history -/
theorem spec_holds_on_model (n r : Nat) (hn : n < sizeMax) (ops : List Op) (hlen : ops.length < sizeMax - 1) :
    ∃ s, specRun n r {} (modelTrace (create n r) ops) = .ok s :=
  model_satisfies_spec n r hn ops hlen

/-! ### non-vacuity: concrete non-trivial states meet the hypotheses -/

example : (run (create 2 64) [.get, .get, .rel 1, .get]).busy = [0, 1] := by decide
example : get (run (create 2 64) [.get, .get]) = .outOfBuffers → True := fun _ => trivial
example : (rxRun 8 { pool := create 1 8, held := [] } [.rx .nothing, .rx .exn, .rx (.value 3)]).held = [0] := by
  decide

end SockModel.Pool

/-! ## Source-derived tie (DESIGN.md §0.7)

`SockModel.Gen.*` (Generated/Funcs.lean) is regenerated on every run by tools/cxx2lean.py from the clang AST of
the CURRENT /repo/src: BufferPool::BufferPool (m_maxCount) and the decision structure of BufferPool::Get.
Each theorem below states that the generated function and the hand-written model function agree for ALL
arguments; a change of the C++ function changes the generated definition and the theorem stops checking. -/
namespace SockModel.Props.C10
open SockModel SockModel.Pool

theorem tie_create_maxM1 (n reserve : Nat) :
    Gen.BufferPool_m_maxCount n = ((create n reserve).maxM1 : Int) := by
  simp only [Gen.BufferPool_m_maxCount, create, sizeMax]
  omega

/-- the decision structure of the model's `get` -/
def modelGetChoice (maxM1 : Nat) (idleEmpty : Bool) (busySize : Nat) : Gen.GetChoice :=
  if idleEmpty then (if busySize ≤ maxM1 then .allocateNew else .throwOutOfBuffers) else .reuseIdleTop true

/-- ... and that it is: each choice determines the result of the model's `get` completely -/
theorem model_get_choice (p : Pool) :
    match modelGetChoice p.maxM1 p.idle.isEmpty p.busy.length with
    | .allocateNew =>
      Pool.get p = .ok p.next { p with busy := p.busy ++ [p.next], next := p.next + 1,
                                       len := upd p.len p.next 0, cap := upd p.cap p.next 0 }
    | .throwOutOfBuffers => Pool.get p = .outOfBuffers
    | .reuseIdleTop clear =>
      ∃ b rest, p.idle = b :: rest ∧
        Pool.get p = .ok b { p with idle := rest, busy := p.busy ++ [b],
                                    len := if clear then upd p.len b 0 else p.len } := by
  unfold modelGetChoice Pool.get
  cases hi : p.idle with
  | nil => by_cases hb : p.busy.length ≤ p.maxM1 <;> simp [hb]
  | cons b rest => exact ⟨b, rest, by simp⟩

/-- `BufferPool::Get` as compiled from the current source takes the same path as the model's `get` for every
`m_maxCount`, `m_idle.empty()` and `m_busy.size()` -/
theorem tie_get (maxM1 : Nat) (idleEmpty : Bool) (busySize : Nat) :
    Gen.BufferPool_Get maxM1 idleEmpty busySize = modelGetChoice maxM1 idleEmpty busySize := by
  cases idleEmpty <;> simp only [Gen.BufferPool_Get, modelGetChoice] <;> tie_choice
end SockModel.Props.C10

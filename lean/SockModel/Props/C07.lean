import SockModel.Model.SendLoopLemmas
import SockModel.Model.ToDosLemmas
import SockModel.Model.ToDosStepLemmas
import SockModel.Spec.C07
import SockModel.Generated.Funcs
/-!
# C07  Timeouts mean what the documentation says, for every blocking call

Every blocking socket operation is `wait` (one `Wait(fd, events, timeout)`, which since
fix F2 may issue several `poll`s) followed by one non-blocking system call, except the
TCP send loops which wait repeatedly.  The theorems are about the *arguments* the
library passes to `poll` and about the virtual time that passes inside those polls
(A-POLL: `poll(t)` returns 0 only after `t` ms); the script `os.polls` is arbitrary:
readiness after any delay, never, signals at any time, failures.

`-intMax ≤ T ≤ intMax` is the documented domain `|T| < 2^31` ms.

The helper lemmas about `StepTodos` (`stepTodos_wait`, `DBound`, ...) are proved in `Model/ToDosStepLemmas.lean`
(shared with `Spec/C07.lean`); `spec_holds_on_model` / `spec_holds_on_model_step` (before the source-derived
tie) link the run-time oracle of `./check C07` to the model.
-/
namespace SockModel.SendLoop
open SockModel.Deadline

/-- `T < 0`: "returns only with a result, never 'nothing'" - as long as the OS does not answer an
unlimited `poll` with 0 (which it never does), and every poll issued has the unlimited timeout. -/
theorem unlimited_never_nothing (size : Nat) (T : Int) (hT : T < 0) (hlo : -intMax ≤ T) (os os' : Os)
    (r : Res (Option Bytes)) (hs : ∀ a ∈ os.polls, a ≠ .timedOut) (h : receive size T os = (r, os')) :
    r ≠ .ok none ∧ ∀ p ∈ pollArgs os', p ∈ pollArgs os ∨ p = T := by
  unfold receive at h
  cases hw : wait T os with
  | mk rw osw =>
    rw [hw] at h
    have hwf := wait_spec hw hlo (by unfold intMax; omega)
    have hargs : ∀ p ∈ pollArgs osw, p ∈ pollArgs os ∨ p = T := by
      intro p hp
      rcases hwf.2.2.2.2.2.1 p hp with h | h
      · exact Or.inl h
      · right; unfold ArgOk at h; rw [if_pos hT] at h; exact h
    cases rw with
    | exn e => cases h; exact ⟨by simp, hargs⟩
    | ok b =>
      cases b with
      | false => exact absurd rfl (hwf.2.2.2.2.2.2.2.2 hT hs)
      | true =>
        simp only at h
        have hr : pollArgs (recvNow size osw).2 = pollArgs osw := by
          unfold recvNow pollArgs
          split
          · rfl
          · simp only; split <;> (try split) <;> simp
        cases hrn : recvNow size osw with
        | mk rr osr =>
          rw [hrn] at h
          rw [hrn] at hr
          cases rr with
          | ok bs => cases h; exact ⟨by simp, by rw [hr]; exact hargs⟩
          | exn e => cases h; exact ⟨by simp, by rw [hr]; exact hargs⟩

/-- `T = 0`: "never blocks": every poll issued has timeout 0 and no virtual time passes. -/
theorem zero_never_blocks (os os' : Os) (r : Res Bool) (h : wait 0 os = (r, os')) :
    os'.now = os.now ∧ ∀ p ∈ pollArgs os', p ∈ pollArgs os ∨ p = 0 := by
  have hwf := wait_spec h (by decide) (by decide)
  refine ⟨hwf.2.2.2.2.2.2.1 rfl, ?_⟩
  intro p hp
  rcases hwf.2.2.2.2.2.1 p hp with h | h
  · exact Or.inl h
  · right; unfold ArgOk at h; simpa using h

/-- `T > 0`: "blocks no longer than T in total", however many polls the wait needs (signals), each
poll's timeout is within the remaining budget, and "returns 'nothing' no earlier than T": `false`
exactly when the virtual clock reached `start + T`. -/
theorem limited_budget (T : Int) (hT : 0 < T) (hhi : T ≤ intMax) (os os' : Os) (r : Res Bool)
    (h : wait T os = (r, os')) :
    os.now ≤ os'.now ∧ os'.now ≤ os.now + T * nsPerMs ∧
    (r = .ok false → os'.now = os.now + T * nsPerMs) ∧
    (∀ p ∈ pollArgs os', p ∈ pollArgs os ∨ (0 ≤ p ∧ p ≤ T)) := by
  have hwf := wait_spec h (by unfold intMax; omega) hhi
  refine ⟨hwf.2.2.2.1, (hwf.2.2.2.2.2.2.2.1 hT).1, (hwf.2.2.2.2.2.2.2.1 hT).2, ?_⟩
  intro p hp
  rcases hwf.2.2.2.2.2.1 p hp with h | h
  · exact Or.inl h
  · right; unfold ArgOk at h; rw [if_neg (by omega), if_neg (by omega)] at h; exact h

/-- the same for a TCP/UDP receive with limited timeout: `nullopt` no earlier and no later than T -/
theorem receive_limited (size : Nat) (T : Int) (hT : 0 < T) (hhi : T ≤ intMax) (os os' : Os)
    (r : Res (Option Bytes)) (h : receive size T os = (r, os')) :
    os'.now ≤ os.now + T * nsPerMs ∧ (r = .ok none → os'.now = os.now + T * nsPerMs) := by
  unfold receive at h
  cases hw : wait T os with
  | mk rw osw =>
    rw [hw] at h
    obtain ⟨_, h2, h3, _⟩ := limited_budget T hT hhi os osw rw hw
    have hrn : (recvNow size osw).2.now = osw.now := by
      unfold recvNow; split
      · rfl
      · simp only; split <;> (try split) <;> rfl
    cases rw with
    | exn e => cases h; exact ⟨h2, by intro h; cases h⟩
    | ok b =>
      cases b with
      | false => cases h; exact ⟨h2, fun _ => h3 rfl⟩
      | true =>
        simp only at h
        cases hr : recvNow size osw with
        | mk rr osr =>
          rw [hr] at h hrn
          cases rr with
          | ok bs => cases h; exact ⟨by rw [hrn]; exact h2, by intro h; cases h⟩
          | exn e => cases h; exact ⟨by rw [hrn]; exact h2, by intro h; cases h⟩

/-- `SendSome` (TCP send with limited timeout): however many waits and partial sends it needs, the
clock never passes `start + T`; and it returns fewer bytes than asked only at `start + T`. -/
theorem sendSomeLoop_budget (deadline : Int) (fuel : Nat) (rem : Bytes) (sent : Nat) (os os' : Os)
    (r : Res Nat) (k : Nat) (hk : deadline - os.now = (k : Int) * nsPerMs) (hmax : (k : Int) ≤ intMax)
    (h : sendSomeLoop deadline fuel rem sent os.now os = (r, os')) :
    os.now ≤ os'.now ∧ os'.now ≤ deadline ∧
    (∀ m, r = .ok m → m < sent + rem.length → os'.now = deadline) := by
  have hns : (0 : Int) < nsPerMs := by decide
  induction fuel generalizing rem sent os k with
  | zero =>
    cases h
    have := Int.mul_nonneg (Int.natCast_nonneg k) (Int.le_of_lt hns)
    exact ⟨Int.le_refl _, by omega, by intro m h; cases h⟩
  | succ fuel ih =>
    unfold sendSomeLoop at h
    rw [remaining_of_multiple os.now deadline k hk] at h
    have hkn := Int.mul_nonneg (Int.natCast_nonneg k) (Int.le_of_lt hns)
    cases hw : wait (k : Int) os with
    | mk rw osw =>
      rw [hw] at h
      have hwf := wait_spec hw (by unfold intMax; omega) hmax
      have hmono := hwf.2.2.2.1
      have hmult := wait_mult hw
      -- upper bound: either k = 0 (clock frozen) or k > 0 (≤ os.now + k ms)
      have hup : osw.now ≤ deadline ∧ (rw = .ok false → osw.now = deadline) := by
        by_cases hk0 : (k : Int) = 0
        · have := hwf.2.2.2.2.2.2.1 hk0
          rw [hk0] at hk
          refine ⟨by omega, fun _ => by omega⟩
        · have hpos : 0 < (k : Int) := by omega
          have := hwf.2.2.2.2.2.2.2.1 hpos
          exact ⟨by omega, fun hf => by have := this.2 hf; omega⟩
      cases rw with
      | exn e => cases h; exact ⟨hmono, hup.1, by intro m h; cases h⟩
      | ok b =>
        cases b with
        | false => cases h; exact ⟨hmono, hup.1, fun _ _ _ => hup.2 rfl⟩
        | true =>
          simp only at h
          cases hs : sendNow rem osw with
          | mk rs oss =>
            rw [hs] at h
            obtain ⟨_, _, hnow, _, _, _, n, hn, _, hok⟩ := sendNow_facts hs
            cases rs with
            | exn e => cases h; exact ⟨by rw [hnow]; exact hmono, by rw [hnow]; exact hup.1, by intro m h; cases h⟩
            | ok j =>
              simp only at h
              have hj := (hok j rfl).1
              split at h
              · rename_i hstop
                cases h
                refine ⟨by rw [hnow]; exact hmono, by rw [hnow]; exact hup.1, ?_⟩
                intro m hm hlt
                cases hm
                rcases hstop with hemp | htl
                · have : rem.length ≤ j := by simpa using hemp
                  omega
                · rw [hnow]; have := hup.1; omega
              · rename_i hcont
                -- continue: the clock is still a whole number of ms before the deadline
                obtain ⟨jm, hjm⟩ := hmult
                have hk' : deadline - oss.now = ((k - jm : Nat) : Int) * nsPerMs := by
                  rw [hnow, hjm]
                  have hle : (jm : Int) * nsPerMs ≤ (k : Int) * nsPerMs := by have := hup.1; omega
                  have hjk : jm ≤ k := by
                    have := Int.le_of_mul_le_mul_right hle hns
                    omega
                  have : ((k - jm : Nat) : Int) = (k : Int) - (jm : Int) := by omega
                  rw [this, Int.sub_mul]; omega
                have hmax' : ((k - jm : Nat) : Int) ≤ intMax := by omega
                have h' : sendSomeLoop deadline fuel (rem.drop j) (sent + j) oss.now oss = (r, os') := by
                  rw [hnow]; exact h
                obtain ⟨g1, g2, g3⟩ := ih (rem.drop j) (sent + j) oss (k - jm) hk' hmax' h'
                refine ⟨by rw [hnow] at g1; omega, g2, ?_⟩
                intro m hm hlt
                apply g3 m hm
                simp only [List.length_drop]
                omega

theorem sendSome_budget (data : Bytes) (T : Int) (hT : 0 < T) (hhi : T ≤ intMax) (os os' : Os) (r : Res Nat)
    (h : sendSome data T os = (r, os')) :
    os.now ≤ os'.now ∧ os'.now ≤ os.now + T * nsPerMs ∧
    (∀ m, r = .ok m → m < data.length → os'.now = os.now + T * nsPerMs) := by
  have hk : (os.now + T * nsPerMs) - os.now = ((T.toNat : Nat) : Int) * nsPerMs := by
    rw [Int.toNat_of_nonneg (by omega)]; omega
  have hmax : ((T.toNat : Nat) : Int) ≤ intMax := by rw [Int.toNat_of_nonneg (by omega)]; exact hhi
  have := sendSomeLoop_budget (os.now + T * nsPerMs) _ data 0 os os' r T.toNat hk hmax h
  simpa using this

/-! ### Driver::Step -/

end SockModel.SendLoop

namespace SockModel.ToDos
open SockModel.Deadline

/-- "with no ToDo pending ... it waits the full T" -/
theorem step_full_wait (fuel : Nat) (T : Int) (s : St) (h : s.todos = []) :
    (step true fuel T s).log = .poll (toMsec T) :: s.log := by
  unfold step
  rw [h]
  simp only [List.isEmpty_nil, if_true]
  unfold pollSockets
  simp only [if_true]
  split
  · rfl
  · split <;> rfl

/-- "it never sleeps past the due time of the earliest pending ToDo": when a ToDo is still pending
after the tasks of this step ran, the timeout passed to the socket wait is non-negative (never
unlimited) and ends no later than that ToDo's due time.  Holds for every timeout `T`, every due
time (also ≥ 2^31 ms ahead, thanks to the clamp of fix F6) and every task behaviour. -/
theorem step_not_past_todo (fuel : Nat) (T : Int) (s : St) (ms : Int) (s' : St)
    (hst : stepTodos fuel (Deadline.make T s.now) s = (ms, s')) :
    ∀ f rest, s'.todos = f :: rest →
      0 ≤ toMsec ms ∧ (s'.now < f.when → toMsec ms * nsPerMs ≤ f.when - s'.now) :=
  stepTodos_not_past fuel T s ms s' hst

/-- "Driver::Step is bounded by T from above in the same way": for `T ≥ 0` the timeout handed to the
socket wait after the due tasks ran is within `[0, T]`, whatever the tasks did and however long they
took (`DBound T d`: the deadline object never promises more than `T`; `DBound_make`). -/
theorem step_bounded (fuel : Nat) (T : Int) (hT : 0 ≤ T) (d : Deadline) (s : St) (hd : d.now = s.now)
    (hb : DBound T d) (ms : Int) (s' : St) (h : stepTodos fuel d s = (ms, s')) : 0 ≤ ms ∧ ms ≤ T :=
  stepTodos_bounded fuel T hT d s hd hb ms s' h

/-- the shipped `ToMsec` (narrowing to 32 bits, finding F6) does NOT have this property: a ToDo due
2^31 ms ahead turns the wait into an unlimited one. -/
theorem legacy_sleeps_past_todo :
    ∃ (T : Int) (s : St) (f : Entry), s.todos = [f] ∧ s.now < f.when ∧
      (step false 1 T s).log.head? = some (.poll (-2147483648)) := by
  refine ⟨-1, { todos := [⟨1, 2147483648 * 1000000, 0⟩], now := 0 }, ⟨1, 2147483648 * 1000000, 0⟩, rfl, by decide, by decide⟩

end SockModel.ToDos

/-! ## The run-time oracle is a theorem of the model (`Spec/C07.lean`) -/
namespace SockModel.Spec.C07
/-- the timeout clauses `./check C07` evaluates on the implementation's blocking socket operations
(`Spec/C07.lean`: `specStep` = `specStepM c07` with `specTimeouts` - `T < 0`: only unlimited polls, never
'nothing'; `T = 0`: only zero polls, no time passes; `T > 0`: every poll argument within `[0, T - elapsed]`,
total blocking at most `T`, 'nothing' only at `start + T` - plus `MSG_NOSIGNAL` and crash / hang) accept every
trace of the model (`send` / `receive` / `sendTo` / `receiveFrom` / `acceptT` of `Model/SendLoop.lean` on
arbitrary scripted OS answers; the model trace is the one of `Spec/C01.lean`), for every history of any
length.  `histOk` is the domain: `T < 2^31` ms, and no "timed out" answer of the kernel to an unlimited poll. -/
theorem spec_holds_on_model (history : List C01.Op) (h : histOk history = true) :
    ∃ s, specRun () (C01.modelTrace {} history) = .ok s :=
  model_satisfies_spec history h

/-- the clauses `./check C07` (and `./check C06`) evaluate on the implementation's `Driver::Step` transcripts
(`Spec/C07.lean`: `Step.specStep` - one socket wait per step, within `[0, T]` for `T ≥ 0`, never unlimited and
never past the due time of the earliest pending ToDo, the full `T` when idle, a due task is run, no task after
the wait, monotone clock, and the reference scheduler of `Spec/C06.lean` for every invocation) accept every
trace of the model (`Model/ToDos.lean`, with the `ToMsec` clamp of fix F6), for every history of any length
with arbitrary task bodies.  Domain: `T < 2^31` ms for every `Step(T)`; `fuel ≥ 1` task invocations per step. -/
theorem spec_holds_on_model_step (fuel : Nat) (hf : 0 < fuel) (history : List ToDos.Op)
    (h : history.all Step.opOk = true) :
    ∃ s, Step.specRun {} (Step.modelTrace fuel {} history) = .ok s :=
  Step.model_satisfies_spec fuel hf history h
end SockModel.Spec.C07

/-! ## Source-derived tie (DESIGN.md §0.7)

`SockModel.Gen.*` (Generated/Funcs.lean) is regenerated on every run by tools/cxx2lean.py from the clang AST of
the CURRENT /repo/src: ToMsec, the wait.h deadline flavours, MinDuration, the timeout-sign dispatch of Driver::DriverImpl::Step.
Each theorem below states that the generated function and the hand-written model function agree for ALL
arguments; a change of the C++ function changes the generated definition and the theorem stops checking. -/
namespace SockModel.Props.C07
open SockModel SockModel.Deadline

theorem tie_toMsec (c : Int) : Gen.ToMsec c = Deadline.toMsec c := by
  simp only [Gen.ToMsec, toMsec, intMax, Int.bmod_eq_emod]
  repeat' split
  all_goals omega

theorem tie_unlimited_timeLeft (now : Int) : Gen.Unlimited_TimeLeft = (Deadline.unlimited now).timeLeft := rfl
theorem tie_unlimited_remaining (now : Int) : Gen.Unlimited_Remaining = (Deadline.unlimited now).remaining := rfl
theorem tie_zero_timeLeft (now : Int) : Gen.ZeroLimited_TimeLeft = (Deadline.zero now).timeLeft := rfl
theorem tie_zero_remaining (now : Int) : Gen.ZeroLimited_Remaining = (Deadline.zero now).remaining := rfl

theorem tie_limited_timeLeft (now dl : Int) :
    Gen.DeadlineLimited_TimeLeft now dl = (Deadline.limited now dl).timeLeft := rfl

theorem tie_limited_remaining (now dl : Int) :
    Gen.DeadlineLimited_Remaining now dl = (Deadline.limited now dl).remaining := by
  simp only [Gen.DeadlineLimited_Remaining, Deadline.remaining, toMs, nsPerMs]
  repeat' split
  all_goals omega

theorem tie_minDuration (l r : Int) : Gen.MinDuration l r = Deadline.minDuration l r := by
  simp only [Gen.MinDuration, minDuration, toMs, nsPerMs]
  repeat' split
  all_goals omega

/-- `Deadline.make`: flavour chosen by the sign of the timeout as in `Driver::DriverImpl::Step`, and the
limited deadline is the constructor initialiser `now + timeout` -/
theorem tie_make (t now : Int) :
    Deadline.make t now =
      match Gen.Step_dispatch false t with
      | .todosUnlimited => .unlimited now
      | .todosZero => .zero now
      | _ => .limited now (Gen.DeadlineLimited_deadline now t) := by
  simp only [Deadline.make, Gen.Step_dispatch, Gen.DeadlineLimited_deadline, nsPerMs]
  split <;> (try split) <;> simp_all

theorem tie_step (clamp : Bool) (fuel : Nat) (t : Int) (s : ToDos.St) :
    ToDos.step clamp fuel t s =
      match Gen.Step_dispatch s.todos.isEmpty t with
      | .socketsOnly => ToDos.pollSockets clamp t s
      | .todosUnlimited =>
        let r := ToDos.stepTodos fuel (.unlimited s.now) s
        ToDos.pollSockets clamp r.1 r.2
      | .todosZero =>
        let r := ToDos.stepTodos fuel (.zero s.now) s
        ToDos.pollSockets clamp r.1 r.2
      | .todosLimited =>
        let r := ToDos.stepTodos fuel (.limited s.now (Gen.DeadlineLimited_deadline s.now t)) s
        ToDos.pollSockets clamp r.1 r.2 := by
  simp only [ToDos.step, Deadline.make, Gen.Step_dispatch, Gen.DeadlineLimited_deadline, nsPerMs]
  repeat' split
  all_goals simp_all
end SockModel.Props.C07

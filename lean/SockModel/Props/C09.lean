import SockModel.Model.UdpLemmas
import SockModel.Spec.C09
import SockModel.Model.GenQueueWorld
import SockModel.Generated.Loops
/-!
# C09  UDP datagrams: boundaries, payload, source and destination preserved

Property theorems only (model: `Model/Udp.lean`, invariants: `Model/UdpLemmas.lean`; the executable
property predicate, the composed model `sysStep` and the proof of `spec_holds_on_model`: `Spec/C09.lean`).
Sockets are named by the ordinal of their bound address.  The network assumption
(loopback, receive queue not overrun: a successful `sendto` appends the datagram
with the sender's bound address to the destination's FIFO) is the definition of
`NetOp.deliver`; everything else is derived for *all* histories of sends and
receives by any number of senders and receivers, all datagram sizes (0 included)
and all receive-buffer sizes.
-/
namespace SockModel.Udp
open SockModel.AsyncQ (Bytes Fut upd upd_same upd_other)

/-- "SendTo returns the full size, or 0 only when a limited timeout expired, never a partial
count": for every size, timeout, wait outcome and `sendto` answer the call returns `len`, or `0`
because a limited (`≥ 0`) wait timed out (then no datagram left), or throws; a datagram left
with a returned count only if the count is `len`. -/
theorem sendTo_all_or_nothing (len : Nat) (timeoutMs : Int) (w : WaitAns) (a : SendAns) :
    (∀ n, (sendTo len timeoutMs w a).1 = .ret n →
        (n = len ∧ (sendTo len timeoutMs w a).2 = true ∧ a = .accept len) ∨
        (n = 0 ∧ 0 ≤ timeoutMs ∧ w = .timedOut ∧ (sendTo len timeoutMs w a).2 = false)) ∧
    ((sendTo len timeoutMs w a).1 = .logicError → ∃ k, a = .accept k ∧ k ≠ len) ∧
    ((sendTo len timeoutMs w a).1 = .systemError → a = .fail ∧ (sendTo len timeoutMs w a).2 = false) ∧
    (timeoutMs < 0 → a = .accept len → sendTo len timeoutMs w a = (.ret len, true)) := by
  unfold sendTo
  refine ⟨?_, ?_, ?_, ?_⟩
  · intro n
    split
    · rename_i hc
      intro hr; cases hr
      exact Or.inr ⟨rfl, hc.1, hc.2, rfl⟩
    · cases a with
      | accept k =>
        simp only [sendNow]
        split
        · rename_i hk; intro hr; cases hr; subst hk; exact Or.inl ⟨rfl, rfl, rfl⟩
        · intro hr; cases hr
      | fail => intro hr; cases hr
  · split
    · intro hr; cases hr
    · cases a with
      | accept k =>
        simp only [sendNow]
        split
        · intro hr; cases hr
        · rename_i hk; intro _; exact ⟨k, rfl, hk⟩
      | fail => intro hr; cases hr
  · split
    · intro hr; cases hr
    · cases a with
      | accept k => simp only [sendNow]; split <;> (intro hr; cases hr)
      | fail => intro _; exact ⟨rfl, rfl⟩
  · intro ht ha
    subst ha
    rw [if_neg (by omega)]
    simp [sendNow]

/-- "Every datagram a UDP socket reports was sent by some SendTo with exactly that payload (its
prefix when the caller's buffer is smaller) ... and comes with the sender's bound address":
one receive with `size` bytes of room (the caller's size, or `rxBufSize` for the buffered and
asynchronous levels, whose buffer is resized to the received count) reports the datagram's
payload truncated to `size` - the whole payload when it fits - and its source; on a non-empty
FIFO it removes exactly the oldest datagram and adds exactly that one report. -/
theorem recvFrom_prefix_source (n : Net) (r size : Nat) (d : Dgram) (rest : List Dgram) (hc : n.chan r = d :: rest) :
    let n' := netStep n (.recv r size)
    n'.chan r = rest ∧
    n'.reports r = n.reports r ++ [⟨d.payload.take size, d.src⟩] ∧
    (d.payload.take size) <+: d.payload ∧
    (d.payload.length ≤ size → d.payload.take size = d.payload) ∧
    (∀ x, x ≠ r → n'.chan x = n.chan x ∧ n'.reports x = n.reports x) := by
  intro n'
  have hn' : n' = { n with chan := updL n.chan r rest,
                           removed := updL n.removed r (n.removed r ++ [(d, size)]),
                           reports := updL n.reports r (n.reports r ++ [receiveFrom d size]) } := by
    show netStep n (.recv r size) = _
    simp only [netStep, hc]
  rw [hn']
  refine ⟨by simp, by simp [receiveFrom], List.take_prefix _ _, fun h => List.take_of_length_le h, ?_⟩
  intro x hx
  exact ⟨updL_other _ _ _ _ hx, updL_other _ _ _ _ hx⟩

/-- "is reported at most once ... on a loss-free path every sent datagram, empty ones included,
arrives exactly once and in order": after any history `ops` of successful sends (any senders, any
payloads) and receives (any receivers, any sizes), for every receiving socket `r` the datagrams
addressed to it, in the order their `sendto`s took effect, are exactly the ones already taken by
receives (in that order, each once) followed by the ones still queued; and the reports are,
one for one and in order, the taken datagrams truncated to the room of the receive that took
them, each with its sender's address. -/
theorem udp_lossless_in_order (ops : List NetOp) (r : Nat) :
    let n := netRun {} ops
    deliveredTo r ops = (n.removed r).map (·.1) ++ n.chan r ∧
    n.reports r = (n.removed r).map (fun x => (⟨x.1.payload.take x.2, x.1.src⟩ : Report)) := by
  intro n
  have h : NetInv n := netInv_run netInv_init ops
  have ha := arrived_run {} ops r
  refine ⟨?_, ?_⟩
  · have := h.arrived r
    rw [ha] at this
    simpa using this
  · exact h.reports r

/-- "later datagrams are not held up by a failed one": when the `sendto` of the front element
fails, exactly that element's future gets the exception, its buffer is returned, it is popped,
nothing was handed to the OS; the queue stays armed and the very next writable event sends the
next element, whose future gets its value - the failed one keeps its exception. -/
theorem asyncSendTo_isolated_failure (acts : List TAct) (e : TElem) (rest : List TElem) :
    let s := tqRun {} acts
    s.q = e :: rest →
    let s1 := tqStep s (.writable .fail)
    s1.fut e.id = .exn ∧ s1.q = rest ∧ s1.sent = s.sent ∧ e.id ∈ s1.returned ∧
    (∀ e2 rest2, rest = e2 :: rest2 →
      let s2 := tqStep s1 (.writable .ok)
      s1.armed = true ∧ s2.sent = s.sent ++ [e2] ∧ s2.fut e2.id = .value ∧ s2.fut e.id = .exn ∧ s2.q = rest2) := by
  intro s hq s1
  have h : TInv s := tInv_run tInv_init acts
  have hdes : s.destroyed = false := by
    cases hd : s.destroyed with
    | false => rfl
    | true => have := h.destr hd; rw [hq] at this; cases this
  have harm : s.armed = true := (h.armedInv hdes).mpr (by rw [hq]; simp)
  have hs1 : s1 = { s with q := rest, fut := upd s.fut e.id .exn, returned := s.returned ++ [e.id],
                           done := s.done ++ [(e, .exn)], armed := !rest.isEmpty } := by
    show tqStep s (.writable .fail) = _
    simp [tqStep, hdes, harm, hq]
  refine ⟨by rw [hs1]; simp, by rw [hs1], by rw [hs1], by rw [hs1]; simp, ?_⟩
  intro e2 rest2 hr s2
  have hne : e.id ≠ e2.id := by
    have hn := h.nodup
    rw [h.ids, hq, hr] at hn
    have := (List.nodup_append.mp hn).2.1
    simp only [List.map_cons, List.nodup_cons, List.mem_cons, not_or] at this
    exact this.1.1
  have hs2 : s2 = { s1 with q := rest2, fut := upd s1.fut e2.id .value, sent := s1.sent ++ [e2],
                            returned := s1.returned ++ [e2.id], done := s1.done ++ [(e2, .value)],
                            armed := !rest2.isEmpty } := by
    show tqStep s1 (.writable .ok) = _
    rw [hs1]
    simp [tqStep, hdes, hr]
  refine ⟨by rw [hs1, hr]; rfl, by rw [hs2, hs1], by rw [hs2]; simp, ?_, by rw [hs2]⟩
  rw [hs2]
  dsimp only
  rw [upd_other _ _ _ _ hne, hs1]
  simp

/-- "the future of an asynchronous SendTo resolves once the datagram was handed to the OS or
carries the error": in every reachable state the datagrams handed to the OS are exactly the
enqueued ones whose future holds a value - in `SendTo` order, each exactly once, with their
payload and destination; a future with an exception or a broken one never reached the OS. -/
theorem asyncSendTo_future_truth (acts : List TAct) :
    let s := tqRun {} acts
    s.sent = s.enqd.filter (fun e => s.fut e.id = .value) ∧ (s.enqd.map (·.id)).Nodup ∧
    (∀ id, id ∈ s.returned ↔ (s.fut id).resolved = true) := by
  intro s
  have h : TInv s := tInv_run tInv_init acts
  refine ⟨?_, h.nodup, ?_⟩
  · rw [h.enqd, List.filter_append, h.sent]
    have hq : s.q.filter (fun e => s.fut e.id = .value) = [] := by
      apply List.filter_eq_nil_iff.mpr
      intro e he; simp [h.futq e he]
    rw [hq, List.append_nil, List.filter_map]
    congr 1
    apply List.filter_congr
    intro d hd
    simp [(h.futd d hd).1]
  · intro id
    constructor
    · intro hm
      rw [h.ret] at hm
      obtain ⟨d, hd, rfl⟩ := List.mem_map.mp hm
      rw [(h.futd d hd).1]; exact (h.futd d hd).2
    · intro hr
      have hin : id ∈ s.enqd.map (·.id) := by
        apply Classical.byContradiction
        intro hn; rw [h.futn id hn] at hr; simp [Fut.resolved] at hr
      rw [h.ids] at hin
      rcases List.mem_append.mp hin with hm | hm
      · rw [h.ret]; exact hm
      · obtain ⟨e, he, rfl⟩ := List.mem_map.mp hm
        rw [h.futq e he] at hr; simp [Fut.resolved] at hr

/-- the predicate `./check C09` evaluates on the implementation's observations (`Spec/C09.lean`:
`specStep` with `specSendTo`, `specReport`, `specEv`, `specRecv`, `specState`) accepts every trace of
the composed model (`sysStep`: `sendTo` + datagram network + per-socket `SendToQ` + the driver's
dispatch order), for every history of operations of any length with arbitrary arguments and OS
answers; operations the harness does not perform are no-ops of the model.  No hypothesis. -/
theorem spec_holds_on_model (history : List Op) : ∃ s, specRun {} (modelTrace {} history) = .ok s :=
  model_satisfies_spec history

/-! ### non-vacuity -/

example : sendTo 5 100 .timedOut (.accept 5) = (.ret 0, false) := by decide
example : sendTo 5 (-1) .timedOut (.accept 5) = (.ret 5, true) := by decide
example : sendTo 5 0 .ready (.accept 3) = (.logicError, true) := by decide
example : sendTo 0 0 .ready (.accept 0) = (.ret 0, true) := by decide

/-- two senders, one receiver, an empty datagram, a truncating receive -/
example :
    (netRun {} [.deliver 1 0 [7, 8, 9], .deliver 2 0 [], .recv 0 2, .deliver 1 0 [5], .recv 0 10, .recv 0 10]).reports 0
      = [⟨[7, 8], 1⟩, ⟨[], 2⟩, ⟨[5], 1⟩] := by decide

example :
    let s := tqRun {} [.enq 1 [1] 0, .enq 2 [2] 0, .enq 3 [] 5, .writable .ok, .writable .fail, .writable .ok]
    s.sent = [⟨1, [1], 0⟩, ⟨3, [], 5⟩] ∧ s.fut 2 = .exn ∧ s.armed = false := by decide

end SockModel.Udp

/-! ## Source-derived tie, stage 4 (DESIGN.md §0.7.3): `SocketAsyncImpl::DriverSendTo`

Generated on every run from the clang AST of src/socket_async_impl.cpp (Generated/Loops.lean) over the abstract queue /
promise / buffer / socket interface `Gen.QueueWorld` (`auto &&[promise, buffer(, addr)] = q.front()`; `try` /
`catch(std::runtime_error const &)` as `M.tryCatch`), run on the model's own queue state (Model/GenQueueWorld.lean) and
tied to the model's writable action for EVERY queue, every future state and every answer of the OS.  Every generated
`if` is decided by `omega` from the case hypotheses (whatever its polarity / arithmetic form), so the early-return
and `q.empty()` forms of harmless_H07 are re-proved by the same script. -/
namespace SockModel.Props.C09
open SockModel SockModel.Udp SockModel.GenWorld
open SockModel.AsyncQ (Bytes Fut upd upd_same upd_other)

/-- the model's queue after a writable event, from what the generated `DriverSendTo` returns and leaves behind: the
return value ("queue emptied") is what makes `DoOneSocketTask` disarm `POLLOUT`; an exception leaves it armed -/
def afterTqWritable (r : Gen.Res Bool × TQSt) : TQ :=
  match r.1 with
  | .ok b => { r.2.s with armed := !b }
  | _ => r.2.s

theorem isA_sys_rt_udp : Gen.ExnClass.isA .system_error .runtime_error = true := rfl
theorem dec_len_udp {α : Type} (l : List α) : decide (((l.length : Int) + 1) = 1) = l.isEmpty := by
  cases l <;> simp <;> omega

macro "tie_tq_simp" : tactic => `(tactic| (
  simp (disch := omega) only [Gen.DriverSendTo, Gen.M.bind, Gen.M.pure, Gen.M.throw, Gen.M.tryCatch, isA_sys_rt_udp, t_qSize,
    t_qEmpty, t_qPop, t_bufferSize, t_promiseSetValue, t_promiseSetException, t_sockSendTo, List.length_cons,
    List.length_nil, List.isEmpty_cons, List.isEmpty_nil, if_pos, if_neg, if_true, if_false, ite_true, ite_false,
    Bool.true_eq_false, Bool.false_eq_true, Int.toNat_natCast, upd_same]))

/-- **tie of `SocketAsyncImpl::DriverSendTo`**: one writable event of an armed, live UDP socket -/
theorem tie_DriverSendTo (fuel : Nat) (s : TQ) (a : TAns) (hd : s.destroyed = false) (ha : s.armed = true) :
    afterTqWritable (Gen.DriverSendTo tqWorld fuel ⟨s, some a⟩) = tqStep s (.writable a) := by
  obtain ⟨q, armed, destroyed, fut, sent, returned, enqd, done⟩ := s
  simp only at hd ha
  subst hd ha
  cases q with
  | nil =>
    tie_tq_simp
    simp [afterTqWritable, tqStep]
  | cons e rest =>
    cases a <;> tie_tq_simp <;> simp [afterTqWritable, tqStep, dec_len_udp]

/-- the UDP enqueue side is the same template as the TCP one (tied to the model in Props/C02 `tie_AsyncSend`): for
EVERY world, `SendTo` does what `Send` does - lock, read `q.empty()`, `emplace`, unlock, arm iff the queue was empty -/
theorem tie_AsyncSendTo {ω : Type} (W : Gen.QueueWorld ω) (fuel : Nat) : Gen.AsyncSendTo W fuel = Gen.AsyncSend W fuel := by
  funext w
  simp only [Gen.AsyncSendTo, Gen.AsyncSend]
end SockModel.Props.C09

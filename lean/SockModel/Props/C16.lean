import SockModel.Model.SendLoopLemmas
import SockModel.Model.GenWorld
import SockModel.Generated.Loops
import SockModel.Basic.TieTactic
import SockModel.Spec.C16
/-!
# C16  Signals interrupting a wait are invisible

`PollAns.eintr d` is a `poll` that returns `-1/EINTR` after `d` virtual milliseconds
because a signal handler ran.  Since fix F2 `Wait` re-issues the poll (unlimited and
zero timeouts unchanged, limited ones with the time remaining until the original
deadline).  Every blocking operation of the library goes through `wait`
(`WaitReadable`/`WaitWritable`/`Wait(pfds)`), so these theorems cover them all.
-/
namespace SockModel.SendLoop
open SockModel.Deadline

/-- "does not make the call fail": whatever the number and timing of signal deliveries, a wait
ends in an exception only if some `poll` genuinely failed (an answer `fail e` in the script). -/
theorem eintr_never_throws (T : Int) (os : Os) (hs : ∀ a ∈ os.polls, ∀ e, a ≠ .fail e) :
    ∀ e, (wait T os).1 ≠ .exn (.system e) := by
  intro e
  unfold wait
  split
  · exact waitFixed_no_fail _ _ os hs e
  · exact waitLimited_no_fail _ _ os hs e

/-- the answer that decides an unlimited wait: the first one that is not a signal -/
def firstAns : List PollAns → Res Bool
  | [] => .exn .exhausted
  | .eintr _ :: rest => firstAns rest
  | .ready _ :: _ => .ok true
  | .timedOut :: _ => .ok false
  | .fail e :: _ => .exn (.system e)

def isEintr : PollAns → Bool
  | .eintr _ => true
  | _ => false

theorem firstAns_strip (ps : List PollAns) : firstAns (ps.filter (fun a => !isEintr a)) = firstAns ps := by
  induction ps with
  | nil => rfl
  | cons a rest ih =>
    cases a with
    | eintr d => simp only [List.filter, isEintr, Bool.not_true]; exact ih
    | ready d => simp [List.filter, isEintr, firstAns]
    | timedOut => simp [List.filter, isEintr, firstAns]
    | fail e => simp [List.filter, isEintr, firstAns]

theorem waitFixed_neg_firstAns (t : Int) (ht : t < 0) (fuel : Nat) (os : Os) (hf : os.polls.length < fuel) :
    (waitFixed t fuel os).1 = firstAns os.polls := by
  induction fuel generalizing os with
  | zero => omega
  | succ fuel ih =>
    unfold waitFixed pollOnce
    cases hp : os.polls with
    | nil => rfl
    | cons a rest =>
      cases a with
      | ready d =>
        have hn : ¬ (t ≥ 0 ∧ (d : Int) > t) := by omega
        simp only [hn, ↓reduceIte]; rfl
      | timedOut => rfl
      | fail e => rfl
      | eintr d =>
        have hn : ¬ (t ≥ 0 ∧ (d : Int) > t) := by omega
        simp only [hn, ↓reduceIte]
        rw [ih _ (by simp only; rw [hp] at hf; simp at hf; omega)]
        rfl

/-- "returns what it would have returned without the signal" (unlimited timeout): the result of
the wait equals the result on the script from which every signal delivery was deleted - for any
number and timing of deliveries. -/
theorem eintr_invisible_unlimited (T : Int) (hT : T < 0) (hlo : -intMax ≤ T) (os : Os) :
    (wait T os).1 = (wait T { os with polls := os.polls.filter (fun a => !isEintr a) }).1 := by
  have hm : toMsec T = T := by
    unfold toMsec; rw [if_neg (by unfold intMax; omega), if_neg (by omega)]
  unfold wait
  rw [if_pos (by omega), if_pos (by omega), hm]
  rw [waitFixed_neg_firstAns T hT _ os (by omega)]
  rw [waitFixed_neg_firstAns T hT _ _ (by simp only; omega)]
  simp only
  rw [firstAns_strip]

/-- "it keeps waiting within its timeout semantics" (limited timeout): with any number of signal
deliveries the wait still never blocks longer than T in total, every re-issued poll is within the
remaining budget, and "timeout" is reported exactly at `start + T`. -/
theorem eintr_keeps_budget (T : Int) (hT : 0 < T) (hhi : T ≤ intMax) (os os' : Os) (r : Res Bool)
    (h : wait T os = (r, os')) :
    os'.now ≤ os.now + T * nsPerMs ∧ (r = .ok false → os'.now = os.now + T * nsPerMs) ∧
    (∀ p ∈ pollArgs os', p ∈ pollArgs os ∨ (0 ≤ p ∧ p ≤ T)) := by
  have hwf := wait_spec h (by unfold intMax; omega) hhi
  refine ⟨(hwf.2.2.2.2.2.2.2.1 hT).1, (hwf.2.2.2.2.2.2.2.1 hT).2, ?_⟩
  intro p hp
  rcases hwf.2.2.2.2.2.1 p hp with h | h
  · exact Or.inl h
  · right; unfold ArgOk at h; rw [if_neg (by omega), if_neg (by omega)] at h; exact h

/-- a signal delivered `d` ms into a limited wait followed by readiness `x` ms later (`d + x ≤ T`)
gives the same result and the same final clock as readiness after `d + x` ms without the signal -/
theorem eintr_then_ready_limited (T : Int) (hT : 0 < T) (hhi : T ≤ intMax) (os : Os) (d x : Nat)
    (rest : List PollAns) (hd : (d : Int) + x ≤ T) :
    (wait T { os with polls := .eintr d :: .ready x :: rest }).1 = .ok true ∧
    (wait T { os with polls := .ready (d + x) :: rest }).1 = .ok true ∧
    (wait T { os with polls := .eintr d :: .ready x :: rest }).2.now
      = (wait T { os with polls := .ready (d + x) :: rest }).2.now ∧
    (wait T { os with polls := .eintr d :: .ready x :: rest }).2.polls
      = (wait T { os with polls := .ready (d + x) :: rest }).2.polls := by
  have hk : (os.now + T * nsPerMs) - os.now = ((T.toNat : Nat) : Int) * nsPerMs := by
    rw [Int.toNat_of_nonneg (by omega)]; omega
  have hrem : (Deadline.limited os.now (os.now + T * nsPerMs)).remaining = T := by
    rw [remaining_of_multiple _ _ T.toNat hk, Int.toNat_of_nonneg (by omega)]
  have hk2 : (os.now + T * nsPerMs) - (os.now + (d : Int) * nsPerMs) = (((T - d).toNat : Nat) : Int) * nsPerMs := by
    rw [Int.toNat_of_nonneg (by omega), Int.sub_mul]; omega
  have hrem2 : (Deadline.limited (os.now + (d : Int) * nsPerMs) (os.now + T * nsPerMs)).remaining = T - d := by
    rw [remaining_of_multiple _ _ (T - d).toNat hk2, Int.toNat_of_nonneg (by omega)]
  have hm1 : toMsec T = T := toMsec_small (by omega) hhi
  have hm2 : toMsec (T - d) = T - d := toMsec_small (by omega) (by omega)
  have c1 : ¬ (T ≥ 0 ∧ (d : Int) > T) := by omega
  have c2 : ¬ (T - (d : Int) ≥ 0 ∧ (x : Int) > T - d) := by omega
  have c3 : ¬ (T ≥ 0 ∧ ((d + x : Nat) : Int) > T) := by push_cast; omega
  have hle : ¬ (T ≤ 0) := by omega
  simp only [wait, hle, ↓reduceIte, List.length_cons, waitLimited, pollOnce, hrem, hm1, c1, c3, hrem2, hm2, c2]
  refine ⟨trivial, trivial, ?_, trivial⟩
  push_cast
  rw [Int.add_mul]; omega

/-! ### the shipped behaviour (finding F2): every negative poll result became an exception -/

def legacyWait (t : Int) (os : Os) : Res Bool × Os :=
  match pollOnce t os with
  | none => (.exn .exhausted, os)
  | some (.ready _, os') => (.ok true, os')
  | some (.timedOut, os') => (.ok false, os')
  | some (.eintr _, os') => (.exn (.system 4), os')   -- EINTR surfaced as std::system_error
  | some (.fail e, os') => (.exn (.system e), os')

/-- the pre-fix wait violates `eintr_never_throws`: one signal, no failing poll, yet an exception -/
theorem legacy_eintr_throws :
    ∃ (os : Os), (∀ a ∈ os.polls, ∀ e, a ≠ .fail e) ∧ (legacyWait (-1) os).1 = .exn (.system 4) :=
  ⟨{ polls := [.eintr 0, .ready 0] }, by intro a ha e; simp at ha; rcases ha with rfl | rfl <;> simp, by decide⟩

/-! non-vacuity -/
example : (wait 50 { polls := [.eintr 10, .eintr 10, .ready 5] }).1 = .ok true := by decide
example : (wait 50 { polls := [.eintr 10, .eintr 10, .ready 5] }).2.now = 25 * nsPerMs := by decide
example : pollArgs (wait 50 { polls := [.eintr 10, .eintr 10, .timedOut] }).2 = [50, 40, 30] := by decide

end SockModel.SendLoop

/-! ## The run-time oracle is a theorem of the model (`Spec/C16.lean`) -/
namespace SockModel.Spec.C16
/-- the predicate `./check C16` evaluates on the implementation's blocking socket operations (`Spec/C16.lean`:
`specStep` = `Spec.C07.specStepM c16` - an operation that met a signal keeps its timeout semantics
(`specTimeouts`: every re-issued poll within the remaining budget, 'nothing' only at `start + T`, unlimited
stays unlimited, zero never blocks) and "a signal made X fail" (an exception although no system call failed))
accepts every trace of the model, for every history of any length and every number and timing of signal
deliveries (`PollAns.eintr d` anywhere in the scripts).  `histOk` is the domain of `Spec/C07.lean`. -/
theorem spec_holds_on_model (history : List C01.Op) (h : C07.histOk history = true) :
    ∃ s, specRun () (C01.modelTrace {} history) = .ok s :=
  model_satisfies_spec history h

/-- the clauses `./check C16` evaluates on a `Driver::Step` under injected signals (`Spec/C16.lean`: `specStepE` -
the step does not fail, its polls keep the timeout semantics, and with `T > 0` and no event it returns no
earlier than `T` after it was entered) accept the observations of the model (`wait T` on the scripted poll
answers) for every timeout `T < 2^31` ms and every script without a genuine poll failure: any number and
timing of signal deliveries, readiness after any delay or never. -/
theorem spec_holds_on_model_step (T : Int) (polls : List SendLoop.PollAns) (hT : T ≤ Deadline.intMax)
    (hk : T < 0 → ∀ a ∈ polls, a ≠ SendLoop.PollAns.timedOut) (hnf : ∀ a ∈ polls, ∀ e, a ≠ SendLoop.PollAns.fail e)
    (o : StepObs) (h : modelStepObs T polls = some o) : specStepE o = none :=
  step_model_satisfies_spec T polls hT hk hnf o h
end SockModel.Spec.C16

/-! ## Source-derived tie, stage 2 (DESIGN.md §0.7): the EINTR retry loops

`SockModel.Gen.DoPollUninterrupted`, `Gen.Wait`, `Gen.WaitReadable`, `Gen.WaitWritable` (Generated/Loops.lean) are
regenerated on every run from the clang AST of src/wait.cpp: loops, calls and throws in an explicit effect style
over an abstract `Gen.World`.  The theorems below run them in the model's own world (`GenWorld.osWorld`: the answer
queues of `SendLoop.Os`) and state that, for EVERY script, clock value and `errno` state and every fuel above the
number of scripted `poll` answers, they produce the result and the final OS (calls made with their arguments,
clock, rest of the script) of the hand-written `SendLoop.wait`.  The loop proofs are by induction on the iteration
budget with all other loop arguments generalised away and the loop definitions unfolded by `simp` only where they
are applied to a successor, so that a rotated / restructured retry loop is re-proved by the same script. -/
namespace SockModel.Props.C16
open SockModel SockModel.SendLoop SockModel.Deadline SockModel.GenWorld

theorem gen_toMsec (c : Int) : Gen.ToMsec c = toMsec c := by
  simp only [Gen.ToMsec, toMsec, intMax, Int.bmod_eq_emod]
  tie_arith

theorem gen_remaining (now dl : Int) : Gen.DeadlineLimited_Remaining now dl = (Deadline.limited now dl).remaining := by
  simp only [Gen.DeadlineLimited_Remaining, Deadline.remaining, toMs, nsPerMs]
  tie_arith

theorem pollOnce_polls {t : Int} {os os' : Os} {a : PollAns} (h : pollOnce t os = some (a, os')) :
    os.polls.length = os'.polls.length + 1 := by
  unfold pollOnce at h
  cases hp : os.polls with
  | nil => simp [hp] at h
  | cons x rest =>
    simp only [hp] at h
    cases x <;> dsimp only at h <;> (try split at h) <;>
      simp only [Option.some.injEq, Prod.mk.injEq] at h <;> obtain ⟨_, rfl⟩ := h <;> (try split) <;> simp

/-- what `DoPollUninterrupted` returns, in terms of the model's verdict on the same script -/
def PollRel (g : Gen.Res Int × WSt) (m : Res Bool × Os) : Prop :=
  g.2.os = m.2 ∧
  match m.1 with
  | .ok true => g.1 = .ok 1
  | .ok false => g.1 = .ok 0
  | .exn (.system e) => g.1 = .ok (-1) ∧ g.2.intr = false ∧ g.2.errno = e
  | .exn .exhausted => g.1 = .halted
  | .exn _ => False

/-- one poll of the script, seen from the generated code and from the model: closes the non-recursive
cases of a retry loop and rewrites the recursive one to the induction hypothesis -/
macro "tie_poll_cases" hp:ident ih:ident os:ident : tactic => `(tactic| (
  first
  | (simp [PollRel, Gen.M.pure, Gen.M.bind, Gen.M.halt, $hp:ident]; done)
  | (have hl := pollOnce_polls $hp:ident
     have ih' := $ih:ident $os:ident true 4 (by omega)
     simp [Gen.M.pure, Gen.M.bind, hl, Gen.Clocked_Tick, $hp:ident, doPoll_eq, gen_toMsec, gen_remaining] at ih' ⊢
     exact ih')))

/-- `DoPollUninterrupted` run against a script answers what the model's `wait` answers (both branches; the
loops by induction on the iteration budget, all their other arguments generalised away; the loop definitions
are only ever unfolded by `simp` where they are applied to a successor, so a rotated loop is treated alike) -/
theorem doPollUninterrupted_rel (data : Bytes) (fuel : Nat) (t : Int) (os : Os) (i : Bool) (e : Nat)
    (hf : os.polls.length < fuel) :
    PollRel (Gen.DoPollUninterrupted (osWorld data) fuel t ⟨os, i, e⟩) (wait t os) := by
  have hn : os.polls.length < Gen.loopFuel fuel := hf
  clear hf
  unfold Gen.DoPollUninterrupted wait
  split
  · try simp only [gen_toMsec]
    generalize Gen.loopFuel fuel = n at hn ⊢
    induction n generalizing os i e with
    | zero => omega
    | succ n ih =>
      rw [waitFixed]
      simp only [Gen.M.bind, doPoll_eq, gen_toMsec, Gen.DoPollUninterrupted_loop1]
      cases hp : pollOnce (toMsec t) os with
      | none => simp [PollRel]
      | some p =>
        obtain ⟨a, os'⟩ := p
        cases a <;> tie_poll_cases hp ih os'
  · simp only [Gen.M.bind, Gen.Clocked_ctor_now, clockNow_eq, Gen.M.pure, Gen.DeadlineLimited_deadline, nsPerMs]
    generalize os.now + t * 1000000 = dl
    generalize Gen.loopFuel fuel = n at hn ⊢
    induction n generalizing os i e with
    | zero => omega
    | succ n ih =>
      rw [waitLimited]
      simp only [Gen.M.bind, doPoll_eq, gen_toMsec, gen_remaining, Gen.DoPollUninterrupted_loop2]
      cases hp : pollOnce (toMsec (Deadline.limited os.now dl).remaining) os with
      | none => simp [PollRel]
      | some p =>
        obtain ⟨a, os'⟩ := p
        cases a <;> tie_poll_cases hp ih os'

/-- a function that polls through `DoPollUninterrupted` and turns its result into "ready / timeout / throw"
(`WaitReadable`, `WaitWritable`, the driver's `Wait(pfds, timeout)`; the file-local helpers they are written with -
`Wait(fd, events, timeout)`, `CheckPollResult(..)` - are inlined by the translator): unfold it, replace the result of
`DoPollUninterrupted` by what `doPollUninterrupted_rel` says about it, and decide every generated `if` on the
three possible results 1, 0, -1 -/
macro "tie_wait_fn" fn:ident data:ident fuel:ident t:ident os:ident i:ident e:ident hf:ident : tactic => `(tactic| (
  have h := doPollUninterrupted_rel $data $fuel $t $os $i $e $hf
  simp only [$fn:ident, Gen.M.bind]
  generalize Gen.DoPollUninterrupted (osWorld $data) $fuel $t ⟨$os, $i, $e⟩ = g at h ⊢
  generalize wait $t $os = m at h ⊢
  obtain ⟨gr, gw⟩ := g
  obtain ⟨mr, mo⟩ := m
  obtain ⟨h1, h2⟩ := h
  simp only at h1 h2
  subst h1
  cases mr with
  | ok b => cases b <;> simp only at h2 <;> subst h2 <;> simp [Gen.M.pure, Gen.M.bind, resOf]
  | exn x =>
    cases x <;> simp only at h2
    · obtain ⟨h3, hi, h4⟩ := h2
      subst h3
      subst h4
      simp [Gen.M.pure, Gen.M.bind, Gen.M.throw, resOf, exnOf]
    · subst h2; simp [resOf]))

/-- **tie of `WaitReadable`** (and through it `DoPollUninterrupted`, `ToMsec`, `DeadlineLimited`, `Clocked`) -/
theorem tie_WaitReadable (data : Bytes) (fuel : Nat) (t : Int) (os : Os) (i : Bool) (e : Nat) (hf : os.polls.length < fuel) :
    (resOf id (Gen.WaitReadable (osWorld data) fuel t ⟨os, i, e⟩).1, (Gen.WaitReadable (osWorld data) fuel t ⟨os, i, e⟩).2.os)
      = wait t os := by
  tie_wait_fn Gen.WaitReadable data fuel t os i e hf

/-- **tie of `WaitWritable`** -/
theorem tie_WaitWritable (data : Bytes) (fuel : Nat) (t : Int) (os : Os) (i : Bool) (e : Nat) (hf : os.polls.length < fuel) :
    (resOf id (Gen.WaitWritable (osWorld data) fuel t ⟨os, i, e⟩).1, (Gen.WaitWritable (osWorld data) fuel t ⟨os, i, e⟩).2.os)
      = wait t os := by
  tie_wait_fn Gen.WaitWritable data fuel t os i e hf

/-- **tie of `Wait(std::vector<pollfd> &, timeout)`**, the driver's wait: the same statement -/
theorem tie_WaitPfds (data : Bytes) (fuel : Nat) (t : Int) (os : Os) (i : Bool) (e : Nat) (hf : os.polls.length < fuel) :
    (resOf id (Gen.WaitPfds (osWorld data) fuel t ⟨os, i, e⟩).1, (Gen.WaitPfds (osWorld data) fuel t ⟨os, i, e⟩).2.os)
      = wait t os := by
  tie_wait_fn Gen.WaitPfds data fuel t os i e hf

/-- the ties in the form the callers' proofs use: the final world is the model's final OS (with some `errno`
state), the outcome is the model's outcome -/
theorem waitReadable_run (data : Bytes) (fuel : Nat) (t : Int) (os : Os) (i : Bool) (e : Nat) (hf : os.polls.length < fuel) :
    ∃ g i' e', Gen.WaitReadable (osWorld data) fuel t ⟨os, i, e⟩ = (g, ⟨(wait t os).2, i', e'⟩) ∧ resOf id g = (wait t os).1 := by
  have h := tie_WaitReadable data fuel t os i e hf
  generalize Gen.WaitReadable (osWorld data) fuel t ⟨os, i, e⟩ = r at h
  obtain ⟨g, ⟨o, i', e'⟩⟩ := r
  refine ⟨g, i', e', ?_, ?_⟩
  · have : o = (wait t os).2 := by rw [← h]
    rw [this]
  · rw [← h]

theorem waitWritable_run (data : Bytes) (fuel : Nat) (t : Int) (os : Os) (i : Bool) (e : Nat) (hf : os.polls.length < fuel) :
    ∃ g i' e', Gen.WaitWritable (osWorld data) fuel t ⟨os, i, e⟩ = (g, ⟨(wait t os).2, i', e'⟩) ∧ resOf id g = (wait t os).1 := by
  have h := tie_WaitWritable data fuel t os i e hf
  generalize Gen.WaitWritable (osWorld data) fuel t ⟨os, i, e⟩ = r at h
  obtain ⟨g, ⟨o, i', e'⟩⟩ := r
  refine ⟨g, i', e', ?_, ?_⟩
  · have : o = (wait t os).2 := by rw [← h]
    rw [this]
  · rw [← h]
end SockModel.Props.C16

import SockModel.Model.SendLoopLemmas
/-!
# C16  Signals interrupting a wait are invisible

`PollAns.eintr d` is a `poll` that returns `-1/EINTR` after `d` virtual milliseconds
because a signal handler ran.  Since fix F2 `Wait` re-issues the poll (unlimited and
zero timeouts unchanged, limited ones with the time remaining until the original
deadline).  Every blocking operation of the library goes through `wait`
(`WaitReadable`/`WaitWritable`/`Wait(pfds)`), so these theorems cover them all.
-/
namespace SockModel.SendLoop
open SockModel.Deadline

/-- "does not make the call fail": whatever the number and timing of signal deliveries, a wait
ends in an exception only if some `poll` genuinely failed (an answer `fail e` in the script). -/
theorem eintr_never_throws (T : Int) (os : Os) (hs : ∀ a ∈ os.polls, ∀ e, a ≠ .fail e) :
    ∀ e, (wait T os).1 ≠ .exn (.system e) := by
  intro e
  unfold wait
  split
  · exact waitFixed_no_fail _ _ os hs e
  · exact waitLimited_no_fail _ _ os hs e

/-- the answer that decides an unlimited wait: the first one that is not a signal -/
def firstAns : List PollAns → Res Bool
  | [] => .exn .exhausted
  | .eintr _ :: rest => firstAns rest
  | .ready _ :: _ => .ok true
  | .timedOut :: _ => .ok false
  | .fail e :: _ => .exn (.system e)

def isEintr : PollAns → Bool
  | .eintr _ => true
  | _ => false

theorem firstAns_strip (ps : List PollAns) : firstAns (ps.filter (fun a => !isEintr a)) = firstAns ps := by
  induction ps with
  | nil => rfl
  | cons a rest ih =>
    cases a with
    | eintr d => simp only [List.filter, isEintr, Bool.not_true]; exact ih
    | ready d => simp [List.filter, isEintr, firstAns]
    | timedOut => simp [List.filter, isEintr, firstAns]
    | fail e => simp [List.filter, isEintr, firstAns]

theorem waitFixed_neg_firstAns (t : Int) (ht : t < 0) (fuel : Nat) (os : Os) (hf : os.polls.length < fuel) :
    (waitFixed t fuel os).1 = firstAns os.polls := by
  induction fuel generalizing os with
  | zero => omega
  | succ fuel ih =>
    unfold waitFixed pollOnce
    cases hp : os.polls with
    | nil => rfl
    | cons a rest =>
      cases a with
      | ready d =>
        have hn : ¬ (t ≥ 0 ∧ (d : Int) > t) := by omega
        simp only [hn, ↓reduceIte]; rfl
      | timedOut => rfl
      | fail e => rfl
      | eintr d =>
        have hn : ¬ (t ≥ 0 ∧ (d : Int) > t) := by omega
        simp only [hn, ↓reduceIte]
        rw [ih _ (by simp only; rw [hp] at hf; simp at hf; omega)]
        rfl

/-- "returns what it would have returned without the signal" (unlimited timeout): the result of
the wait equals the result on the script from which every signal delivery was deleted - for any
number and timing of deliveries. -/
theorem eintr_invisible_unlimited (T : Int) (hT : T < 0) (hlo : -intMax ≤ T) (os : Os) :
    (wait T os).1 = (wait T { os with polls := os.polls.filter (fun a => !isEintr a) }).1 := by
  have hm : toMsec T = T := by
    unfold toMsec; rw [if_neg (by unfold intMax; omega), if_neg (by omega)]
  unfold wait
  rw [if_pos (by omega), if_pos (by omega), hm]
  rw [waitFixed_neg_firstAns T hT _ os (by omega)]
  rw [waitFixed_neg_firstAns T hT _ _ (by simp only; omega)]
  simp only
  rw [firstAns_strip]

/-- "it keeps waiting within its timeout semantics" (limited timeout): with any number of signal
deliveries the wait still never blocks longer than T in total, every re-issued poll is within the
remaining budget, and "timeout" is reported exactly at `start + T`. -/
theorem eintr_keeps_budget (T : Int) (hT : 0 < T) (hhi : T ≤ intMax) (os os' : Os) (r : Res Bool)
    (h : wait T os = (r, os')) :
    os'.now ≤ os.now + T * nsPerMs ∧ (r = .ok false → os'.now = os.now + T * nsPerMs) ∧
    (∀ p ∈ pollArgs os', p ∈ pollArgs os ∨ (0 ≤ p ∧ p ≤ T)) := by
  have hwf := wait_spec h (by unfold intMax; omega) hhi
  refine ⟨(hwf.2.2.2.2.2.2.2.1 hT).1, (hwf.2.2.2.2.2.2.2.1 hT).2, ?_⟩
  intro p hp
  rcases hwf.2.2.2.2.2.1 p hp with h | h
  · exact Or.inl h
  · right; unfold ArgOk at h; rw [if_neg (by omega), if_neg (by omega)] at h; exact h

/-- a signal delivered `d` ms into a limited wait followed by readiness `x` ms later (`d + x ≤ T`)
gives the same result and the same final clock as readiness after `d + x` ms without the signal -/
theorem eintr_then_ready_limited (T : Int) (hT : 0 < T) (hhi : T ≤ intMax) (os : Os) (d x : Nat)
    (rest : List PollAns) (hd : (d : Int) + x ≤ T) :
    (wait T { os with polls := .eintr d :: .ready x :: rest }).1 = .ok true ∧
    (wait T { os with polls := .ready (d + x) :: rest }).1 = .ok true ∧
    (wait T { os with polls := .eintr d :: .ready x :: rest }).2.now
      = (wait T { os with polls := .ready (d + x) :: rest }).2.now ∧
    (wait T { os with polls := .eintr d :: .ready x :: rest }).2.polls
      = (wait T { os with polls := .ready (d + x) :: rest }).2.polls := by
  have hk : (os.now + T * nsPerMs) - os.now = ((T.toNat : Nat) : Int) * nsPerMs := by
    rw [Int.toNat_of_nonneg (by omega)]; omega
  have hrem : (Deadline.limited os.now (os.now + T * nsPerMs)).remaining = T := by
    rw [remaining_of_multiple _ _ T.toNat hk, Int.toNat_of_nonneg (by omega)]
  have hk2 : (os.now + T * nsPerMs) - (os.now + (d : Int) * nsPerMs) = (((T - d).toNat : Nat) : Int) * nsPerMs := by
    rw [Int.toNat_of_nonneg (by omega), Int.sub_mul]; omega
  have hrem2 : (Deadline.limited (os.now + (d : Int) * nsPerMs) (os.now + T * nsPerMs)).remaining = T - d := by
    rw [remaining_of_multiple _ _ (T - d).toNat hk2, Int.toNat_of_nonneg (by omega)]
  have hm1 : toMsec T = T := toMsec_small (by omega) hhi
  have hm2 : toMsec (T - d) = T - d := toMsec_small (by omega) (by omega)
  have c1 : ¬ (T ≥ 0 ∧ (d : Int) > T) := by omega
  have c2 : ¬ (T - (d : Int) ≥ 0 ∧ (x : Int) > T - d) := by omega
  have c3 : ¬ (T ≥ 0 ∧ ((d + x : Nat) : Int) > T) := by push_cast; omega
  have hle : ¬ (T ≤ 0) := by omega
  simp only [wait, hle, ↓reduceIte, List.length_cons, waitLimited, pollOnce, hrem, hm1, c1, c3, hrem2, hm2, c2]
  refine ⟨trivial, trivial, ?_, trivial⟩
  push_cast
  rw [Int.add_mul]; omega

/-! ### the shipped behaviour (finding F2): every negative poll result became an exception -/

def legacyWait (t : Int) (os : Os) : Res Bool × Os :=
  match pollOnce t os with
  | none => (.exn .exhausted, os)
  | some (.ready _, os') => (.ok true, os')
  | some (.timedOut, os') => (.ok false, os')
  | some (.eintr _, os') => (.exn (.system 4), os')   -- EINTR surfaced as std::system_error
  | some (.fail e, os') => (.exn (.system e), os')

/-- the pre-fix wait violates `eintr_never_throws`: one signal, no failing poll, yet an exception -/
theorem legacy_eintr_throws :
    ∃ (os : Os), (∀ a ∈ os.polls, ∀ e, a ≠ .fail e) ∧ (legacyWait (-1) os).1 = .exn (.system 4) :=
  ⟨{ polls := [.eintr 0, .ready 0] }, by intro a ha e; simp at ha; rcases ha with rfl | rfl <;> simp, by decide⟩

/-! non-vacuity -/
example : (wait 50 { polls := [.eintr 10, .eintr 10, .ready 5] }).1 = .ok true := by decide
example : (wait 50 { polls := [.eintr 10, .eintr 10, .ready 5] }).2.now = 25 * nsPerMs := by decide
example : pollArgs (wait 50 { polls := [.eintr 10, .eintr 10, .timedOut] }).2 = [50, 40, 30] := by decide

end SockModel.SendLoop

import SockModel.Model.Lifecycle
namespace SockModel.Lifecycle
/-- placeholder obligation replaced below -/
theorem legacy_wantsend_ub :
    (run .legacy {} [.mkDriver 0, .mkSock 0 .tcp 0 false false false, .peerClose 0, .step 0, .step 0, .send 0]).ub
      = some "AsyncWantSend writes through pfds.end()" := rfl
end SockModel.Lifecycle

import SockModel.Model.LifecycleLemmas
/-!
# C17  Every legal API history on driver, sockets and ToDos is memory-safe

Property theorems only (invariants are in `Model/LifecycleLemmas.lean`).  Histories are lists of
`Op` of any length over any number of drivers, sockets and ToDos; `legal` encodes the usage rules
(pools outlive their buffers, no self-destruction in the receive handler, objects are used while
they exist) and never looks at the model's `ub` flag.
-/
namespace SockModel.Lifecycle

/-- "Any sequence of public operations that respects the usage rules ... is free of undefined
behaviour in every lifecycle state": sending on a socket whose peer already disconnected,
destroying a socket inside its disconnect handler or with sends pending, destroying the driver
before or after its sockets and ToDos, cancelling or shifting finished ToDos, stepping an empty
driver are all legal histories.  (Invariant: `sockets`/`pfds` stay parallel; every socket listed by
a live driver is alive and belongs to it; weak driver references are checked before use.) -/
theorem legal_never_ub (h : List Op) (hl : legal h = true) : (run .fixed {} h).ub = none :=
  (LInv.init.run h hl).ub

/-- the structural invariant itself, for every legal history: the two vectors of every driver are
in step and list only live sockets of that driver, without duplicates -/
theorem legal_vectors_parallel (h : List Op) (hl : legal h = true) (d : Nat) :
    let s := run .fixed {} h
    (s.drv d).pfds.map (·.1) = (s.drv d).sockets ∧ (s.drv d).sockets.Nodup ∧
    ((s.drv d).alive = true → ∀ x ∈ (s.drv d).sockets, (s.sock x).alive = true ∧ (s.sock x).drv = d) := by
  have hi := LInv.init.run h hl
  exact ⟨hi.par d, hi.nodup d, fun ha x hx => hi.reg d x ha hx⟩

/-- "Futures of sends that can no longer happen are released as broken promises when the socket is
destroyed, never left dangling": after *any* history (legal or not, fixed or pre-fix variant), no
future of a socket that does not exist any more is pending. -/
theorem futures_not_dangling (v : Variant) (h : List Op) (x j : Nat) (st : Fut) :
    let s := run v {} h
    (s.sock x).alive = false → s.futs j = some (x, st) → st ≠ .pending := by
  intro s hdead hj hp
  subst hp
  have := (FInv.init.run v h).fd j x hj
  rw [hdead] at this
  cases this.1

/-- and while the socket lives, a pending future is exactly a queued send (it will be resolved by
the driver or broken by the destructor) -/
theorem pending_is_queued (v : Variant) (h : List Op) (x j : Nat) :
    let s := run v {} h
    s.futs j = some (x, .pending) → (s.sock x).alive = true ∧ j ∈ (s.sock x).sendQ :=
  fun hj => (FInv.init.run v h).fd j x hj

/-! ### destruction in any order -/

def isDestroy : Op → Bool
  | .destroySock _ | .destroyDriver _ | .dropTodo _ => true
  | _ => false

theorem legalFrom_append (v : Variant) (s : St) (a b : List Op) :
    legalFrom v s (a ++ b) = (legalFrom v s a && legalFrom v (run v s a) b) := by
  induction a generalizing s with
  | nil => simp [legalFrom, run]
  | cons op rest ih => simp [legalFrom, run, ih, Bool.and_assoc]

theorem run_append (v : Variant) (s : St) (a b : List Op) : run v s (a ++ b) = run v (run v s a) b := by
  induction a generalizing s with
  | nil => rfl
  | cons op rest ih => simp [run, ih]

theorem destroySockObj_other (s : St) (i : Nat) :
    (∀ j, j ≠ i → (s.destroySockObj i).sock j = s.sock j) ∧
    (∀ d, ((s.destroySockObj i).drv d).alive = (s.drv d).alive) ∧ (s.destroySockObj i).todo = s.todo := by
  unfold St.destroySockObj
  simp only
  refine ⟨?_, ?_, ?_⟩
  · intro j hj
    rw [setSock_other _ _ hj]
    split <;> split <;> split <;> rfl
  · intro d
    show ((St.setSock _ i _).drv d).alive = _
    split <;> split <;> split <;> first
      | rfl
      | (simp only [St.fail, St.setSock, St.setDrv]
         by_cases hd : d = (s.sock i).drv
         · subst hd; simp [Drv.unregister]
         · simp [hd])
  · split <;> split <;> split <;> rfl

/-- a destroy operation does not take away the legality of a different destroy operation -/
theorem destroy_preserves_legal (s : St) (op op' : Op) (hne : op ≠ op') (hd : isDestroy op = true) (hd' : isDestroy op' = true)
    (hl : legalOp s op' = true) : legalOp (exec .fixed s op) op' = true := by
  unfold Lifecycle.exec
  split
  · exact hl
  · cases op with
    | destroySock i =>
      simp only
      split
      · exact hl
      · obtain ⟨h1, h2, h3⟩ := destroySockObj_other s i
        cases op' with
        | destroySock j =>
          have hji : j ≠ i := fun e => hne (by rw [e])
          simp only [legalOp] at hl ⊢
          rw [h1 j hji]; exact hl
        | destroyDriver d => simp only [legalOp] at hl ⊢; rw [h2 d]; exact hl
        | dropTodo t => simp only [legalOp] at hl ⊢; rw [h3]; exact hl
        | _ => cases hd'
    | destroyDriver d =>
      simp only
      split
      · exact hl
      · cases op' with
        | destroySock j => exact hl
        | destroyDriver d' =>
          have hdd : d' ≠ d := fun e => hne (by rw [e])
          simp only [legalOp] at hl ⊢
          rw [setDrv_other _ _ hdd]; exact hl
        | dropTodo t => exact hl
        | _ => cases hd'
    | dropTodo t =>
      simp only
      split
      · exact hl
      · cases op' with
        | destroySock j => exact hl
        | destroyDriver d' => exact hl
        | dropTodo t' =>
          have htt : t' ≠ t := fun e => hne (by rw [e])
          simp only [legalOp, St.setTodo] at hl ⊢
          simp only [htt, ↓reduceIte]; exact hl
        | _ => cases hd'
    | _ => cases hd

theorem legalFrom_destroy_tail : ∀ (tail : List Op) (s : St), tail.Nodup → (∀ op ∈ tail, isDestroy op = true) →
    (∀ op ∈ tail, legalOp s op = true) → legalFrom .fixed s tail = true := by
  intro tail
  induction tail with
  | nil => intro _ _ _ _; rfl
  | cons op rest ih =>
    intro s hnd hk hl
    simp only [legalFrom, Bool.and_eq_true]
    refine ⟨hl op (by simp), ih _ (List.nodup_cons.mp hnd).2 (fun o ho => hk o (by simp [ho])) ?_⟩
    intro o ho
    have hne : op ≠ o := fun e => (List.nodup_cons.mp hnd).1 (e ▸ ho)
    exact destroy_preserves_legal s op o hne (hk op (by simp)) (hk o (by simp [ho])) (hl o (by simp [ho]))

/-- "destroying the driver before or after its sockets and ToDos": after any legal history, the
objects that exist (sockets whose receive buffers were returned, drivers, ToDo handles) may be
destroyed in **any order** - every permutation is again a legal history, hence free of undefined
behaviour, and leaves no future pending (`futures_not_dangling`). -/
theorem destroy_any_order (h tail : List Op) (hl : legal h = true) (hnd : tail.Nodup)
    (hk : ∀ op ∈ tail, isDestroy op = true) (hr : ∀ op ∈ tail, legalOp (run .fixed {} h) op = true) :
    legal (h ++ tail) = true ∧ (run .fixed {} (h ++ tail)).ub = none := by
  have hlt : legal (h ++ tail) = true := by
    unfold legal at hl ⊢
    rw [legalFrom_append, hl, Bool.true_and]
    exact legalFrom_destroy_tail tail _ hnd hk hr
  exact ⟨hlt, legal_never_ub _ hlt⟩

/-- "cancelling or shifting finished ToDos, stepping an empty driver": these only need the handle /
the driver to exist - whatever the ToDo's or the driver's state - so appending them to a legal
history gives a legal (hence UB-free) history. -/
theorem finished_todo_and_empty_step_legal (h : List Op) (hl : legal h = true) (op : Op)
    (hop : (∃ t, (op = .cancel t ∨ op = .shift t) ∧ ((run .fixed {} h).todo t).handle = true) ∨
           (∃ d, op = .step d ∧ ((run .fixed {} h).drv d).alive = true)) :
    legal (h ++ [op]) = true ∧ (run .fixed {} (h ++ [op])).ub = none := by
  have hlt : legal (h ++ [op]) = true := by
    unfold legal at hl ⊢
    rw [legalFrom_append, hl, Bool.true_and]
    simp only [legalFrom, Bool.and_true]
    rcases hop with ⟨t, (e | e), ht⟩ | ⟨d, e, hd⟩ <;> subst e <;> simpa [legalOp]
  exact ⟨hlt, legal_never_ub _ hlt⟩

/-- F3: before fix e9c24f0 `AsyncWantSend` wrote through `pfds.end()`; the legal history
[attach; peer closes; step; step; send] reaches undefined behaviour in the pre-fix variant ... -/
theorem legacy_wantsend_ub :
    legal [.mkDriver 0, .mkSock 0 .tcp 0 false false false, .peerClose 0, .step 0, .step 0, .send 0] = true ∧
    (run .legacy {} [.mkDriver 0, .mkSock 0 .tcp 0 false false false, .peerClose 0, .step 0, .step 0, .send 0]).ub
      = some "AsyncWantSend writes through pfds.end()" := ⟨rfl, rfl⟩

/-! Non-vacuity -/

/-- ... and the same history is fine after the fix; the future is released when the socket dies -/
example :
    let s := run .fixed {} [.mkDriver 0, .mkSock 0 .tcp 0 false false false, .peerClose 0, .step 0, .step 0, .send 0,
      .destroySock 0]
    s.ub = none ∧ s.futs 0 = some (0, .broken) ∧ s.log.contains (.disc 0) := ⟨rfl, rfl, rfl⟩

/-- driver destroyed first, then a socket with a pending send, then a finished ToDo is shifted -/
example : legal [.mkDriver 0, .mkSock 0 .udp 0 false false false, .mkTodo 1 0 true, .step 0, .send 0,
    .destroyDriver 0, .shift 1, .cancel 1, .destroySock 0, .dropTodo 1, .destroyPool] = true := rfl

/-- an illegal history (socket destroyed while a receive buffer is held) does reach `ub` -/
example : (run .fixed {} [.mkDriver 0, .mkSock 0 .udp 0 false true false, .peerSend 0, .step 0, .destroySock 0]).ub
    = some "socket destroyed while receive buffers of its pool are still held" := rfl

end SockModel.Lifecycle

import SockModel.Model.LifecycleLemmas
import SockModel.Spec.C17
/-!
# C17  Every legal API history on driver, sockets and ToDos is memory-safe

Property theorems only (invariants are in `Model/LifecycleLemmas.lean`).  Histories are lists of
`Op` of any length over any number of drivers, sockets and ToDos; `legal` encodes the usage rules
(pools outlive their buffers, no self-destruction in the receive handler, objects are used while
they exist) and never looks at the model's `ub` flag.
-/
namespace SockModel.Lifecycle

/-- "Any sequence of public operations that respects the usage rules ... is free of undefined
behaviour in every lifecycle state": sending on a socket whose peer already disconnected,
destroying a socket inside its disconnect handler or with sends pending, destroying the driver
before or after its sockets and ToDos, cancelling or shifting finished ToDos, stepping an empty
driver are all legal histories.  (Invariant: `sockets`/`pfds` stay parallel; every socket listed by
a live driver is alive and belongs to it; weak driver references are checked before use.) -/
theorem legal_never_ub (h : List Op) (hl : legal h = true) : (run .fixed {} h).ub = none :=
  (LInv.init.run h hl).ub

/-- the structural invariant itself, for every legal history: the two vectors of every driver are
in step and list only live sockets of that driver, without duplicates -/
theorem legal_vectors_parallel (h : List Op) (hl : legal h = true) (d : Nat) :
    let s := run .fixed {} h
    (s.drv d).pfds.map (·.1) = (s.drv d).sockets ∧ (s.drv d).sockets.Nodup ∧
    ((s.drv d).alive = true → ∀ x ∈ (s.drv d).sockets, (s.sock x).alive = true ∧ (s.sock x).drv = d) := by
  have hi := LInv.init.run h hl
  exact ⟨hi.par d, hi.nodup d, fun ha x hx => hi.reg d x ha hx⟩

/-- "Futures of sends that can no longer happen are released as broken promises when the socket is
destroyed, never left dangling": after *any* history (legal or not, fixed or pre-fix variant), no
future of a socket that does not exist any more is pending. -/
theorem futures_not_dangling (v : Variant) (h : List Op) (x j : Nat) (st : Fut) :
    let s := run v {} h
    (s.sock x).alive = false → s.futs j = some (x, st) → st ≠ .pending := by
  intro s hdead hj hp
  subst hp
  have := (FInv.init.run v h).fd j x hj
  rw [hdead] at this
  cases this.1

/-- and while the socket lives, a pending future is exactly a queued send (it will be resolved by
the driver or broken by the destructor) -/
theorem pending_is_queued (v : Variant) (h : List Op) (x j : Nat) :
    let s := run v {} h
    s.futs j = some (x, .pending) → (s.sock x).alive = true ∧ j ∈ (s.sock x).sendQ :=
  fun hj => (FInv.init.run v h).fd j x hj

/-! ### destruction in any order -/

/-! (`isDestroy`, `legalFrom_append`, `run_append`, `destroy_preserves_legal`, `legalFrom_destroy_tail`: helper lemmas in
`Model/LifecycleLemmas.lean`) -/

/-- "destroying the driver before or after its sockets and ToDos": after any legal history, the
objects that exist (sockets whose receive buffers were returned, drivers, ToDo handles) may be
destroyed in **any order** - every permutation is again a legal history, hence free of undefined
behaviour, and leaves no future pending (`futures_not_dangling`). -/
theorem destroy_any_order (h tail : List Op) (hl : legal h = true) (hnd : tail.Nodup)
    (hk : ∀ op ∈ tail, isDestroy op = true) (hr : ∀ op ∈ tail, legalOp (run .fixed {} h) op = true) :
    legal (h ++ tail) = true ∧ (run .fixed {} (h ++ tail)).ub = none := by
  have hlt : legal (h ++ tail) = true := by
    unfold legal at hl ⊢
    rw [legalFrom_append, hl, Bool.true_and]
    exact legalFrom_destroy_tail tail _ hnd hk hr
  exact ⟨hlt, legal_never_ub _ hlt⟩

/-- "cancelling or shifting finished ToDos, stepping an empty driver": these only need the handle /
the driver to exist - whatever the ToDo's or the driver's state - so appending them to a legal
history gives a legal (hence UB-free) history. -/
theorem finished_todo_and_empty_step_legal (h : List Op) (hl : legal h = true) (op : Op)
    (hop : (∃ t, (op = .cancel t ∨ op = .shift t) ∧ ((run .fixed {} h).todo t).handle = true) ∨
           (∃ d, op = .step d ∧ ((run .fixed {} h).drv d).alive = true)) :
    legal (h ++ [op]) = true ∧ (run .fixed {} (h ++ [op])).ub = none := by
  have hlt : legal (h ++ [op]) = true := by
    unfold legal at hl ⊢
    rw [legalFrom_append, hl, Bool.true_and]
    simp only [legalFrom, Bool.and_true]
    rcases hop with ⟨t, (e | e), ht⟩ | ⟨d, e, hd⟩ <;> subst e <;> simpa [legalOp]
  exact ⟨hlt, legal_never_ub _ hlt⟩

/-- F3: before fix e9c24f0 `AsyncWantSend` wrote through `pfds.end()`; the legal history
[attach; peer closes; step; step; send] reaches undefined behaviour in the pre-fix variant ... -/
theorem legacy_wantsend_ub :
    legal [.mkDriver 0, .mkSock 0 .tcp 0 false false false, .peerClose 0, .step 0, .step 0, .send 0] = true ∧
    (run .legacy {} [.mkDriver 0, .mkSock 0 .tcp 0 false false false, .peerClose 0, .step 0, .step 0, .send 0]).ub
      = some "AsyncWantSend writes through pfds.end()" := ⟨rfl, rfl⟩

/-- the predicate `./check C17` evaluates on the implementation's observations (`Spec/C17.lean`: `specStep` with
`observe1`, `checkDangling`, and `specEnd`: no crash, no handler of a destroyed socket, no future reported twice
or still pending, after every operation no future of a destroyed socket unreported, the history reaches its end)
accepts every trace of the model (`modelTrace`: `exec` for every operation that `legalOp` allows, a refusal -
as by the harness - for every other one, `run` over the harness' final destruction sequence `implicitEnd`; a
crash wherever the model reaches undefined behaviour), for every history of any length, legal or not, and every
answer `accept` of the kernel to writes towards a peer that has closed.  No hypothesis.  Consequences used in
the proof: the final destruction sequence is a legal continuation of every reachable state (`end_legal`) and
leaves no socket alive and no future pending; every logged future event is a resolution of a pending future of
a queued send (`LogInv`). -/
theorem spec_holds_on_model (accept : Nat → Bool) (history : List Op) :
    ∃ s, specRun {} (modelTrace accept {} history) = .ok s ∧ specEnd s = .ok () :=
  model_satisfies_spec accept history

/-! Non-vacuity -/

/-- ... and the same history is fine after the fix; the future is released when the socket dies -/
example :
    let s := run .fixed {} [.mkDriver 0, .mkSock 0 .tcp 0 false false false, .peerClose 0, .step 0, .step 0, .send 0,
      .destroySock 0]
    s.ub = none ∧ s.futs 0 = some (0, .broken) ∧ s.log.contains (.disc 0) := ⟨rfl, rfl, rfl⟩

/-- driver destroyed first, then a socket with a pending send, then a finished ToDo is shifted -/
example : legal [.mkDriver 0, .mkSock 0 .udp 0 false false false, .mkTodo 1 0 true, .step 0, .send 0,
    .destroyDriver 0, .shift 1, .cancel 1, .destroySock 0, .dropTodo 1, .destroyPool] = true := rfl

/-- the echo idiom: the received buffer (of the socket's own pool) is handed back to `Send`; with it queued the
user holds nothing, so destroying the socket is legal - the future is released as a broken promise.  (That the
real destructor can still give the queued buffer back to the receive pool is a matter of member destruction
order, below the model: see `Op.echo`; the harness runs such histories on the real code under ASan.) -/
example :
    let h : List Op := [.mkDriver 0, .mkSock 0 .tcp 0 false true false, .peerSend 0, .step 0, .echo 0, .destroySock 0]
    legal h = true ∧ (run .fixed {} h).ub = none ∧ (run .fixed {} h).futs 0 = some (0, .broken) := ⟨rfl, rfl, rfl⟩

/-- an echo does not take a buffer of the user's send pool: four echoes/sends pending plus ... the pool may be
destroyed while an echo is pending, and the socket afterwards -/
example : legal [.mkDriver 0, .mkSock 0 .udp 0 false true false, .peerSend 0, .step 0, .echo 0, .destroyPool,
    .destroySock 0] = true := rfl

/-- without a held buffer there is nothing to echo -/
example : legal [.mkDriver 0, .mkSock 0 .tcp 0 false true false, .echo 0] = false := rfl

/-- an illegal history (socket destroyed while a receive buffer is held) does reach `ub` -/
example : (run .fixed {} [.mkDriver 0, .mkSock 0 .udp 0 false true false, .peerSend 0, .step 0, .destroySock 0]).ub
    = some "socket destroyed while receive buffers of its pool are still held" := rfl

end SockModel.Lifecycle

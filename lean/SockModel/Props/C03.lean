import SockModel.Model.DispatchLemmas
import SockModel.Spec.C03
import SockModel.Generated.Funcs
import SockModel.Generated.Consts
/-!
# C03  Async events: in-order data, exactly-one disconnect, exactly-one connect

Property theorems only (model: `Model/Dispatch.lean`, invariants: `Model/DispatchLemmas.lean`).

`run order {} ops` is the state after *any* history `ops` of user operations (create client
sockets / acceptors, request a send, destroy a socket), peer operations (connect, send any
bytes, close, reset - by any number of peers in any order) and driver steps; every step takes
the OS' segmentation (`chunk`), the receive-buffer size the connect handler configures (`rx`)
and the set of sockets the invoked user handler destroys (`hdl`) as arbitrary parameters.  The
order in which several ready sockets are served is the list order of `sockets`/`pfds`, for every
such order (sockets are registered in any order by `ops`).  `s.log` is the sequence of handler
invocations.  `Consts.dispatchOrder` is the order of the readiness tests in `DoOneSocketTask`
as extracted from the source on every run.
-/
namespace SockModel.Dispatch
open SockModel.AsyncQ (Bytes)

/-- "no handler of that socket runs afterwards" / "the disconnect handler runs exactly once":
in the handler log no event of socket `s` - data, a second disconnect, connect - comes after a
disconnect of `s`; so per socket the log is `data* · disconnect?`.  For every history and every
order of the readiness tests. -/
theorem handler_shape (order : List Nat) (ops : List Op) :
    (run order {} ops).log.Pairwise
      (fun e₁ e₂ => ∀ s a r, e₁ = Event.disconnect s a r → e₂.sock ≠ s) :=
  (inv_run inv_init ops).shape

/-- "the receive handler gets every byte the peer sent, in order, in non-empty chunks no larger
than the configured buffer size": for every connection the delivered chunks, concatenated in
handler order, followed by the bytes still queued are exactly the bytes the peer sent; every
chunk has between 1 and `rxBufSize` bytes, `rxBufSize` being the size of the socket it was
delivered to. -/
theorem data_in_order (order : List Nat) (ops : List Op) :
    let s := run order {} ops
    (∀ i, dataOf i s.log ++ (s.conn i).inbox = (s.conn i).stream) ∧
    (∀ i b rx, Event.data i b rx ∈ s.log →
      1 ≤ b.length ∧ b.length ≤ rx ∧ ∃ k ∈ s.created, k.id = i ∧ k.rxSize = rx ∧ k.kind = .tcp) :=
  ⟨(inv_run inv_init ops).dataInv, (inv_run inv_init ops).chunkOk⟩

/-- "when the peer closes or the connection fails the disconnect handler runs ... after all
previously sent data was delivered": with the readiness tests in the order of the source, a
disconnect of socket `i` is in the log only if the peer has ended the connection, and then the
chunks handed to `i`'s receive handler are *all* the bytes the peer ever sent. -/
theorem disconnect_after_drain (ops : List Op) (i a : Nat) (r : Reason) :
    let s := run Consts.dispatchOrder {} ops
    Event.disconnect i a r ∈ s.log → (s.conn i).ended = true ∧ dataOf i s.log = (s.conn i).stream := by
  intro s hm
  have h : DInv s := inv_run inv_init ops
  have hd : Drained s := drained_run inv_init (fun _ _ _ hx => by simp at hx) ops
  have := hd i a r hm
  refine ⟨this.2, ?_⟩
  have hdi := h.dataInv i
  rw [this.1, List.append_nil] at hdi
  exact hdi

/-- "with the peer address the socket was created for": the address passed to the disconnect
handler is the one cached when the socket was registered (socket ids are unique), and the
socket has been unregistered *before* the handler ran. -/
theorem disconnect_address (order : List Nat) (ops : List Op) (i a : Nat) (r : Reason) :
    let s := run order {} ops
    Event.disconnect i a r ∈ s.log →
      (∃ k ∈ s.created, k.id = i ∧ k.peerAddr = a ∧ k.kind = .tcp) ∧ (s.created.map (·.id)).Nodup ∧
      i ∉ s.socks.map (·.id) := by
  intro s hm
  have h : DInv s := inv_run inv_init ops
  exact ⟨(h.addrOk i a r hm).1, h.createdNodup, (h.addrOk i a r hm).2⟩

/-- "An asynchronous acceptor invokes its connect handler exactly once per established connection,
with ... the connecting peer's address": for every acceptor `a`, the connections reported by its
connect handler (in order) followed by the ones still waiting to be accepted are exactly the
connections peers established to `a` (with their addresses, in order); connection ids are
unique, so none is reported twice and none is dropped. -/
theorem connect_exactly_once (order : List Nat) (ops : List Op) (a : Nat) :
    let s := run order {} ops
    connectsOf a s.log ++ s.backlog a = (s.made.filter (fun m => m.1 = a)).map (·.2) ∧
    (s.made.map (·.2.1)).Nodup :=
  ⟨(inv_run inv_init ops).connInv a, (inv_run inv_init ops).madeNodup⟩

/-- the mechanism C03 relies on: a readable socket is served by its readable handler whatever
else is signalled, and the error path is taken only when nothing is readable (so data and EOF
are consumed through `recv` before a hang-up is acted upon). -/
theorem dispatch_order (r : Rev) :
    (r.pin = true → pick Consts.dispatchOrder r = some .readable) ∧
    (pick Consts.dispatchOrder r = some .error → r.pin = false) ∧
    ((r.pin = true ∨ r.pout = true ∨ r.perr = true) → (pick Consts.dispatchOrder r).isSome = true) :=
  ⟨pick_consts_readable_first r, pick_consts_error_no_pin r, pick_consts_some r⟩

/-- "every byte is delivered, every closed peer gets exactly one disconnect, every established
connection exactly one connect, regardless of list position": in every reachable state, if any
registered socket is owed anything (undelivered bytes, an unreported close, an unaccepted
connection, a requested write), a step whose `poll` is not answered by the signalling pipe
performs a task, and the total owed strictly decreases - for every segmentation, every handler
behaviour and every position of the socket in the list.  Only peers and users add work. -/
theorem events_progress (ops : List Op) (chunk rx : Nat) (hdl : List Nat) :
    let s := run Consts.dispatchOrder {} ops
    0 < measure s →
      (firstTask Consts.dispatchOrder s s.socks).isSome = true ∧
      measure (stepSockets Consts.dispatchOrder s false chunk rx hdl) < measure s := by
  intro s hpos
  have h : DInv s := inv_run inv_init ops
  have hw : WInv s := winv_run inv_init (fun _ hx => by cases hx) ops
  obtain ⟨k, hk, hwk⟩ := exists_work_pos hpos
  have hsome := firstTask_some (order := Consts.dispatchOrder) hk (pick_consts_some _ (work_flag hwk))
  refine ⟨hsome, ?_⟩
  unfold stepSockets
  simp only [Bool.false_eq_true, ↓reduceIte]
  cases hf : firstTask Consts.dispatchOrder s s.socks with
  | none => rw [hf] at hsome; cases hsome
  | some p =>
    obtain ⟨k', t⟩ := p
    have := firstTask_spec hf
    exact progress_doTask h hw this.1 this.2 chunk rx hdl

/-- "All handlers run on the thread that is executing Step/Run" (model part): the handler log
changes only inside a `step`; and a step whose `poll` was answered by the signalling pipe only
unbumps. -/
theorem handlers_in_step (order : List Nat) (s : St) (op : Op) :
    (∀ pipe chunk rx hdl, op ≠ .step pipe chunk rx hdl) ∨ (∃ chunk rx hdl, op = .step true chunk rx hdl) →
    (apply order s op).log = s.log := by
  intro hop
  cases op with
  | newClient addr rx => rfl
  | newAcceptor => rfl
  | peerConnect a addr => simp only [apply]; split <;> rfl
  | peerSend c bytes => simp only [apply]; split <;> rfl
  | peerClose c => rfl
  | peerRst c => rfl
  | wantSend i => simp only [apply]; split <;> rfl
  | destroy i => rfl
  | step pipe chunk rx hdl =>
    rcases hop with hop | ⟨c, r, hd, hop⟩
    · exact absurd rfl (hop pipe chunk rx hdl)
    · cases hop; rfl

/-- exactly one task per step: at most one handler invocation is added -/
theorem one_handler_per_step (order : List Nat) (s : St) (pipe : Bool) (chunk rx : Nat) (hdl : List Nat) :
    (stepSockets order s pipe chunk rx hdl).log = s.log ∨
    ∃ e, (stepSockets order s pipe chunk rx hdl).log = s.log ++ [e] := by
  unfold stepSockets
  split
  · exact Or.inl rfl
  · split
    · exact Or.inl rfl
    · rename_i k t _
      cases t with
      | readable =>
        cases hkind : k.kind with
        | tcp =>
          simp only [doTask, hkind, driverReceive, disconnect]
          split <;> (rw [(destroyAll_fields _ hdl).2.2.2.2.1]; exact Or.inr ⟨_, rfl⟩)
        | acceptor =>
          simp only [doTask, hkind, driverConnect]
          split
          · exact Or.inl rfl
          · rw [(destroyAll_fields _ hdl).2.2.2.2.1]; exact Or.inr ⟨_, rfl⟩
      | writable => exact Or.inl rfl
      | error =>
        cases hkind : k.kind with
        | tcp =>
          simp only [doTask, hkind, disconnect]
          rw [(destroyAll_fields _ hdl).2.2.2.2.1]; exact Or.inr ⟨_, rfl⟩
        | acceptor => simp only [doTask, hkind]; exact Or.inl trivial

/-- **the whole property, as the check evaluates it on the implementation, holds on the model**: the
predicate of `Spec/C03.lean` (`Spec.specStep`: the reference book-keeping kept from the observations
alone - per connection the stream the peer sent, bytes delivered, ended, registered, gone, buffer size,
address; per acceptor the connections waiting; queued sends - which rejects a step with more than one
socket task, a handler on a foreign thread, a chunk that is empty / larger than the buffer / not the
next bytes of the stream, a disconnect of a connection the peer did not end or whose bytes are not all
delivered or with an address other than the one the socket was created for, anything after disconnect
or destruction, a connect handler that is duplicate / out of order / reports the wrong peer / hands
over the wrong socket, and a step that does nothing while something is owed to a live socket) accepts
the observations the model produces (`Spec.modelTrace`: the operations and the entries every step
appends to the model's handler log) for every history of any length, every segmentation, every
receive-buffer size and every handler-side destruction, with the readiness tests in the order of the
source.  `./check C03` runs the very same `Spec.specStep` on the transcript of the real library, so a
`spec` verdict there is a difference between library and model.  `histWf`: peers send / close / reset
only connections that exist (a precondition of the model, which keeps a channel for every id). -/
theorem spec_holds_on_model (ops : List Op) (hwf : Spec.histWf Consts.dispatchOrder {} ops = true) :
    ∃ s, Spec.specRun {} (Spec.modelTrace Consts.dispatchOrder {} ops) = .ok s :=
  Spec.model_satisfies_spec ops hwf

/-! ### non-vacuity -/

/-- a history with two accepted connections, a client, data before accept, segmentation, a queued
send, a reset, a close, a pipe wake-up, destruction inside a handler and outside -/
def specWitness : List Op :=
  [.newAcceptor, .peerConnect 0 7, .peerSend 1 [1, 2, 3], .peerConnect 0 8, .newClient 5 4, .wantSend 3, .peerRst 2,
   .step false 0 2 [], .step false 0 2 [], .step false 2 2 [], .step false 2 2 [3], .step true 0 0 [], .peerClose 1,
   .step false 2 2 [], .step false 2 2 [], .destroy 0, .step false 2 2 []]

example : Spec.histWf Consts.dispatchOrder {} specWitness = true := by decide
example : (Spec.modelTrace Consts.dispatchOrder {} specWitness).length = 16 ∧
    (run Consts.dispatchOrder {} specWitness).log =
      [.connect 0 1 7, .connect 0 2 8, .data 1 [1, 2] 2, .data 1 [3] 2, .disconnect 1 7 .eof, .disconnect 2 8 .fail] := by decide
example : (Spec.specRun {} (Spec.modelTrace Consts.dispatchOrder {} specWitness)).toOption.isSome = true := by decide

/-- the predicate is not vacuous and both hypotheses matter: with `POLLHUP|POLLERR` tested first the
model's own trace is REJECTED (disconnect before the data was delivered), and so is a trace in which a
peer sent on a connection id that did not exist yet -/
example : (Spec.specRun {} (Spec.modelTrace [2, 0, 1] {}
    [.newClient 5 4, .peerSend 0 [1, 2, 3], .peerRst 0, .step false 9 9 []])).toOption.isNone = true := by decide
example : (Spec.specRun {} (Spec.modelTrace Consts.dispatchOrder {}
    [.peerSend 0 [1, 2, 3], .newClient 5 4, .step false 9 9 []])).toOption.isNone = true := by decide

/-- two peers on one acceptor, data before accept, segmentation into 2-byte chunks, close -/
example :
    let s := run Consts.dispatchOrder {}
      [.newAcceptor, .peerConnect 0 7, .peerSend 1 [1, 2, 3], .peerConnect 0 8, .peerClose 1,
       .step false 0 2 [], .step false 0 2 [], .step false 2 2 [], .step false 2 2 [], .step false 2 2 [], .step false 2 2 []]
    s.log = [.connect 0 1 7, .connect 0 2 8, .data 1 [1, 2] 2, .data 1 [3] 2, .disconnect 1 7 .eof] ∧
      s.socks.map (·.id) = [0, 2] := by decide

/-- a handler that destroys another ready socket: that socket gets no event -/
example :
    let s := run Consts.dispatchOrder {}
      [.newClient 5 4, .newClient 6 4, .peerSend 0 [9], .peerSend 1 [8], .step false 9 1 [1], .step false 9 1 []]
    s.log = [.data 0 [9] 4] := by decide

end SockModel.Dispatch

/-! ## Source-derived tie, stage 4 (DESIGN.md §0.7.3): the dispatch chain of `DoOneSocketTask`

`SockModel.Gen.SocketTask_chain` (Generated/Funcs.lean) is the per-socket `if / else if` chain of
`Driver::DriverImpl::DoOneSocketTask(received)` as read from the clang AST of the current source: the conditions
(`pfd.revents & MASK`, `i == received`, with the macro values of the poll bits) are translated, each branch is
recognised by its exact statements.  `Consts.dispatchOrder` (regex extraction, used by the model and its theorems) stays;
the tie says that `pick Consts.dispatchOrder` IS that chain. -/
namespace SockModel.Props.C03
open SockModel SockModel.Dispatch

/-- the model's view of a `revents` word: `POLLIN` = 1, `POLLOUT` = 4, `POLLERR | POLLHUP` = 8 | 16 -/
def revOf (r : Nat) : Rev := ⟨decide (r &&& 1 ≠ 0), decide (r &&& 4 ≠ 0), decide (r &&& 24 ≠ 0)⟩

def toTask : Gen.TaskChoice → Option Task
  | .readable => some .readable
  | .writable => some .writable
  | .error => some .error
  | .next => none

/-- **tie of the dispatch chain**: the model's `pick` with the order extracted into `Consts.dispatchOrder` is the
`if / else if` chain of `DoOneSocketTask` as compiled from the current source, for every `revents` word -/
theorem tie_pick (r : Nat) : pick Consts.dispatchOrder (revOf r) = toTask (Gen.SocketTask_chain r false) := by
  simp only [Consts.dispatchOrder, pick, Gen.SocketTask_chain, revOf]
  repeat' split
  all_goals simp_all [toTask]

/-- the socket `QuerySockets` returned (`i == received`) is served as readable whatever its `revents` (the
`forcedRev` of Model/Tls.lean: `rd := true`) -/
theorem tie_pick_received (r : Nat) :
    pick Consts.dispatchOrder { revOf r with pin := true } = toTask (Gen.SocketTask_chain r true) := by
  simp only [Consts.dispatchOrder, pick, Gen.SocketTask_chain, revOf]
  repeat' split
  all_goals simp_all [toTask]
/-- ... and that chain is the order the model's theorems are about: readable before writable before error -/
theorem tie_chain_order (r : Nat) : toTask (Gen.SocketTask_chain r false) = pick [0, 1, 2] (revOf r) := by
  simp only [pick, Gen.SocketTask_chain, revOf]
  repeat' split
  all_goals simp_all [toTask]
end SockModel.Props.C03

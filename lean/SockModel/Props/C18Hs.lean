import SockModel.Model.HsSched
import SockModel.Model.HsTimed
import SockModel.Model.HsBlock
import SockModel.Model.HsAsync
import SockModel.Model.HsAsyncQ
import SockModel.Model.TlsBudget
/-!
# C18: handshake completion beyond the polling schedule

"The handshake, which is carried out lazily inside Send/Receive or by the driver, completes for every combination of
sync/async endpoints, timeout modes and **order of the two sides' calls**" (C18).

`Props/C18.lean` (`handshake_completes_partial`) proves completion for the fixed round-robin
`[c.Send, s.Receive, s.Send, c.Receive]` with timeout 0.  This file widens it (same composition: the REAL glue model
`Tls.sendT` / `Tls.receiveT` twice, reference engine `Hs.engine P`, two FIFO channels with an arbitrary segmentation
oracle; every flight size, payload, `Cfg` with `1 < stepsMax`).  The theorems are re-exported at the end of
`Props/C18.lean`, which is where the audit (`#print axioms`) looks.

## (A) any schedule of zero-timeout calls

A schedule is any list / infinite sequence of `Act`s = (client | server) × (Send | Receive n), `n ≥ 1` chosen per call.
-/
namespace SockModel.Hs.C18Hs
open SockModel.Net SockModel.Tls SockModel.Hs

/-- **per-call lemma** (the generalisation of `round_progress` from rounds to single calls).  Whoever calls and
whatever the call is: the invariant of the composition is kept (in particular `faults = 0`: the call neither threw
nor hit an assert), the measure `mu` = handshake work left on both sides does not increase, it strictly decreases if
the calling side can progress (has a flight to write, or bytes in flight towards it), stages only advance (a finished
side stays finished), and the *other* side's ability to progress is not taken away. -/
theorem call_progress (C : Cfg) (hC : 1 < C.stepsMax) (P : HsP) (dc ds : Bytes) (hdc : dc ≠ []) (hds : ds ≠ [])
    (y : Sys) (hinv : SysInv P dc ds y) (a : Act) (ha : a.ok) :
    SysInv P dc ds (y.act C P dc ds a) ∧ (y.act C P dc ds a).faults = 0 ∧
    mu P (y.act C P dc ds a) ≤ mu P y ∧
    (y.canProg a.client → mu P (y.act C P dc ds a) < mu P y) ∧
    y.ec.stage ≤ (y.act C P dc ds a).ec.stage ∧ y.es.stage ≤ (y.act C P dc ds a).es.stage ∧
    (y.canProg (!a.client) → (y.act C P dc ds a).canProg (!a.client)) := by
  have r := act_spec C hC P dc ds hdc hds y hinv a ha
  exact ⟨r.inv, r.inv.2.2.2.2.2.2, r.muLe, r.muLt, r.stC, r.stS, r.keep⟩

/-- **no deadlock, whatever happened before**: in every state the composition can be in, an unfinished handshake
leaves at least one side able to progress - so a schedule can fail to complete the handshake only by starving that
side. -/
theorem some_side_can_progress (P : HsP) (dc ds : Bytes) (y : Sys) (hinv : SysInv P dc ds y)
    (hnf : ¬ y.bothFinished) : y.canProg true ∨ y.canProg false :=
  can_progress P dc ds y hinv hnf

/-- **every finite schedule, no fairness assumed**: no call throws or asserts, stages only advance, and the measure
falls by at least the number `progCalls` of calls made by a side that could progress when it called. -/
theorem schedule_progress (C : Cfg) (hC : 1 < C.stepsMax) (P : HsP) (dc ds : Bytes) (hdc : dc ≠ []) (hds : ds ≠ [])
    (l : List Act) (hok : ∀ a ∈ l, a.ok) (y : Sys) (hinv : SysInv P dc ds y) :
    SysInv P dc ds (Sys.run C P dc ds l y) ∧ (Sys.run C P dc ds l y).faults = 0 ∧
    mu P (Sys.run C P dc ds l y) + progCalls C P dc ds l y ≤ mu P y ∧
    y.ec.stage ≤ (Sys.run C P dc ds l y).ec.stage ∧ y.es.stage ≤ (Sys.run C P dc ds l y).es.stage := by
  obtain ⟨h1, h2, h3, h4⟩ := run_spec C hC P dc ds hdc hds l y hinv hok
  exact ⟨h1, h1.2.2.2.2.2.2, h2, h3, h4⟩

/-- **handshake_completes_counting** - the weakest hypothesis: a schedule (any order, any mix of `Send` and `Receive`,
any receive sizes ≥ 1, any segmentation) completes the handshake as soon as it contains `2·(k1+k2+k3+3)` calls made by
a side that could progress at that moment; no call on the way (or after) throws or asserts. -/
theorem handshake_completes_counting (C : Cfg) (hC : 1 < C.stepsMax) (P : HsP) (dc ds : Bytes) (hdc : dc ≠ [])
    (hds : ds ≠ []) (segs : List Nat) (l : List Act) (hok : ∀ a ∈ l, a.ok)
    (hcount : P.total ≤ progCalls C P dc ds l (Sys.init P segs)) :
    (Sys.run C P dc ds l (Sys.init P segs)).bothFinished ∧ (Sys.run C P dc ds l (Sys.init P segs)).faults = 0 := by
  obtain ⟨h1, h2, _, _⟩ := run_spec C hC P dc ds hdc hds l _ (sysInv_init P dc ds segs) hok
  rw [mu_init] at h2
  exact ⟨mu_zero_fin P _ (by omega), h1.2.2.2.2.2.2⟩

/-- **handshake_completes_prog_fair** - semantic fairness with a window: if, whenever the handshake is unfinished, one
of the next `w` calls is made by a side that can progress at that moment (`ProgFair`), then after at most
`w · 2·(k1+k2+k3+3)` calls - and after every longer prefix - both sides are `init_finished`; `faults = 0` after every
prefix. -/
theorem handshake_completes_prog_fair (C : Cfg) (hC : 1 < C.stepsMax) (P : HsP) (dc ds : Bytes) (hdc : dc ≠ [])
    (hds : ds ≠ []) (segs : List Nat) (w : Nat) (l : List Act) (hok : ∀ a ∈ l, a.ok)
    (hf : ProgFair C P dc ds w l (Sys.init P segs)) (j : Nat) (hj : j ≤ l.length) :
    (Sys.run C P dc ds (l.take j) (Sys.init P segs)).faults = 0 ∧
    (P.total * w ≤ j → (Sys.run C P dc ds (l.take j) (Sys.init P segs)).bothFinished) := by
  have hinv := sysInv_init P dc ds segs
  have hokj : ∀ a ∈ l.take j, a.ok := fun a ha => hok a (List.mem_of_mem_take ha)
  refine ⟨(run_spec C hC P dc ds hdc hds _ _ hinv hokj).1.2.2.2.2.2.2, ?_⟩
  intro hB
  have hfin : (Sys.run C P dc ds (l.take (P.total * w)) (Sys.init P segs)).bothFinished := by
    rcases progFair_windows C hC P dc ds hdc hds w l _ hinv hok hf P.total (by omega) with h | h
    · exact h
    · rw [mu_init] at h; exact mu_zero_fin P _ (by omega)
  have hsplit : l.take j = l.take (P.total * w) ++ (l.drop (P.total * w)).take (j - P.total * w) := by
    have : j = P.total * w + (j - P.total * w) := by omega
    conv => lhs; rw [this, List.take_add]
  rw [hsplit, run_append]
  have hok1 : ∀ a ∈ l.take (P.total * w), a.ok := fun a ha => hok a (List.mem_of_mem_take ha)
  refine finished_kept C hC P dc ds hdc hds _ _ (run_spec C hC P dc ds hdc hds _ _ hinv hok1).1 ?_ hfin
  intro a ha
  exact hok a (List.mem_of_mem_drop (List.mem_of_mem_take ha))

/-- **handshake_completes_any_schedule** - syntactic fairness: *each side calls at least once in every window of `w`
consecutive calls* (`SideFair w`; nothing about which call - `Send` or `Receive` - nor about the order: client first,
server first, both sending first, both receiving first, one side calling `w - 1` times in a row ...).  Then after at
most `w · 2·(k1+k2+k3+3)` calls, and after every longer prefix of the schedule, both sides are `init_finished`;
no call of the schedule throws or asserts (`faults = 0` after every prefix); a finished side stays finished. -/
theorem handshake_completes_any_schedule (C : Cfg) (hC : 1 < C.stepsMax) (P : HsP) (dc ds : Bytes) (hdc : dc ≠ [])
    (hds : ds ≠ []) (segs : List Nat) (w : Nat) (l : List Act) (hok : ∀ a ∈ l, a.ok) (hf : SideFair w l)
    (j : Nat) (hj : j ≤ l.length) :
    (Sys.run C P dc ds (l.take j) (Sys.init P segs)).faults = 0 ∧
    (P.total * w ≤ j → (Sys.run C P dc ds (l.take j) (Sys.init P segs)).bothFinished) ∧
    (∀ i, i ≤ j →
      (Sys.run C P dc ds (l.take i) (Sys.init P segs)).ec.stage ≤ (Sys.run C P dc ds (l.take j) (Sys.init P segs)).ec.stage ∧
      (Sys.run C P dc ds (l.take i) (Sys.init P segs)).es.stage ≤ (Sys.run C P dc ds (l.take j) (Sys.init P segs)).es.stage) := by
  have hinv := sysInv_init P dc ds segs
  have hpf := sideFair_progFair C hC P dc ds hdc hds w l _ hinv hok hf
  obtain ⟨h1, h2⟩ := handshake_completes_prog_fair C hC P dc ds hdc hds segs w l hok hpf j hj
  refine ⟨h1, h2, ?_⟩
  intro i hi
  have hsplit : l.take j = l.take i ++ (l.drop i).take (j - i) := by
    have : j = i + (j - i) := by omega
    conv => lhs; rw [this, List.take_add]
  rw [hsplit, run_append]
  have hok1 : ∀ a ∈ l.take i, a.ok := fun a ha => hok a (List.mem_of_mem_take ha)
  have hok2 : ∀ a ∈ (l.drop i).take (j - i), a.ok :=
    fun a ha => hok a (List.mem_of_mem_drop (List.mem_of_mem_take ha))
  obtain ⟨_, _, h3, h4⟩ := run_spec C hC P dc ds hdc hds _ _ (run_spec C hC P dc ds hdc hds _ _ hinv hok1).1 hok2
  exact ⟨h3, h4⟩

/-- the windows of a prefix of an infinite schedule -/
theorem sideFair_of_inf (w : Nat) (σ : Nat → Act) (hf : SideFairInf w σ) (k : Nat) :
    SideFair w ((List.range k).map σ) := by
  intro i hi
  simp only [List.length_map, List.length_range] at hi
  have key : ∀ j, j < w → σ (i + j) ∈ (((List.range k).map σ).drop i).take w := by
    intro j hj
    have hlen : j < ((((List.range k).map σ).drop i).take w).length := by
      simp only [List.length_take, List.length_drop, List.length_map, List.length_range]; omega
    have : ((((List.range k).map σ).drop i).take w)[j]'hlen = σ (i + j) := by
      simp [List.getElem_take, List.getElem_drop]
    rw [← this]
    exact List.getElem_mem hlen
  obtain ⟨⟨j1, hj1, hc1⟩, ⟨j2, hj2, hc2⟩⟩ := hf i
  exact ⟨⟨_, key j1 hj1, hc1⟩, ⟨_, key j2 hj2, hc2⟩⟩

/-- **handshake_completes_any_infinite_schedule**: for an infinite sequence of calls in which each side calls at
least once in every window of `w` calls, every prefix of length `≥ w · 2·(k1+k2+k3+3)` leaves both sides
`init_finished`, and no call ever throws or asserts. -/
theorem handshake_completes_any_infinite_schedule (C : Cfg) (hC : 1 < C.stepsMax) (P : HsP) (dc ds : Bytes)
    (hdc : dc ≠ []) (hds : ds ≠ []) (segs : List Nat) (w : Nat) (σ : Nat → Act) (hok : ∀ i, (σ i).ok)
    (hf : SideFairInf w σ) (k : Nat) :
    (Sys.runTo C P dc ds σ k (Sys.init P segs)).faults = 0 ∧
    (P.total * w ≤ k → (Sys.runTo C P dc ds σ k (Sys.init P segs)).bothFinished) := by
  have hokl : ∀ a ∈ (List.range k).map σ, a.ok := by
    intro a ha
    obtain ⟨i, _, rfl⟩ := List.mem_map.mp ha
    exact hok i
  have hlen : ((List.range k).map σ).length = k := by simp
  obtain ⟨h1, h2, _⟩ := handshake_completes_any_schedule C hC P dc ds hdc hds segs w _ hokl (sideFair_of_inf w σ hf k) k
    (by omega)
  rw [List.take_of_length_le (by omega)] at h1 h2
  exact ⟨h1, h2⟩

/-! ### the fairness hypothesis is needed -/

/-- a schedule in which only one side ever calls -/
def OnlySide (r : Bool) (l : List Act) : Prop := ∀ a ∈ l, a.client = r

/-- **starved_server_never_completes**: if the server never calls anything, the handshake never completes, however
long the client polls (the server's engine is not even touched). -/
theorem starved_server_never_completes (C : Cfg) (P : HsP) (dc ds : Bytes) (segs : List Nat) (l : List Act)
    (hl : OnlySide true l) :
    (Sys.run C P dc ds l (Sys.init P segs)).es = Hs.init P false ∧
    ¬ (Sys.run C P dc ds l (Sys.init P segs)).bothFinished := by
  have key : ∀ (l : List Act) (y : Sys), OnlySide true l → (Sys.run C P dc ds l y).es = y.es := by
    intro l
    induction l with
    | nil => intro y _; rfl
    | cons a l ih =>
      intro y h
      rw [run_cons, ih _ (fun b hb => h b (List.mem_cons_of_mem _ hb))]
      have ha : a.client = true := h a (List.mem_cons_self ..)
      simp [Sys.act, Sys.step, ha]
  have h := key l (Sys.init P segs) hl
  refine ⟨h, ?_⟩
  intro hb
  have := hb.2
  rw [h] at this
  simp [Sys.init, Hs.init] at this

/-- **starved_client_never_completes**: likewise if the client never calls. -/
theorem starved_client_never_completes (C : Cfg) (P : HsP) (dc ds : Bytes) (segs : List Nat) (l : List Act)
    (hl : OnlySide false l) :
    (Sys.run C P dc ds l (Sys.init P segs)).ec = Hs.init P true ∧
    ¬ (Sys.run C P dc ds l (Sys.init P segs)).bothFinished := by
  have key : ∀ (l : List Act) (y : Sys), OnlySide false l → (Sys.run C P dc ds l y).ec = y.ec := by
    intro l
    induction l with
    | nil => intro y _; rfl
    | cons a l ih =>
      intro y h
      rw [run_cons, ih _ (fun b hb => h b (List.mem_cons_of_mem _ hb))]
      have ha : a.client = false := h a (List.mem_cons_self ..)
      simp [Sys.act, Sys.step, ha]
  have h := key l (Sys.init P segs) hl
  refine ⟨h, ?_⟩
  intro hb
  have := hb.1
  rw [h] at this
  simp [Sys.init, Hs.init] at this

/-! ### instances: the hypotheses are satisfiable, the orders of the first calls the property names -/

/-- the polling round of `handshake_completes_partial` is the instance `w = 4` (in fact `w = 3`) -/
def pollRound (n : Nat) : List Act := [.cSend, .sRecv n, .sSend, .cRecv n]

def rep (m : Nat) (v : List Act) : List Act := (List.replicate m v).flatten

example : SideFair 3 (rep 5 (pollRound 4)) := by decide
example : ∀ a ∈ rep 5 (pollRound 4), a.ok := by decide

/-- the client receives first, then the server receives, then both send -/
example : SideFair 4 ([.cRecv 7, .sRecv 1, .cSend, .sSend] ++ rep 3 [.cRecv 7, .cSend, .sSend, .sRecv 2]) := by decide
/-- the server sends first (three times) before the client does anything; the client only ever receives, the
server only ever sends: fair with `w = 4` -/
example : SideFair 4 (rep 4 [.sSend, .sSend, .sSend, .cRecv 3]) := by decide
/-- both send first -/
example : SideFair 2 ([.cSend, .sSend] ++ rep 6 [.cRecv 1, .sRecv 1]) := by decide
/-- both receive first -/
example : SideFair 2 ([.sRecv 5, .cRecv 5] ++ rep 6 [.sSend, .cSend]) := by decide
/-- unfair: the server never calls -/
example : ¬ SideFair 4 (rep 6 [.cSend, .cRecv 4]) := by decide
example : OnlySide true (rep 6 [.cSend, .cRecv 4]) := by unfold OnlySide; decide
/-- an infinite schedule: the client calls at even positions, the server at odd ones; the kind of call alternates
every two positions -/
def alternating (i : Nat) : Act := ⟨i % 2 = 0, if i / 2 % 2 = 0 then .recv 3 else .send⟩

example : SideFairInf 2 alternating := by
  intro i
  rcases Nat.mod_two_eq_zero_or_one i with h | h
  · exact ⟨⟨0, by omega, by simp [alternating, h]⟩, ⟨1, by omega, by simp [alternating]; omega⟩⟩
  · exact ⟨⟨1, by omega, by simp [alternating]; omega⟩, ⟨0, by omega, by simp [alternating, h]⟩⟩

/-- the smallest instance: three flights of one byte each -/
def tinyP' : HsP := ⟨1, 1, 1, by decide, by decide, by decide⟩

/-- any schedule whatsoever that is fair with window 4, for one-byte flights: finished after 48 calls -/
example (l : List Act) (hok : ∀ a ∈ l, a.ok) (hf : SideFair 4 l) (hl : 48 ≤ l.length) (segs : List Nat) :
    (Sys.run Cfg.current tinyP' [1] [2] (l.take 48) (Sys.init tinyP' segs)).bothFinished :=
  (handshake_completes_any_schedule Cfg.current (by decide) tinyP' [1] [2] (by decide) (by decide) segs 4 l hok hf 48
    hl).2.1 (by decide)

/-! ## (B) limited timeouts `T ≥ 0`, each call its own, under virtual time

"... completes for every combination of ... **timeout modes** ...".  `chanWorldT` (Model/HsTimed.lean) is the channel
world with a clock: a wait with argument `t` that finds nothing ready times out after `t` (the clock advances by `t`;
the peer cannot act meanwhile - the composition is sequential); a wait that finds the descriptor ready, `send` and
`recv` take no time.  It satisfies A-CLOCK (`chanWorldT_clockOk`), so `tls_limited_budget` (Props/C18.lean) applies to
every call on it. -/

theorem chanWorldT_clockOk (r : Bool) : ClockOk (chanWorldT r) where
  wait_mono := by
    intro w d t
    cases d with
    | wr => exact Int.le_refl _
    | rd => rw [wait_rd, now_T, now_T]; dsimp only; (repeat' split) <;> omega
  wait_le := by
    intro w d t ht
    cases d with
    | wr => rw [wait_wr, now_T]; omega
    | rd => rw [wait_rd, now_T, now_T]; dsimp only; (repeat' split) <;> omega
  send_now := fun _ _ => rfl
  recv_now := fun _ _ => rfl

/-- **timed_call_is_zero_call** - for ANY engine (any interaction tree), any glue state and any `T ≥ 0`:
`Receive(n, T)` / `Send(data, T)` on the healthy channel under virtual time return the same result and leave engine,
channels and glue exactly as the zero-timeout call does (`proj` forgets the clock and the budget, nothing else); the
budget left is `≥ 0` and ends exactly `T` after the call began - so the call **returns after at most `T`**, and
with respect to handshake progress it is the zero-timeout call. -/
theorem timed_call_is_zero_call {σ : Type} (C : Cfg) (r : Bool) (E : Engine σ) (s : St σ ChanT) (T : Int) (hT : 0 ≤ T) :
    (∀ n, receiveT C (chanWorld r) E (proj s) n 0 =
        ((receiveT C (chanWorldT r) E s n T).1, proj (receiveT C (chanWorldT r) E s n T).2) ∧
      0 ≤ (receiveT C (chanWorldT r) E s n T).2.g.remainingTime ∧
      (receiveT C (chanWorldT r) E s n T).2.w.clock + (receiveT C (chanWorldT r) E s n T).2.g.remainingTime = s.w.clock + T) ∧
    (∀ data, sendT C (chanWorld r) E (proj s) data 0 =
        ((sendT C (chanWorldT r) E s data T).1, proj (sendT C (chanWorldT r) E s data T).2) ∧
      0 ≤ (sendT C (chanWorldT r) E s data T).2.g.remainingTime ∧
      (sendT C (chanWorldT r) E s data T).2.w.clock + (sendT C (chanWorldT r) E s data T).2.g.remainingTime = s.w.clock + T) :=
  ⟨fun n => receiveT_sim C r E s n T hT, fun data => sendT_sim C r E s data T hT⟩

/-- **timed_schedule_is_zero_schedule**: a schedule in which every call has its own timeout `≥ 0` leaves the
composition in the state the same schedule with all timeouts 0 leaves it in (up to clock and budgets), and its calls
together take no longer than the sum of their timeouts. -/
theorem timed_schedule_is_zero_schedule (C : Cfg) (P : HsP) (dc ds : Bytes) (l : List ActT)
    (hT : ∀ a ∈ l, 0 ≤ a.timeout) (y : SysT) :
    (SysT.run C P dc ds l y).untimed = Sys.run C P dc ds (l.map ActT.act) y.untimed ∧
    (SysT.run C P dc ds l y).clock ≤ y.clock + budgetSum l :=
  run_untimed C P dc ds l y hT

/-- **handshake_completes_any_timeouts** - (A) for arbitrary per-call timeouts `T ≥ 0`: if each side calls at least
once in every window of `w` consecutive calls, then after at most `w · 2·(k1+k2+k3+3)` calls, and after every longer
prefix, both sides are `init_finished`; no call throws or asserts; and the first `j` calls take at most the sum of
their timeouts. -/
theorem handshake_completes_any_timeouts (C : Cfg) (hC : 1 < C.stepsMax) (P : HsP) (dc ds : Bytes) (hdc : dc ≠ [])
    (hds : ds ≠ []) (segs : List Nat) (w : Nat) (l : List ActT) (hok : ∀ a ∈ l, a.act.ok)
    (hT : ∀ a ∈ l, 0 ≤ a.timeout) (hf : SideFair w (l.map ActT.act)) (j : Nat) (hj : j ≤ l.length) :
    (SysT.run C P dc ds (l.take j) (SysT.init P segs)).faults = 0 ∧
    (P.total * w ≤ j → (SysT.run C P dc ds (l.take j) (SysT.init P segs)).bothFinished) ∧
    (SysT.run C P dc ds (l.take j) (SysT.init P segs)).clock ≤ budgetSum (l.take j) := by
  have hTj : ∀ a ∈ l.take j, 0 ≤ a.timeout := fun a ha => hT a (List.mem_of_mem_take ha)
  obtain ⟨h1, h2⟩ := run_untimed C P dc ds (l.take j) (SysT.init P segs) hTj
  have hok' : ∀ a ∈ l.map ActT.act, a.ok := by
    intro a ha
    obtain ⟨b, hb, rfl⟩ := List.mem_map.mp ha
    exact hok b hb
  obtain ⟨g1, g2, _⟩ := handshake_completes_any_schedule C hC P dc ds hdc hds segs w (l.map ActT.act) hok' hf j
    (by simpa using hj)
  rw [untimed_init, List.map_take] at h1
  rw [← h1] at g1 g2
  refine ⟨g1, g2, ?_⟩
  have : (SysT.init P segs).clock = 0 := rfl
  omega

/-- time does pass: a `Receive(4, 50 ms)` of the server as the very first call waits out its 50 ms -/
example : (SysT.run Cfg.current tinyP' [1] [2] [⟨.sRecv 4, 50⟩] (SysT.init tinyP' [])).clock = 50 := by decide

/-- a timed schedule satisfying the hypotheses: timeouts 0, 20 and 50 ms mixed, the server starts by receiving -/
def timedDemo : List ActT :=
  [⟨.sRecv 4, 50⟩, ⟨.cSend, 20⟩, ⟨.cRecv 4, 0⟩, ⟨.sSend, 30⟩, ⟨.cRecv 9, 5⟩, ⟨.sRecv 4, 7⟩, ⟨.cSend, 0⟩, ⟨.sRecv 1, 7⟩]
example : SideFair 3 (timedDemo.map ActT.act) := by decide
example : ∀ a ∈ timedDemo, 0 ≤ a.timeout := by decide
example : ∀ a ∈ timedDemo, a.act.ok := by decide

/-! ## (C) an unlimited timeout (`T < 0`) on one side, the other side polls

In a sequential composition an unlimited wait with nothing ready never returns, so this needs an interleaving
semantics.  `blockWorld` (Model/HsBlock.lean): the world of the blocking side `u` contains the polling peer (glue,
engine, and the list `prog` of calls it is going to make).  A wait of side `u` for readability with nothing in flight
and `t < 0` **suspends side `u` and lets the peer perform the next calls of its program** - each one the real
zero-timeout `Send`/`Receive` (`callOn`) on the shared channels - until bytes towards `u` are in flight; then the
blocked call resumes exactly where it was (inside the BIO callback inside the engine inside `Read`/`Write`).  Nothing
is re-tried and nothing is assumed about how often the blocked call is suspended.  If the peer's program ends first the
wait reports "not ready" - the observation ends with the call still blocked; the theorems say what holds then, too.

Restrictions, relative to "(C) one side unlimited, the other polls" in full: the peer polls with timeout 0 (by (B) a
limited timeout changes nothing but the clock - not combined here); the blocked side resumes at the END of the peer
call that made its descriptor ready, not in the middle of it (peer calls are atomic with respect to the blocked side,
which touches nothing while blocked); both sides blocking with unlimited timeouts at once is not covered (each
side's wait would have to contain the other: two threads - outside this sequential model). -/

/-- **blocked_wait_is_released** - no deadlock under blocking: side `u` is in its handshake, waits for a flight
(`h.writes = false`) with an unlimited timeout, and the peer's program is at least as long as the work the peer's
engine has left (`Enough`: at most `k1+k2+k3+3` calls).  Then the wait returns "ready" with bytes towards `u` in flight;
on the way every call of the peer kept the invariant of the composition (none threw or asserted), and the peer's
remaining program is still long enough for what its engine has left. -/
theorem blocked_wait_is_released (C : Cfg) (hC : 1 < C.stepsMax) (P : HsP) (u : Bool) (dc ds : Bytes) (hdc : dc ≠ [])
    (hds : ds ≠ []) (T : Int) (hT : T < 0) (g : Glue) (h : Hs) (w : PeerW)
    (hinv : SysInv P dc ds (mkSys u g h w)) (hok : ProgOk w) (hs : h.stage < 3) (hr : h.writes = false)
    (hen : Enough P w) :
    ((blockWorld C P u dc ds).wait w .rd T).1 = true ∧ 0 < ((blockWorld C P u dc ds).wait w .rd T).2.ch.inb u ∧
    SysInv P dc ds (mkSys u g h ((blockWorld C P u dc ds).wait w .rd T).2) ∧
    ProgOk ((blockWorld C P u dc ds).wait w .rd T).2 ∧ Enough P ((blockWorld C P u dc ds).wait w .rd T).2 := by
  rw [bw_wait_rd]
  by_cases hin : 0 < w.ch.inb u
  · rw [if_pos hin]; exact ⟨rfl, hin, hinv, hok, hen⟩
  · rw [if_neg hin, if_pos hT]
    obtain ⟨j1, j2, _, _, j5, _, j7⟩ := runPeer_spec C hC P u dc ds hdc hds g h w.prog w hinv hok (by omega)
    obtain ⟨a1, a2⟩ := j7 hs hr
    have hb := a2 hen
    refine ⟨hb, j5 hb, j1, j2, ?_⟩
    unfold Enough at hen ⊢
    omega

/-- **unlimited_send_completes_handshake**: `Send(payload, T)`, `T < 0`, of the blocking side - from any state of the
composition between calls, with a peer program long enough for the peer's remaining handshake work (needed only
while this side is unfinished) - returns the whole length, leaves this side `init_finished`, no error cached, the
invariant of the composition intact (no peer call failed), the peer's work not increased. -/
theorem unlimited_send_completes_handshake (C : Cfg) (hC : 1 < C.stepsMax) (P : HsP) (u : Bool) (dc ds : Bytes)
    (hdc : dc ≠ []) (hds : ds ≠ []) (T : Int) (hT : T < 0) (s : St Hs PeerW) (hr : ReadyU (ownPay u dc ds) s)
    (hinv : SysInv P dc ds (mkSys u s.g s.e s.w)) (hok : ProgOk s.w) (hen : s.e.stage < 3 → Enough P s.w) :
    ∃ s', sendT C (blockWorld C P u dc ds) (engine P) s (ownPay u dc ds) T = (.ok (ownPay u dc ds).length, s') ∧
      ReadyU (ownPay u dc ds) s' ∧ SysInv P dc ds (mkSys u s'.g s'.e s'.w) ∧ ProgOk s'.w ∧ 3 ≤ s'.e.stage ∧
      work P s'.w.e ≤ work P s.w.e ∧ s.w.e.stage ≤ s'.w.e.stage := by
  obtain ⟨s', h1, h2, h3⟩ := sendU_spec C hC P u dc ds hdc hds T hT s hr hinv hok hen
  exact ⟨s', h1, h2, h3.inv, h3.ok, h3.fin, h3.wk, h3.st⟩

/-- **unlimited_receive_completes_handshake**: `Receive(n, T)`, `T < 0`, `n ≥ 1`, of the blocking side: when the
call is over this side is `init_finished` and the invariant is intact; it returned at least one byte (never
"nothing", no assert) - unless the peer's program ended while it was waiting for application data. -/
theorem unlimited_receive_completes_handshake (C : Cfg) (hC : 1 < C.stepsMax) (P : HsP) (u : Bool) (dc ds : Bytes)
    (hdc : dc ≠ []) (hds : ds ≠ []) (T : Int) (hT : T < 0) (n : Nat) (hn : 1 ≤ n) (s : St Hs PeerW)
    (hr : ReadyU (ownPay u dc ds) s) (hinv : SysInv P dc ds (mkSys u s.g s.e s.w)) (hok : ProgOk s.w)
    (hen : s.e.stage < 3 → Enough P s.w) :
    SysInv P dc ds (mkSys u (receiveT C (blockWorld C P u dc ds) (engine P) s n T).2.g
      (receiveT C (blockWorld C P u dc ds) (engine P) s n T).2.e (receiveT C (blockWorld C P u dc ds) (engine P) s n T).2.w) ∧
    3 ≤ (receiveT C (blockWorld C P u dc ds) (engine P) s n T).2.e.stage ∧
    ((receiveT C (blockWorld C P u dc ds) (engine P) s n T).2.w.prog = [] ∨
     (∃ out, (receiveT C (blockWorld C P u dc ds) (engine P) s n T).1 = .ok out ∧ out ≠ [] ∧
        ReadyU (ownPay u dc ds) (receiveT C (blockWorld C P u dc ds) (engine P) s n T).2)) := by
  obtain ⟨h1, h2⟩ := recvU_spec C hC P u dc ds hdc hds T hT n hn s hr hinv hok hen
  exact ⟨h1.inv, h1.fin, h2⟩

/-- **handshake_completes_one_side_unlimited**: side `u` (client or server) calls with an unlimited timeout, the
other side polls with timeout 0, making the calls of `prog` (any mix of `Send` / `Receive n`, `n ≥ 1`) in order - while
side `u` is blocked, and between the calls of side `u` wherever the schedule says `poll`.  For every schedule that
contains a call of side `u` - `pre` (polls of the peer before it), the call `kb` (`Send` or `Receive`), `post` (any
further calls of either side) -, if the peer's program is long enough to reach that call with `k1+k2+k3+3` calls to
spare: the invariant of the composition holds at the end (no call of the peer ever failed), **side `u` is
`init_finished`** (already when its first call returns); and unless the observation ended because the peer's program
was exhausted: no call of side `u` threw or asserted, and once `post` contains `k1+k2+k3+3` polls **the peer is
`init_finished`** as well. -/
theorem handshake_completes_one_side_unlimited (C : Cfg) (hC : 1 < C.stepsMax) (P : HsP) (u : Bool) (dc ds : Bytes)
    (hdc : dc ≠ []) (hds : ds ≠ []) (T : Int) (hT : T < 0) (segs : List Nat) (prog : List Kind)
    (hprog : ∀ k ∈ prog, k.ok) (pre post : List ActU) (kb : Kind) (hpre : ∀ a ∈ pre, a = .poll) (hkb : kb.ok)
    (hpost : ∀ a ∈ post, a.okU) (hlen : pre.length + P.half ≤ prog.length) :
    SysInv P dc ds (mkSys u (SysU.run C P u dc ds T (pre ++ .block kb :: post) (SysU.init P u segs prog)).g
      (SysU.run C P u dc ds T (pre ++ .block kb :: post) (SysU.init P u segs prog)).e
      (SysU.run C P u dc ds T (pre ++ .block kb :: post) (SysU.init P u segs prog)).w) ∧
    3 ≤ (SysU.run C P u dc ds T (pre ++ .block kb :: post) (SysU.init P u segs prog)).e.stage ∧
    ((SysU.run C P u dc ds T (pre ++ .block kb :: post) (SysU.init P u segs prog)).w.prog ≠ [] →
      (SysU.run C P u dc ds T (pre ++ .block kb :: post) (SysU.init P u segs prog)).faults = 0 ∧
      (P.half ≤ polls post →
        3 ≤ (SysU.run C P u dc ds T (pre ++ .block kb :: post) (SysU.init P u segs prog)).w.e.stage)) := by
  have hinit : UInv P u dc ds (SysU.init P u segs prog) :=
    ⟨sysInv_initU P u dc ds segs prog, hprog, Or.inr ⟨⟨rfl, rfl, rfl, rfl, Or.inl rfl⟩, rfl⟩⟩
  obtain ⟨i1, e1, p1, w1⟩ := run_polls C hC P u dc ds hdc hds T hT pre _ hinit hpre
  rw [runU_append, runU_cons]
  generalize SysU.run C P u dc ds T pre (SysU.init P u segs prog) = y1 at i1 e1 p1 w1
  have hwinit : work P (SysU.init P u segs prog).w.e = P.half := by
    simp only [SysU.init, work_init, HsP.half]
  have hplen : P.half ≤ y1.w.prog.length := by
    rw [p1, List.length_drop]
    show P.half ≤ prog.length - pre.length
    omega
  have hen1 : Enough P y1.w := by unfold Enough; omega
  have hne1 : y1.w.prog ≠ [] := by
    intro h0
    rw [h0] at hplen
    simp [HsP.half] at hplen
  obtain ⟨i2, w2, _, _, f2, _, _⟩ := stepU_spec C hC P u dc ds hdc hds T hT y1 i1 (.block kb) hkb (fun _ _ => hen1)
  have hfin2 := f2 hne1 ⟨kb, rfl⟩
  obtain ⟨j1, j2, j3, j4⟩ := run_after C hC P u dc ds hdc hds T hT post _ i2 hpost hfin2
  refine ⟨j1.inv, j2, ?_⟩
  intro hne
  refine ⟨?_, ?_⟩
  · rcases j1.live with h | h
    · exact absurd h hne
    · exact h.2
  · intro hp
    rcases j4 with h | h | h
    · exact absurd h hne
    · exact h
    · have hwf := (sysInv_own P u dc ds _ _ _ i2.inv)
      have hle : work P (y1.step C P u dc ds T (.block kb)).w.e ≤ P.half := by omega
      exact work_zero_fin P _ (by omega)

/-- the call of side `u` in the schedule is needed: as long as only the peer polls, side `u` stays where it was
(stage 0 from the initial state), however long the peer's program is -/
theorem blocking_side_must_call (C : Cfg) (hC : 1 < C.stepsMax) (P : HsP) (u : Bool) (dc ds : Bytes)
    (hdc : dc ≠ []) (hds : ds ≠ []) (T : Int) (hT : T < 0) (segs : List Nat) (prog : List Kind)
    (hprog : ∀ k ∈ prog, k.ok) (pre : List ActU) (hpre : ∀ a ∈ pre, a = .poll) :
    (SysU.run C P u dc ds T pre (SysU.init P u segs prog)).e = Hs.init P u ∧
    ¬ 3 ≤ (SysU.run C P u dc ds T pre (SysU.init P u segs prog)).e.stage := by
  have hinit : UInv P u dc ds (SysU.init P u segs prog) :=
    ⟨sysInv_initU P u dc ds segs prog, hprog, Or.inr ⟨⟨rfl, rfl, rfl, rfl, Or.inl rfl⟩, rfl⟩⟩
  obtain ⟨_, e1, _, _⟩ := run_polls C hC P u dc ds hdc hds T hT pre _ hinit hpre
  refine ⟨e1, ?_⟩
  rw [e1]
  simp [SysU.init, Hs.init]

/-- the peer's faults, spelled out: part of the invariant -/
theorem peer_never_faults (P : HsP) (u : Bool) (dc ds : Bytes) (g : Glue) (h : Hs) (w : PeerW)
    (hinv : SysInv P dc ds (mkSys u g h w)) : w.faults = 0 := by
  have := hinv.2.2.2.2.2.2
  cases u <;> simpa [mkSys] using this

/-- the hypotheses are satisfiable: the server blocks in `Receive(3, -1)` after two polls of the client, then sends;
the client's polling loop alternates `Receive(4, 0)` and `Send` -/
def blockDemoProg : List Kind := (List.replicate 8 [Kind.recv 4, Kind.send]).flatten
example : ∀ k ∈ blockDemoProg, k.ok := by decide
example : ∀ a ∈ [ActU.poll, ActU.poll], a = .poll := by decide
example : [ActU.poll, ActU.poll].length + tinyP'.half ≤ blockDemoProg.length := by decide
example : tinyP'.half ≤ polls (ActU.block .send :: List.replicate 6 ActU.poll) := by decide

/-! ## (D) an asynchronous (driver-operated) endpoint paired with a polling synchronous peer

"... or by the driver ... for every combination of sync/async endpoints".  The asynchronous endpoint is the model of
`Model/Tls.lean`: `aQuery` (`DriverQuery` through `QuerySockets`), `aTask` (`DoOneSocketTask`), `aReadable`
(`DriverOnReadable` → `Receive(data, size)` → `receiveReadable`) - composed with the reference engine and the two
channels; `poll` reports what the channels dictate (`SysAS.rev`: readable iff bytes are in flight, writable, no
HUP/ERR).

Proved: the pairing **asynchronous server / polling synchronous client**, nothing queued on the server
(`handshake_completes_async_server`).  The server then only ever runs readable tasks; `POLLOUT` is never requested
(`AInv.po`), so the `pollout_protocol` invariant of Props/C18.lean holds trivially.
Then the general case (`handshake_completes_async_endpoint`): an asynchronous endpoint of EITHER role with a send
queue - buffers queued before and during the handshake - so that the WRITABLE task (`DriverOnWritable` → `SendSome` →
`sendSomeWritable`) and the `POLLOUT` protocol of `DriverQuery` take part.  An asynchronous client starts its handshake
only through a writable task, i.e. it needs a buffer queued (hypothesis `u = true → q ≠ []`; without it nothing ever
happens: `example` below).
NOT proved (open): async/async pairings (two drivers); an asynchronous endpoint paired with a BLOCKING peer. -/

/-- **deemed_flags_are_harmless** - for ANY engine: on the healthy channel the glue's `Read` and `Write` commute with
forgetting the "deemed readable / writable" flags a driver task sets (`nf`), provided the budget is 0 and the socket is
deemed readable only while bytes towards it are in flight (what `poll` guarantees): same result, same engine, same
channels, same glue up to the flags.  So `DriverOnReadable`'s `Receive(data, size)` is `Receive(size, 0)` and
`DriverOnWritable`'s `SendSome` is `Send(…, 0)`. -/
theorem deemed_flags_are_harmless {σ : Type} (C : Cfg) (r : Bool) (E : Engine σ) (s : St σ Chan) (hfl : Fl r s) :
    (∀ n, tlsRead C (chanWorld r) E (nf s) n = ((tlsRead C (chanWorld r) E s n).1, nf (tlsRead C (chanWorld r) E s n).2)) ∧
    (∀ d, tlsWrite C (chanWorld r) E (nf s) d = ((tlsWrite C (chanWorld r) E s d).1, nf (tlsWrite C (chanWorld r) E s d).2)) :=
  ⟨fun n => (tlsRead_fl C r E s n hfl).1, fun d => (tlsWrite_fl C r E s d hfl).1⟩

/-- **readable_task_progress**: the driver's readable task on a socket `poll` reported readable, against the
reference engine: no exception, no assert; the side invariant is kept; the engine only moves forward and strictly so
if it can progress; afterwards an unfinished engine has WANT_READ cached, a finished one nothing. -/
theorem readable_task_progress (C : Cfg) (hC : 0 < C.stepsMax) (P : HsP) (r : Bool) (data : Bytes) (rx : Nat)
    (hrx : 1 ≤ rx) (s : St Hs Chan) (hi : SideInv P r data (nf s)) (hin : 0 < s.w.inb r) :
    ∃ bs s', receiveReadable C (chanWorld r) (engine P) s rx = (.ok bs, s') ∧ SideInv P r data (nf s') ∧
      Tr P r s.e s.w s'.e s'.w ∧ (CanProg r s.e s.w → work P s'.e < work P s.e) ∧ Tight (nf s') ∧
      (3 ≤ s'.e.stage → s'.g.lastError = .none) :=
  receiveReadable_hs C hC P r data rx hrx s hi hin

/-- each side acts at least once in every window of `w` steps: a `Driver::Step` of the server and a call of the
client -/
def AFair (w : Nat) (l : List ActA) : Prop :=
  ∀ i, i < l.length + 1 - w →
    (∃ a ∈ (l.drop i).take w, a = ActA.drive) ∧ (∃ a ∈ (l.drop i).take w, a ≠ ActA.drive)

instance (w : Nat) (l : List ActA) : Decidable (AFair w l) := by
  unfold AFair; exact inferInstance

/-- **handshake_completes_async_server**: asynchronous server (driver-operated, receive buffer size `rx ≥ 1`,
nothing queued), polling synchronous client (`Send(dc, 0)` / `Receive(n, 0)` in any order).  For every schedule of
driver steps and client calls in which both occur in every window of `w` steps: after at most `w · 2·(k1+k2+k3+3)`
steps, and after every longer prefix, both sides are `init_finished`; no driver step and no client call throws or
asserts; the server never requests `POLLOUT`. -/
theorem handshake_completes_async_server (C : Cfg) (hC : 1 < C.stepsMax) (P : HsP) (dc ds : Bytes) (hdc : dc ≠ [])
    (rx : Nat) (hrx : 1 ≤ rx) (segs : List Nat) (w : Nat) (l : List ActA) (hok : ∀ a ∈ l, a.okA) (hf : AFair w l)
    (j : Nat) (hj : j ≤ l.length) :
    (SysAS.run C P dc rx (l.take j) (SysAS.init P segs)).faults = 0 ∧
    (SysAS.run C P dc rx (l.take j) (SysAS.init P segs)).x.a.pollOut = false ∧
    (P.total * w ≤ j → (SysAS.run C P dc rx (l.take j) (SysAS.init P segs)).bothFinished) := by
  have hfair : (asTS C hC P dc ds hdc rx hrx).SideFair w l := by
    intro i hi
    obtain ⟨⟨a, ha, hd⟩, ⟨b, hb, hnd⟩⟩ := hf i (by omega)
    refine ⟨⟨b, hb, ?_⟩, ⟨a, ha, by rw [hd]; rfl⟩⟩
    cases b with
    | drive => exact absurd rfl hnd
    | peer k => rfl
  obtain ⟨h1, h2⟩ := (asTS C hC P dc ds hdc rx hrx).fair_completes w l (SysAS.init P segs) (aInv_init P dc ds segs)
    hok hfair j hj
  rw [asTS_run] at h1 h2
  have hmu : (asTS C hC P dc ds hdc rx hrx).mu (SysAS.init P segs) = P.total := by
    show work P _ + work P _ = _
    simp only [SysAS.init, work_init, HsP.total]; omega
  rw [hmu] at h2
  refine ⟨?_, h1.po, h2⟩
  have := h1.inv.2.2.2.2.2.2
  simpa [SysAS.sys, mkSys] using this

/-- the fairness hypothesis is needed: if the server's driver is never stepped the server's engine is never touched -/
theorem undriven_server_never_completes (C : Cfg) (P : HsP) (dc : Bytes) (rx : Nat) (segs : List Nat) (l : List ActA)
    (hl : ∀ a ∈ l, a ≠ ActA.drive) :
    (SysAS.run C P dc rx l (SysAS.init P segs)).x.s.e = Hs.init P false ∧
    ¬ (SysAS.run C P dc rx l (SysAS.init P segs)).bothFinished := by
  have key : ∀ (l : List ActA) (y : SysAS), (∀ a ∈ l, a ≠ ActA.drive) → (SysAS.run C P dc rx l y).x.s.e = y.x.s.e := by
    intro l
    induction l with
    | nil => intro y _; rfl
    | cons a l ih =>
      intro y h
      show (SysAS.run C P dc rx l (y.step C P dc rx a)).x.s.e = _
      rw [ih _ (fun b hb => h b (List.mem_cons_of_mem _ hb))]
      cases a with
      | drive => exact absurd rfl (h _ (List.mem_cons_self ..))
      | peer k => rfl
  have h := key l (SysAS.init P segs) hl
  refine ⟨h, ?_⟩
  intro hb
  have := hb.2
  rw [h] at this
  simp [SysAS.init, Hs.init] at this

/-- instances: the client sends first / receives first; the driver is stepped twice as often as the client calls -/
example : AFair 3 ((List.replicate 8 [ActA.drive, ActA.peer .send, ActA.drive]).flatten) := by decide
example : AFair 2 ((List.replicate 8 [ActA.peer (.recv 5), ActA.drive]).flatten) := by decide
example : ¬ AFair 2 ((List.replicate 8 [ActA.peer (.recv 5), ActA.peer .send]).flatten) := by decide
example : ∀ a ∈ (List.replicate 8 [ActA.peer (.recv 5), ActA.drive]).flatten, a.okA := by decide

/-! ### an asynchronous endpoint of either role, with a send queue -/

/-- **readable_task_clears_flag**: `isReadable` is written only by `BioRead` (to `false`), and every `ssl_read` of the
reference engine performs a BIO read: a readable task leaves `isReadable = false` - which the writable task relies on
(`prepWritable` does not reset it; with a stale `isReadable` the next BIO read would `recv` without a wait). -/
theorem readable_task_clears_flag (C : Cfg) (hC : 0 < C.stepsMax) (P : HsP) (r : Bool) (rx : Nat) (s : St Hs Chan)
    (hw : WF P s.e) (hle : s.g.lastError = .none ∨ s.g.lastError = .wantRead) :
    (receiveReadable C (chanWorld r) (engine P) s rx).2.g.isReadable = false :=
  receiveReadable_ir C hC P r rx s hw hle

/-- **writable_task_progress**: the driver's writable task with the front buffer `buf` of the queue = `Send(buf, 0)`:
no exception, no assert; progress if the engine can progress; either all of `buf` is taken (then the handshake is
finished, nothing cached, nothing pending) or none of it (WANT_READ cached, `buf` remembered for the retry). -/
theorem writable_task_progress (C : Cfg) (hC : 1 < C.stepsMax) (P : HsP) (r : Bool) (buf : Bytes) (hb : buf ≠ [])
    (s : St Hs Chan) (hi : SideInv P r buf (nf s)) (hir : s.g.isReadable = false) :
    ∃ k s', sendSomeWritable C (chanWorld r) (engine P) s buf = (.ok k, s') ∧ SideInv P r buf (nf s') ∧
      Tr P r s.e s.w s'.e s'.w ∧ (CanProg r s.e s.w → work P s'.e < work P s.e) ∧ Tight (nf s') ∧
      s'.g.isReadable = false ∧
      ((k = buf.length ∧ 3 ≤ s'.e.stage ∧ s'.g.lastError = .none ∧ s'.g.pendingSend = []) ∨ k = 0) :=
  sendSomeWritable_hs C hC P r buf hb s hi hir

/-- in every window of `w` steps the driver is stepped and the peer calls (queueing buffers counts for neither) -/
def isPeerCall : ActG → Bool
  | .peer _ => true
  | _ => false

def GFair (w : Nat) (l : List ActG) : Prop :=
  ∀ i, i < l.length + 1 - w →
    (∃ a ∈ (l.drop i).take w, a = ActG.drive) ∧ (∃ a ∈ (l.drop i).take w, isPeerCall a = true)

instance (w : Nat) (l : List ActG) : Decidable (GFair w l) := by
  unfold GFair; exact inferInstance

/-- **handshake_completes_async_endpoint**: an asynchronous endpoint of role `u` (client or server; receive buffer
size `rx ≥ 1`; `q` = the buffers queued at the start, non-empty ones; a CLIENT must have one) and a polling synchronous
peer.  For every schedule of driver steps, `Send(buffer)` calls of the asynchronous socket's user (non-empty buffers,
at any time) and zero-timeout calls of the peer, in which driver steps and peer calls both occur in every window of
`w` steps: after at most `w · 2·(k1+k2+k3+3)` steps, and after every longer prefix, both sides are `init_finished`;
no driver step and no peer call throws or asserts; and `Armed` holds throughout (queued data is armed with `POLLOUT` or
remembered as suppressed - the invariant of `pollout_protocol`), with its converse. -/
theorem handshake_completes_async_endpoint (C : Cfg) (hC : 1 < C.stepsMax) (P : HsP) (u : Bool) (dc ds : Bytes)
    (hdc : dc ≠ []) (hds : ds ≠ []) (rx : Nat) (hrx : 1 ≤ rx) (segs : List Nat) (q : List Bytes)
    (hq : ∀ b ∈ q, b ≠ []) (hfed : u = true → q ≠ []) (w : Nat) (l : List ActG) (hok : ∀ a ∈ l, a.okG)
    (hf : GFair w l) (j : Nat) (hj : j ≤ l.length) :
    (SysAG.run C P u dc ds rx (l.take j) (SysAG.init P u segs q)).faults = 0 ∧
    ((SysAG.run C P u dc ds rx (l.take j) (SysAG.init P u segs q)).x.a.sendQ ≠ [] ↔
      ((SysAG.run C P u dc ds rx (l.take j) (SysAG.init P u segs q)).x.a.pollOut = true ∨
       (SysAG.run C P u dc ds rx (l.take j) (SysAG.init P u segs q)).x.s.g.driverSendSuppressed = true)) ∧
    (P.total * w ≤ j → (SysAG.run C P u dc ds rx (l.take j) (SysAG.init P u segs q)).bothFinished) := by
  have hfair : (agTS C hC P u dc ds hdc hds rx hrx).SideFair w l := by
    intro i hi
    obtain ⟨⟨a, ha, hd⟩, ⟨b, hb, hk⟩⟩ := hf i (by omega)
    have h1 : (agTS C hC P u dc ds hdc hds rx hrx).side a = some u := by rw [hd]; rfl
    have h2 : (agTS C hC P u dc ds hdc hds rx hrx).side b = some (!u) := by
      cases b with
      | drive => cases hk
      | enq _ => cases hk
      | peer k => rfl
    cases u with
    | true => exact ⟨⟨a, ha, h1⟩, ⟨b, hb, h2⟩⟩
    | false => exact ⟨⟨b, hb, h2⟩, ⟨a, ha, h1⟩⟩
  obtain ⟨h1, h2⟩ := (agTS C hC P u dc ds hdc hds rx hrx).fair_completes w l (SysAG.init P u segs q)
    (gInv_init P u dc ds segs q hq hfed) hok hfair j hj
  rw [agTS_run] at h1 h2
  have hmu : (agTS C hC P u dc ds hdc hds rx hrx).mu (SysAG.init P u segs q) = P.total := by
    show work P _ + work P _ = _
    simp only [SysAG.init, work_init, HsP.total]; omega
  rw [hmu] at h2
  refine ⟨?_, ⟨h1.armed, h1.armed'⟩, h2⟩
  have := h1.inv.2.2.2.2.2.2
  cases u <;> simpa [SysAG.sys, mkSys, SysAG.pw] using this

/-- the hypothesis "a client has something queued" is needed: an asynchronous client with an empty queue never even
starts (the handshake is lazy; nothing makes its descriptor readable, and `POLLOUT` is not requested) -/
example :
    (SysAG.run Cfg.current tinyP' true [1] [2] 4
      [.drive, .peer (.recv 4), .drive, .peer (.recv 4), .drive, .peer (.recv 4), .drive]
      (SysAG.init tinyP' true [] [])).x.s.e = Hs.init tinyP' true := by decide

example : GFair 3 ((List.replicate 6 [ActG.drive, ActG.enq [7], ActG.peer (.recv 3)]).flatten) := by decide
example : ∀ a ∈ (List.replicate 6 [ActG.drive, ActG.enq [7], ActG.peer (.recv 3)]).flatten, a.okG := by decide

end SockModel.Hs.C18Hs

import SockModel.Model.TlsLemmas
import SockModel.Model.TlsShutdown
import SockModel.Model.Deadline
import SockModel.Model.GenTlsWorld
import SockModel.Generated.Tls
import SockModel.Basic.TieTactic
/-!
# C18 - source-derived tie (Generated/Tls.lean): the TLS glue  (DESIGN.md §0.7.4)

`SockModel.Gen.Tls_*` are the member functions of `SocketTlsImpl` (src/socket_tls_impl.cpp) as regenerated on every
run from the clang AST.  They are run in the model's own world (`GenWorld.tlsWorld W E buf`, Model/GenTlsWorld.lean)
for an ARBITRARY OS `W : Net.World ω`, an ARBITRARY engine `E : Engine σ`, every state, and tied to the functions of
Model/Tls.lean.  Model exceptions travel as `toThrown e`; `assert`s are not generated (the ties are for
`Cfg.asserts = false`).  This file is audited together with Props/C18.lean (`vlib.prop_modules`).
-/
namespace SockModel.Props.C18Tie
open SockModel SockModel.Net SockModel.Tls SockModel.GenWorld

variable {σ ω : Type}

/-- a model outcome as an outcome of generated code -/
def resOfOut {α β : Type} (f : α → β) : Out α → Gen.Res β
  | .ok a => .ok (f a)
  | .exn e => .thrown (toThrown e)
  | .abort _ => .halted

theorem tdiv_ns (x : Int) : Int.tdiv (x * 1000000) 1000000 = x := by
  rw [Int.mul_tdiv_cancel x (by decide)]

/-- the generated `DeadlineLimited::Remaining` is the model's, whatever its spelling (shape-independent `tie_arith`) -/
theorem gen_remaining (now dl : Int) : Gen.DeadlineLimited_Remaining now dl = (Deadline.Deadline.limited now dl).remaining := by
  simp only [Gen.DeadlineLimited_Remaining, Deadline.Deadline.remaining, Deadline.toMs, Deadline.nsPerMs]
  tie_arith

/-- ... which, on clock readings that are whole milliseconds, is the model's `remainingMs` -/
theorem rem_ns (a d : Int) : Gen.DeadlineLimited_Remaining (a * 1000000) (d * 1000000) = remainingMs d a := by
  have h : d * 1000000 - a * 1000000 = (d - a) * 1000000 := by omega
  rw [gen_remaining]
  simp only [Deadline.Deadline.remaining, Deadline.toMs, Deadline.nsPerMs, remainingMs, h, tdiv_ns]

theorem deadline_ns (b t : Int) : Gen.DeadlineLimited_deadline (b * 1000000) t = (b + t) * 1000000 := by
  simp only [Gen.DeadlineLimited_deadline]
  tie_arith

theorem twst_eta (w : TWSt σ ω) (g : Glue) (h : g = w.s.g) (ww : ω) :
    ({ w with s := { w.s with g := g, w := ww } } : TWSt σ ω) = { w with s := { w.s with w := ww } } := by subst h; rfl

/-- `UnderDeadline(wait, remainingTime)` as generated = the model's `waitUnder` -/
theorem waitUnder_eq (W : Net.World ω) (s : St σ ω) (d : Dir) :
    waitUnder W s d = ((W.wait s.w d s.g.remainingTime).1,
      { s with w := (W.wait s.w d s.g.remainingTime).2,
               g := { s.g with remainingTime := underDeadline s.g.remainingTime (W.now s.w) (W.now (W.wait s.w d s.g.remainingTime).2) } }) := rfl

/-- `HandleError(error)` -/
theorem tie_HandleError (W : Net.World ω) (E : Engine σ) (buf : Bytes) (fuel : Nat) (w : TWSt σ ω) (err : SslErr) :
    Gen.Tls_HandleError (tlsWorld W E buf) fuel (codeOf err) w
      = (resOfOut id (handleError W w.s err).1, { w with s := (handleError W w.s err).2 }) := by
  by_cases ht : w.s.g.remainingTime ≤ 0 <;> cases err <;>
    simp [Gen.Tls_HandleError, handleError, codeOf, Gen.M.bind, Gen.M.pure, Gen.M.throw, resOfOut, toThrown,
      Gen.Clocked_ctor_now, Gen.Clocked_Tick, waitUnder_eq, underDeadline, ht, deadline_ns, rem_ns, setTimeout]

/-- `HandleLastError()` -/
theorem tie_HandleLastError (W : Net.World ω) (E : Engine σ) (buf : Bytes) (fuel : Nat) (w : TWSt σ ω) :
    Gen.Tls_HandleLastError (tlsWorld W E buf) fuel w
      = (resOfOut id (handleLastError W w.s).1, { w with s := (handleLastError W w.s).2 }) := by
  simp only [Gen.Tls_HandleLastError, Gen.M.bind, tw_get_lastError, tie_HandleError, handleLastError]
  rcases handleError W w.s w.s.g.lastError with ⟨o, s'⟩
  cases o with
  | ok b => cases b <;> simp [resOfOut, Gen.M.pure, Gen.M.bind, errOf]
  | exn e => simp [resOfOut]
  | abort m => simp [resOfOut]

/-- `HandleResult(res)`, after an engine call whose answer `SSL_get_error` reports (`w.ans`) -/
theorem tie_HandleResult (W : Net.World ω) (E : Engine σ) (buf : Bytes) (fuel : Nat) (w : TWSt σ ω) (res : Int) :
    Gen.Tls_HandleResult (tlsWorld W E buf) fuel res w
      = (resOfOut id (handleResult W w.s w.ans).1, { w with s := (handleResult W w.s w.ans).2 }) := by
  simp only [Gen.Tls_HandleResult, Gen.M.bind, tw_sslGetError, tw_set_lastError, tw_pendingErrorSet, errOf_codeOf,
    handleResult]
  cases hp : w.s.g.pendingError with
  | none =>
    simp [setLastError, hp, tie_HandleLastError, Gen.M.bind, Gen.M.pure]
    rcases handleLastError W _ with ⟨o, s'⟩
    cases o <;> simp [resOfOut]
  | some x =>
    simp [setLastError, hp, Gen.M.bind, resOfOut, errOf]

/-- `BioRead(data, size)`: the generated code returns the count, the model the bytes (kept in `rx` by the world) -/
theorem tie_BioRead (W : Net.World ω) (E : Engine σ) (buf : Bytes) (fuel : Nat) (w : TWSt σ ω) (n : Nat) :
    Gen.Tls_BioRead (tlsWorld W E buf) fuel n w
      = (resOfOut (fun bs => (List.length bs : Int)) (bioRead W w.s n).1,
         { w with s := (bioRead W w.s n).2, rx := match (bioRead W w.s n).1 with | .ok bs => bs | _ => w.rx }) := by
  rcases w with ⟨⟨⟨le, ps, rt, ir, iw, dss, pe, wire, bw, ec⟩, e, ww⟩, ans, rx⟩
  cases ir
  · by_cases ht : rt ≤ 0
    · simp only [Gen.Tls_BioRead, bioRead, Gen.M.bind, tw_get_isReadable, tw_get_remainingTime, tw_sockReceive,
        Bool.false_eq_true, if_false, ht, if_true, Int.toNat_natCast, underDeadline]
      rcases receive W ww n rt with ⟨bs, w'⟩ | ⟨w'⟩ | ⟨e', w'⟩ <;> simp [resOfOut, Gen.M.pure]
    · simp only [Gen.Tls_BioRead, bioRead, Gen.M.bind, tw_get_isReadable, tw_get_remainingTime, tw_sockReceive,
        Bool.false_eq_true, if_false, ht, Int.toNat_natCast, underDeadline, Gen.Clocked_ctor_now, Gen.Clocked_Tick,
        tw_clockNow, Gen.M.pure, deadline_ns]
      rcases receive W ww n rt with ⟨bs, w'⟩ | ⟨w'⟩ | ⟨e', w'⟩ <;>
        simp [resOfOut, Gen.M.pure, Gen.M.bind, rem_ns, setTimeout]
  · simp only [Gen.Tls_BioRead, bioRead, Gen.M.bind, tw_get_isReadable, tw_set_isReadable, tw_sockReceiveNow, if_true,
      Int.toNat_natCast]
    rcases recvNow W ww n with ⟨bs, w'⟩ | ⟨w'⟩ | ⟨e', w'⟩ <;> simp [resOfOut, Gen.M.pure]

theorem ediv_ns (x : Int) : x * 1000000 / 1000000 = x := Int.mul_ediv_cancel x (by decide)

theorem slice_length (buf : Bytes) (off len : Nat) (h : off + len ≤ buf.length) :
    (slice buf off len).length = len := by
  simp [slice]; omega

/-- `BioWrite(data, size)` on the `len` bytes at offset `off` of the caller's buffer -/
theorem tie_BioWrite (W : Net.World ω) (E : Engine σ) (buf : Bytes) (fuel : Nat) (w : TWSt σ ω) (off len : Nat)
    (h : off + len ≤ buf.length) :
    Gen.Tls_BioWrite (tlsWorld W E buf) fuel off len w
      = (resOfOut (fun (n : Nat) => (n : Int)) (bioWrite W w.s (slice buf off len)).1,
         { w with s := (bioWrite W w.s (slice buf off len)).2 }) := by
  have hl := slice_length buf off len h
  rcases w with ⟨⟨⟨le, ps, rt, ir, iw, dss, pe, wire, bw, ec⟩, e, ww⟩, ans, rx⟩
  cases iw
  · by_cases h1 : rt < 0
    · simp only [Gen.Tls_BioWrite, bioWrite, Gen.M.bind, tw_get_isWritable, tw_get_remainingTime, tw_sockSendAll,
        Bool.false_eq_true, if_false, h1, if_true, noteWrite, noteSend]
      rcases sendAll W ww (slice buf off len) with ⟨sent, x, w'⟩
      cases x <;> simp [resOfOut, Gen.M.pure]
    · by_cases h2 : rt = 0
      · subst h2
        simp only [Gen.Tls_BioWrite, bioWrite, Gen.M.bind, tw_get_isWritable, tw_get_remainingTime, tw_sockSendTry,
          Bool.false_eq_true, if_false, Int.lt_irrefl, if_true, noteWrite, noteSend]
        rcases sendTry W ww (slice buf off len) with ⟨sent, x, w'⟩
        cases x <;> simp [resOfOut, Gen.M.pure, Gen.M.bind]
      · simp only [Gen.Tls_BioWrite, bioWrite, Gen.M.bind, tw_get_isWritable, tw_get_remainingTime, tw_sockSendSome,
          Bool.false_eq_true, if_false, h1, h2, noteWrite, noteSend, Gen.Clocked_ctor_now, tw_clockNow, Gen.M.pure,
          deadline_ns, ediv_ns]
        rcases sendSome W ww (slice buf off len) (W.now ww + rt) (W.now ww) with ⟨⟨sent, x, w'⟩, tick⟩
        cases x <;> simp [resOfOut, Gen.M.pure, Gen.M.bind, rem_ns, setTimeout, hl]
        by_cases hs : sent = len <;> simp [hs] <;> omega
  · simp only [Gen.Tls_BioWrite, bioWrite, Gen.M.bind, tw_get_isWritable, tw_set_isWritable, tw_sockSendNow, if_true,
      noteWrite, noteSend]
    rcases sendNow W ww (slice buf off len) with ⟨sent, x, w'⟩
    cases x <;> simp [resOfOut, Gen.M.pure]

/-- `DriverQuery(events)`: its return value (`SSL_pending() > 0`, F8) and the POLLOUT bit of `events` afterwards -/
theorem tie_DriverQuery (W : Net.World ω) (E : Engine σ) (buf : Bytes) (fuel : Nat) (w : TWSt σ ω) (po : Bool) :
    Gen.Tls_DriverQuery (tlsWorld W E buf) fuel po w
      = (.ok (driverReceived E w.s, (driverQuery E w.s po).1), { w with s := (driverQuery E w.s po).2 }) := by
  rcases w with ⟨⟨⟨le, ps, rt, ir, iw, dss, pe, wire, bw, ec⟩, e, ww⟩, ans, rx⟩
  cases hi : E.initFinished e <;> cases le <;> cases dss <;> cases hp : E.pending e <;>
    simp [Gen.Tls_DriverQuery, driverQuery, driverReceived, Gen.M.bind, Gen.M.pure, codeOf, hi, hp]

/-- the configuration the generated code corresponds to: the current source, `assert`s compiled out -/
def CfgN : Cfg := { Cfg.current with asserts := false }

/-! ### the retry loop of `Read(data, size)`

The generated loop counts `i = 1 .. handshakeStepsMax` up, the model's `readLoop` counts the rounds left down.  What the
engine must promise for the two to agree: a successful `SSL_read(ssl, data, n)` delivers between 1 and `n` bytes (libssl's
contract; with 0 bytes the C++ would treat the call as failed, the model as a delivery of nothing). -/

/-- libssl's promise for `SSL_read` with a buffer of `size` bytes -/
def ReadContract (E : Engine σ) (size : Nat) : Prop :=
  ∀ e, AllLeaves (fun ans out _ => ∀ k, ans = .done k → out ≠ [] ∧ out.length ≤ size) (E.sslRead e size)

theorem stepsMaxN : CfgN.stepsMax = 10 := by decide
theorem assertsN : CfgN.asserts = false := rfl

/-- the loop of `Read`: `i` rounds left in the model = loop variable `stepsMax + 1 - i` in the C++ -/
theorem read_loop_tie (W : Net.World ω) (E : Engine σ) (buf : Bytes) (fuel size : Nat) (hs : size < 2147483648)
    (hE : ReadContract E size) :
    ∀ (i n : Nat) (iv : Int) (w : TWSt σ ω), iv = 11 - (i : Int) → i ≤ 10 → i < n →
      ∃ a r, Gen.Tls_Read_loop1 (tlsWorld W E buf) fuel size n iv w
        = (resOfOut (fun bs => (List.length bs : Int)) (readLoop CfgN W E size i w.s).1,
           ⟨(readLoop CfgN W E size i w.s).2, a, r⟩) := by
  have hbm : Int.bmod (size : Int) 4294967296 = size := by
    rw [Int.bmod_eq_of_le] <;> omega
  intro i
  induction i with
  | zero =>
    intro n iv w hiv _ hn
    obtain ⟨n', rfl⟩ : ∃ n', n = n' + 1 := ⟨n - 1, by omega⟩
    refine ⟨w.ans, w.rx, ?_⟩
    subst hiv
    simp (disch := omega) [Gen.Tls_Read_loop1, readLoop, resOfOut, Gen.M.pure]
  | succ i ih =>
    intro n iv w hiv hi hn
    obtain ⟨n', rfl⟩ : ∃ n', n = n' + 1 := ⟨n - 1, by omega⟩
    have hle : iv ≤ 10 := by omega
    have hspec := (interp_spec (W := W) _ _ (hE w.s.e) w.s).2.2.1
    simp only [Gen.Tls_Read_loop1, readLoop, readRound, Gen.M.bind, hbm, tw_sslRead, Int.toNat_natCast, hle, if_true]
    rcases hI : interp W w.s (E.sslRead w.s.e size) with ⟨o, s1⟩
    rw [hI] at hspec
    rcases o with ⟨ans, out⟩ | x | m
    · have hc := hspec ans out rfl
      cases hA : ans with
      | done k =>
        obtain ⟨hne, hlen⟩ := hc k hA
        have hpos : 0 < out.length := List.length_pos_iff.mpr hne
        refine ⟨.done k, out, ?_⟩
        have h1 : ¬ ((out.length : Int) ≤ 0) := by omega
        have h2 : (out.length : Int) % 18446744073709551616 = out.length := by omega
        have hr : readRes (SslAns.done k) out = (out.length : Int) := rfl
        simp (disch := omega) only [hr, if_neg, if_pos]
        simp [resOfOut, Gen.M.pure, h2]
      | _ =>
        all_goals
          simp only [readRes, tie_HandleResult, Gen.M.bind]
          rcases hH : handleResult W (noteCall E s1 true [] _) _ with ⟨ho, s2⟩
          rcases ho with b | x | m
          · cases b
            · exact ⟨ans, out, by simp [hA, hH, resOfOut, Gen.M.pure, Gen.M.bind, tie_HandleResult, assertsN]⟩
            · obtain ⟨a, r, h⟩ := ih n' (iv + 1) ⟨s2, ans, out⟩ (by omega) (by omega) (by omega)
              simp only [hA] at h
              exact ⟨a, r, by simp [hA, hH, resOfOut, Gen.M.pure, Gen.M.bind, tie_HandleResult, assertsN, h]⟩
          · exact ⟨ans, out, by simp [hA, hH, resOfOut, Gen.M.bind, tie_HandleResult]⟩
          · exact ⟨ans, out, by simp [hA, hH, resOfOut, Gen.M.bind, tie_HandleResult]⟩
    · exact ⟨w.ans, w.rx, by simp [resOfOut]⟩
    · exact ⟨w.ans, w.rx, by simp [resOfOut]⟩

/-! ### the entry points, relative to the retry loops

The entry points are first tied under the hypothesis that the retry loop they call corresponds to the model's (`ReadCorr` /
`WriteCorr`, lemmas `*_rel`); both are theorems (`tie_Read`, `tie_Write`, given libssl's contracts), so the entry points are
tied unconditionally at the end of this file. -/

/-- "`Gen.Tls_Read` corresponds to `tlsRead`" (count for bytes; the final world is the model's final state) -/
def ReadCorr (W : Net.World ω) (E : Engine σ) (buf : Bytes) (fuel size : Nat) : Prop :=
  ∀ w : TWSt σ ω, ∃ a r, Gen.Tls_Read (tlsWorld W E buf) fuel size w
    = (resOfOut (fun bs => (List.length bs : Int)) (tlsRead CfgN W E w.s size).1, ⟨(tlsRead CfgN W E w.s size).2, a, r⟩)

/-- `Read(data, size)`: `HandleLastError()`, then the retry loop -/
theorem tie_Read (W : Net.World ω) (E : Engine σ) (buf : Bytes) (fuel size : Nat) (hs : size < 2147483648)
    (hE : ReadContract E size) (hf : 10 < fuel) : ReadCorr W E buf fuel size := by
  intro w
  simp only [Gen.Tls_Read, tlsRead, Gen.M.bind, tie_HandleLastError, stepsMaxN]
  rcases handleLastError W w.s with ⟨o, s'⟩
  rcases o with b | x | m
  · cases b
    · exact ⟨w.ans, w.rx, by simp [resOfOut, Gen.M.pure]⟩
    · obtain ⟨a, r, h⟩ := read_loop_tie W E buf fuel size hs hE 10 (Gen.loopFuel fuel) 1 ⟨s', w.ans, w.rx⟩ (by omega)
        (by omega) (by simp only [Gen.loopFuel]; omega)
      exact ⟨a, r, by simp [resOfOut, h]⟩
  · exact ⟨w.ans, w.rx, by simp [resOfOut]⟩
  · exact ⟨w.ans, w.rx, by simp [resOfOut]⟩

def WriteCorr (W : Net.World ω) (E : Engine σ) (buf : Bytes) (fuel : Nat) : Prop :=
  ∀ w : TWSt σ ω, ∃ a r, Gen.Tls_Write (tlsWorld W E buf) fuel 0 buf.length w
    = (resOfOut (fun (n : Nat) => (n : Int)) (tlsWrite CfgN W E w.s buf).1, ⟨(tlsWrite CfgN W E w.s buf).2, a, r⟩)

/-! ### the retry loop of `Write(data, size)` -/

/-- libssl's promise for `SSL_write_ex`: success means at least one and at most all of the bytes were taken -/
def WriteContract (E : Engine σ) : Prop :=
  ∀ e bs, AllLeaves (fun ans _ _ => ∀ k, ans = .done k → 0 < k ∧ k ≤ bs.length) (E.sslWrite e bs)

theorem slice_drop (buf : Bytes) (off : Nat) :
    slice buf (off : Int) ((0 + (buf.length : Int)) - (off : Int)) = buf.drop off := by
  simp only [slice, Int.toNat_natCast]
  apply List.take_of_length_le
  simp only [List.length_drop]
  omega

theorem slice_drop' (buf : Bytes) (off : Nat) :
    slice buf (off : Int) ((buf.length : Int) - (off : Int)) = buf.drop off := by
  have := slice_drop buf off
  simpa using this

theorem fixRoundN : CfgN.fixRoundReset = true := rfl

/-- the loop of `Write` on the caller's buffer from offset `off`: `i` rounds left in the model = loop variable `11 - i` -/
theorem write_loop_tie (W : Net.World ω) (E : Engine σ) (buf : Bytes) (fuel : Nat) (hb : buf.length < 9223372036854775808)
    (hE : WriteContract E) :
    ∀ (n i off : Nat) (iv : Int) (w : TWSt σ ω), iv = 11 - (i : Int) → i ≤ 10 → off ≤ buf.length →
      (buf.length - off) * 11 + i < n →
      ∃ a r, Gen.Tls_Write_loop1 (tlsWorld W E buf) fuel 0 buf.length n off iv w
        = (resOfOut (fun (rest : Bytes) => ((buf.length - rest.length : Nat) : Int)) (writeLoop CfgN W E i (buf.drop off) w.s).1,
           ⟨(writeLoop CfgN W E i (buf.drop off) w.s).2, a, r⟩) := by
  intro n
  induction n with
  | zero => intro i off iv w _ _ _ hm; omega
  | succ n ih =>
    intro i off iv w hiv hi hoff hm
    have hret : (((buf.length : Int) - ((0 + (buf.length : Int)) - (off : Int))) % 18446744073709551616) = (off : Int) := by omega
    have hlen : (buf.drop off).length = buf.length - off := List.length_drop
    have hres : ((buf.length - (buf.drop off).length : Nat) : Int) = (off : Int) := by rw [hlen]; omega
    cases i with
    | zero =>
      have h1 : ¬ (iv ≤ 10) := by omega
      refine ⟨w.ans, w.rx, ?_⟩
      rw [writeLoop]
      simp (disch := omega) [Gen.Tls_Write_loop1, h1, Gen.M.pure, resOfOut, hret, hres]
      omega
    | succ i' =>
      have hle : iv ≤ 10 := by omega
      by_cases hfull : off = buf.length
      · refine ⟨w.ans, w.rx, ?_⟩
        have he : buf.drop off = [] := by rw [hfull]; exact List.drop_length
        have h0 : ((0 + (buf.length : Int)) - (off : Int)) = 0 := by omega
        rw [writeLoop]
        simp [Gen.Tls_Write_loop1, h0, he, Gen.M.pure, resOfOut, hfull]
        omega
      · have hne : buf.drop off ≠ [] := by
          intro h; have := congrArg List.length h; simp at this; omega
        have h0 : ¬ (((0 + (buf.length : Int)) - (off : Int)) = 0) := by omega
        have hspec := (interp_spec (W := W) _ _ (hE w.s.e (buf.drop off)) w.s).2.2.1
        rw [writeLoop]
        simp only [Gen.Tls_Write_loop1, Gen.M.bind, tw_sslWriteEx, slice_drop, hle, h0, not_false_eq_true, and_self, if_true,
          hne, if_false, writeRound, assertsN, Bool.false_eq_true, false_and]
        rcases hI : interp W w.s (E.sslWrite w.s.e (buf.drop off)) with ⟨o, s1⟩
        rw [hI] at hspec
        rcases o with ⟨ans, out⟩ | x | m
        · have hc := hspec ans out rfl
          cases hA : ans with
          | done k =>
            obtain ⟨hk0, hk1⟩ := hc k hA
            rw [hlen] at hk1
            have hd : roundDecreases (buf.drop off) i' ((buf.drop off).drop k) 10 :=
              Or.inl (by simp only [List.length_drop]; omega)
            obtain ⟨a, r, h⟩ := ih 10 (off + k) 1 ⟨setPending (noteCall E s1 false (buf.drop off) (.done k)) [], .done k, w.rx⟩
              (by omega) (by omega) (by omega) (by omega)
            have hcast : ((off + k : Nat) : Int) = (off : Int) + (k : Int) := by omega
            have hs0 : slice buf 0 0 = [] := by simp [slice]
            simp only [hcast, List.drop_drop] at h hd
            refine ⟨a, r, ?_⟩
            simp [hk0, fixRoundN, stepsMaxN, hd, Gen.M.bind, hs0, h, List.drop_drop]
          | _ =>
            all_goals
              rcases hH : handleResult W (setPending (noteCall E s1 false (buf.drop off) ans) (buf.drop off)) ans with ⟨ho, s3⟩
              simp only [hA] at hH
              have hd : roundDecreases (buf.drop off) i' (buf.drop off) i' := Or.inr ⟨rfl, Nat.le_refl _⟩
              rcases ho with b | x | m
              · cases b
                · exact ⟨ans, w.rx, by simp [hA, hH, writeRetry, resOfOut, Gen.M.pure, Gen.M.bind, tie_HandleResult, slice_drop, slice_drop', hret, hres]; omega⟩
                · obtain ⟨a, r, h⟩ := ih i' off (iv + 1) ⟨s3, ans, w.rx⟩ (by omega) (by omega) hoff (by omega)
                  simp only [hA] at h
                  exact ⟨a, r, by simp [hA, hH, writeRetry, resOfOut, Gen.M.pure, Gen.M.bind, tie_HandleResult, slice_drop, slice_drop', assertsN, hd, h]⟩
              · exact ⟨ans, w.rx, by simp [hA, hH, writeRetry, resOfOut, Gen.M.bind, tie_HandleResult, slice_drop, slice_drop']⟩
              · exact ⟨ans, w.rx, by simp [hA, hH, writeRetry, resOfOut, Gen.M.bind, tie_HandleResult, slice_drop, slice_drop']⟩
        · exact ⟨w.ans, w.rx, by simp [resOfOut]⟩
        · exact ⟨w.ans, w.rx, by simp [resOfOut]⟩

/-- `Write(data, size)` on the whole buffer: `HandleLastError()`, then the retry loop -/
theorem tie_Write (W : Net.World ω) (E : Engine σ) (buf : Bytes) (fuel : Nat) (hb : buf.length < 9223372036854775808)
    (hE : WriteContract E) (hf : buf.length * 11 + 10 < fuel) : WriteCorr W E buf fuel := by
  intro w
  simp only [Gen.Tls_Write, tlsWrite, Gen.M.bind, tie_HandleLastError, stepsMaxN]
  rcases handleLastError W w.s with ⟨o, s'⟩
  rcases o with b | x | m
  · cases b
    · exact ⟨w.ans, w.rx, by simp [resOfOut, Gen.M.pure]⟩
    · obtain ⟨a, r, h⟩ := write_loop_tie W E buf fuel hb hE (Gen.loopFuel fuel) 10 0 1 ⟨s', w.ans, w.rx⟩ (by omega)
        (by omega) (by omega) (by simp only [Gen.loopFuel]; omega)
      simp only [List.drop_zero, Int.natCast_zero] at h
      refine ⟨a, r, ?_⟩
      rcases hw : writeLoop CfgN W E 10 buf s' with ⟨o2, s2⟩
      rw [hw] at h
      cases o2 <;> simp [resOfOut, h, hw]
  · exact ⟨w.ans, w.rx, by simp [resOfOut]⟩
  · exact ⟨w.ans, w.rx, by simp [resOfOut]⟩

/-- `Receive(data, size, timeout)`: `nullopt` for no bytes, and (319faf2) a stale WANT_READ is reset once the
handshake is finished -/
theorem receiveT_rel (W : Net.World ω) (E : Engine σ) (buf : Bytes) (fuel size : Nat) (hR : ReadCorr W E buf fuel size)
    (t : Int) (w : TWSt σ ω) :
    ∃ a r, Gen.Tls_ReceiveT (tlsWorld W E buf) fuel size t w
      = (resOfOut (fun bs => if bs = [] then none else some (List.length bs : Int)) (receiveT CfgN W E w.s size t).1,
         ⟨(receiveT CfgN W E w.s size t).2, a, r⟩) := by
  obtain ⟨a, r, h⟩ := hR ⟨setTimeout w.s t, w.ans, w.rx⟩
  simp only [Gen.Tls_ReceiveT, receiveT, Gen.M.bind, tw_set_remainingTime, h]
  rcases tlsRead CfgN W E (setTimeout w.s t) size with ⟨o, s'⟩
  cases o with
  | exn x => exact ⟨a, r, by simp [resOfOut]⟩
  | abort m => exact ⟨a, r, by simp [resOfOut]⟩
  | ok bs =>
    cases bs with
    | cons b bs' =>
      refine ⟨a, r, ?_⟩
      have hne : ¬ ((bs'.length : Int) + 1 = 0) := by omega
      simp [resOfOut, Gen.M.pure, hne]
    | nil =>
      refine ⟨a, r, ?_⟩
      cases hl : s'.g.lastError <;> cases hi : E.initFinished s'.e <;>
        simp [resOfOut, Gen.M.pure, Gen.M.bind, CfgN, Cfg.current, codeOf, hl, hi, setLastError, errOf]

/-- `Send(data, size, timeout)`: (ee81033) a stale WANT_WRITE is reset once the handshake is finished -/
theorem sendT_rel (W : Net.World ω) (E : Engine σ) (buf : Bytes) (fuel : Nat) (hW : WriteCorr W E buf fuel)
    (t : Int) (w : TWSt σ ω) :
    ∃ a r, Gen.Tls_SendT (tlsWorld W E buf) fuel 0 buf.length t w
      = (resOfOut (fun (n : Nat) => (n : Int)) (sendT CfgN W E w.s buf t).1, ⟨(sendT CfgN W E w.s buf t).2, a, r⟩) := by
  obtain ⟨a, r, h⟩ := hW ⟨setTimeout w.s t, w.ans, w.rx⟩
  simp only [Gen.Tls_SendT, sendT, Gen.M.bind, tw_set_remainingTime, h]
  rcases tlsWrite CfgN W E (setTimeout w.s t) buf with ⟨o, s'⟩
  cases o with
  | exn x => exact ⟨a, r, by simp [resOfOut]⟩
  | abort m => exact ⟨a, r, by simp [resOfOut]⟩
  | ok n =>
    refine ⟨a, r, ?_⟩
    cases hl : s'.g.lastError <;> cases hi : E.initFinished s'.e <;>
      simp [resOfOut, Gen.M.pure, Gen.M.bind, CfgN, Cfg.current, codeOf, hl, hi, setLastError, errOf]

/-! ### the driver-mode entry points ("we have been deemed readable / writable"), relative to the retry loops -/

/-- the state after the generated prefix `remainingTime = zeroTimeout; isReadable = true; if(lastError == WANT_READ) lastError = NONE` -/
theorem prepReadable_eq (g : Glue) (e : σ) (ww : ω) :
    (prepReadable ⟨g, e, ww⟩ : St σ ω) =
      ⟨{ g with remainingTime := 0, isReadable := true, lastError := if g.lastError = .wantRead then .none else g.lastError }, e, ww⟩ := rfl

theorem prepWritable_eq (g : Glue) (e : σ) (ww : ω) :
    (prepWritable ⟨g, e, ww⟩ : St σ ω) =
      ⟨{ g with remainingTime := 0, isWritable := true, lastError := if g.lastError = .wantWrite then .none else g.lastError }, e, ww⟩ := rfl

/-- `Receive(data, size)` (driver: readable): zero budget, `isReadable`, a cached WANT_READ forgotten; afterwards a
stale error is reset when nothing was read and the handshake is finished -/
theorem receiveReadable_rel (W : Net.World ω) (E : Engine σ) (buf : Bytes) (fuel size : Nat) (hR : ReadCorr W E buf fuel size)
    (w : TWSt σ ω) :
    ∃ a r, Gen.Tls_ReceiveReadable (tlsWorld W E buf) fuel size w
      = (resOfOut (fun bs => (List.length bs : Int)) (receiveReadable CfgN W E w.s size).1,
         ⟨(receiveReadable CfgN W E w.s size).2, a, r⟩) := by
  obtain ⟨a, r, h⟩ := hR ⟨prepReadable w.s, w.ans, w.rx⟩
  rcases w with ⟨⟨⟨le, ps, rt, ir, iw, dss, pe, wire, bw, ec⟩, e, ww⟩, ans, rx⟩
  simp only [prepReadable_eq] at h
  refine ⟨a, r, ?_⟩
  cases le <;>
    simp only [Gen.Tls_ReceiveReadable, receiveReadable, Gen.M.bind, tw_set_remainingTime, tw_set_isReadable,
      tw_get_lastError, tw_set_lastError, codeOf, setTimeout, setLastError, errOf, prepReadable_eq] <;>
    simp (disch := omega) only [if_pos, if_neg, if_true, if_false, reduceCtorEq] at h ⊢ <;>
    (generalize tlsRead CfgN W E _ size = rd at h ⊢
     (try simp only [Gen.M.bind])
     rcases rd with ⟨o, s'⟩
     rcases o with bs | x | m
     · cases bs with
       | nil => cases hi : E.initFinished s'.e <;> simp [h, resOfOut, Gen.M.pure, Gen.M.bind, hi, setLastError, errOf]
       | cons b bs' =>
         have hne : ¬ ((bs'.length : Int) + 1 = 0) := by omega
         simp [h, resOfOut, Gen.M.pure, Gen.M.bind, hne, setLastError, errOf]
     · simp [h, resOfOut, setLastError, errOf]
     · simp [h, resOfOut, setLastError, errOf])

/-- `SendSome(data, size)` (driver: writable): zero budget, `isWritable`, a cached WANT_WRITE forgotten -/
theorem sendSomeWritable_rel (W : Net.World ω) (E : Engine σ) (buf : Bytes) (fuel : Nat) (hW : WriteCorr W E buf fuel)
    (w : TWSt σ ω) :
    ∃ a r, Gen.Tls_SendSomeWritable (tlsWorld W E buf) fuel 0 buf.length w
      = (resOfOut (fun (n : Nat) => (n : Int)) (sendSomeWritable CfgN W E w.s buf).1,
         ⟨(sendSomeWritable CfgN W E w.s buf).2, a, r⟩) := by
  obtain ⟨a, r, h⟩ := hW ⟨prepWritable w.s, w.ans, w.rx⟩
  rcases w with ⟨⟨⟨le, ps, rt, ir, iw, dss, pe, wire, bw, ec⟩, e, ww⟩, ans, rx⟩
  simp only [prepWritable_eq] at h
  refine ⟨a, r, ?_⟩
  cases le <;>
    simp only [Gen.Tls_SendSomeWritable, sendSomeWritable, Gen.M.bind, tw_set_remainingTime, tw_set_isWritable,
      tw_get_lastError, tw_set_lastError, codeOf, setTimeout, setLastError, errOf, prepWritable_eq] <;>
    simp (disch := omega) only [if_pos, if_neg, if_true, if_false, reduceCtorEq] at h ⊢ <;>
    (generalize tlsWrite CfgN W E _ buf = rd at h ⊢
     (try simp only [Gen.M.bind])
     rcases rd with ⟨o, s'⟩
     rcases o with n | x | m <;> simp [h, resOfOut, Gen.M.pure, Gen.M.bind, setLastError, errOf])

/-- `DriverPending()`: nothing when the handshake is finished; otherwise "deemed writable" and one `Read` into a local
buffer of 64 bytes, which must not deliver application data -/
theorem driverPending_rel (W : Net.World ω) (E : Engine σ) (buf : Bytes) (fuel : Nat) (hR : ReadCorr W E buf fuel 64)
    (w : TWSt σ ω) :
    ∃ a r, Gen.Tls_DriverPending (tlsWorld W E buf) fuel w
      = (resOfOut id (driverPending CfgN W E w.s).1,
         if E.initFinished w.s.e then w else ⟨(driverPending CfgN W E w.s).2, a, r⟩) := by
  obtain ⟨a, r, h⟩ := hR ⟨prepWritable w.s, w.ans, w.rx⟩
  rcases w with ⟨⟨⟨le, ps, rt, ir, iw, dss, pe, wire, bw, ec⟩, e, ww⟩, ans, rx⟩
  have h64 : ((64 : Nat) : Int) = 64 := rfl
  simp only [prepWritable_eq, h64] at h
  refine ⟨a, r, ?_⟩
  cases hf : E.initFinished e
  · cases le <;>
      simp only [Gen.Tls_DriverPending, driverPending, Gen.M.bind, tw_sslIsInitFinished, tw_set_remainingTime, tw_set_isWritable,
        tw_get_lastError, tw_set_lastError, codeOf, setTimeout, setLastError, errOf, prepWritable_eq, hf,
        Bool.false_eq_true, if_false, if_true, ne_eq, not_true_eq_false, not_false_eq_true, eq_self, reduceCtorEq] <;>
      simp (disch := omega) only [if_pos, if_neg, if_true, if_false, reduceCtorEq, Bool.false_eq_true] at h ⊢ <;>
      (generalize tlsRead CfgN W E _ 64 = rd at h ⊢
       (try simp only [Gen.M.bind])
       rcases rd with ⟨o, s'⟩
       rcases o with bs | x | m
       · cases bs with
         | nil => simp [h, resOfOut, Gen.M.pure, Gen.M.bind, setLastError, errOf]
         | cons b bs' =>
           have hne : ¬ ((bs'.length : Int) + 1 = 0) := by omega
           simp [h, resOfOut, Gen.M.pure, Gen.M.bind, Gen.M.throw, hne, setLastError, errOf, toThrown]
       · simp [h, resOfOut, setLastError, errOf]
       · simp [h, resOfOut, setLastError, errOf])
  · simp [Gen.Tls_DriverPending, driverPending, Gen.M.bind, Gen.M.pure, hf, resOfOut]

/-! ### the receiving entry points, unconditionally (given libssl's `SSL_read` contract, a buffer below 2 GiB and fuel for
the `handshakeStepsMax` rounds) -/

theorem tie_ReceiveT (W : Net.World ω) (E : Engine σ) (buf : Bytes) (fuel size : Nat) (hs : size < 2147483648)
    (hE : ReadContract E size) (hf : 10 < fuel) (t : Int) (w : TWSt σ ω) :
    ∃ a r, Gen.Tls_ReceiveT (tlsWorld W E buf) fuel size t w
      = (resOfOut (fun bs => if bs = [] then none else some (List.length bs : Int)) (receiveT CfgN W E w.s size t).1,
         ⟨(receiveT CfgN W E w.s size t).2, a, r⟩) :=
  receiveT_rel W E buf fuel size (tie_Read W E buf fuel size hs hE hf) t w

theorem tie_ReceiveReadable (W : Net.World ω) (E : Engine σ) (buf : Bytes) (fuel size : Nat) (hs : size < 2147483648)
    (hE : ReadContract E size) (hf : 10 < fuel) (w : TWSt σ ω) :
    ∃ a r, Gen.Tls_ReceiveReadable (tlsWorld W E buf) fuel size w
      = (resOfOut (fun bs => (List.length bs : Int)) (receiveReadable CfgN W E w.s size).1,
         ⟨(receiveReadable CfgN W E w.s size).2, a, r⟩) :=
  receiveReadable_rel W E buf fuel size (tie_Read W E buf fuel size hs hE hf) w

theorem tie_DriverPending (W : Net.World ω) (E : Engine σ) (buf : Bytes) (fuel : Nat) (hE : ReadContract E 64)
    (hf : 10 < fuel) (w : TWSt σ ω) :
    ∃ a r, Gen.Tls_DriverPending (tlsWorld W E buf) fuel w
      = (resOfOut id (driverPending CfgN W E w.s).1,
         if E.initFinished w.s.e then w else ⟨(driverPending CfgN W E w.s).2, a, r⟩) :=
  driverPending_rel W E buf fuel (tie_Read W E buf fuel 64 (by decide) hE hf) w

/-! ### the sending entry points, unconditionally (given libssl's `SSL_write_ex` contract and fuel for the rounds) -/

theorem tie_SendT (W : Net.World ω) (E : Engine σ) (buf : Bytes) (fuel : Nat) (hb : buf.length < 9223372036854775808)
    (hE : WriteContract E) (hf : buf.length * 11 + 10 < fuel) (t : Int) (w : TWSt σ ω) :
    ∃ a r, Gen.Tls_SendT (tlsWorld W E buf) fuel 0 buf.length t w
      = (resOfOut (fun (n : Nat) => (n : Int)) (sendT CfgN W E w.s buf t).1, ⟨(sendT CfgN W E w.s buf t).2, a, r⟩) :=
  sendT_rel W E buf fuel (tie_Write W E buf fuel hb hE hf) t w

theorem tie_SendSomeWritable (W : Net.World ω) (E : Engine σ) (buf : Bytes) (fuel : Nat) (hb : buf.length < 9223372036854775808)
    (hE : WriteContract E) (hf : buf.length * 11 + 10 < fuel) (w : TWSt σ ω) :
    ∃ a r, Gen.Tls_SendSomeWritable (tlsWorld W E buf) fuel 0 buf.length w
      = (resOfOut (fun (n : Nat) => (n : Int)) (sendSomeWritable CfgN W E w.s buf).1,
         ⟨(sendSomeWritable CfgN W E w.s buf).2, a, r⟩) :=
  sendSomeWritable_rel W E buf fuel (tie_Write W E buf fuel hb hE hf) w

/-! ### `Shutdown()` (DESIGN.md §0.22)

The generated drain loop counts `i = 0 .. handshakeStepsMax - 1` up, the model's `drainLoop` counts the rounds left down; the
second `SSL_shutdown` is the continuation of every exit of the loop.  Needed from libssl: `ReadContract` for the 1024-byte
drain buffer (a successful `SSL_read` delivers at least one byte). -/

/-- the model's outcome of a step that yields no value -/
def resU (o : Out Unit) : Gen.Res Unit := resOfOut id o

/-- the second `SSL_shutdown` (its result is ignored) -/
theorem shut_finish_tie (W : Net.World ω) (E : Engine σ) (buf : Bytes) (w : TWSt σ ω) :
    Gen.M.bind (tlsWorld W E buf).sslShutdown (fun _ => Gen.M.pure ()) w
      = (resU (shutFinish W E w.s).1, ⟨(shutFinish W E w.s).2, w.ans, w.rx⟩) := by
  simp only [Gen.M.bind, tw_sslShutdown, shutFinish, shutCall]
  rcases interp W w.s (E.sslShutdown w.s.e) with ⟨o, s1⟩
  rcases o with ⟨ans, out⟩ | x | m <;> simp [resU, resOfOut, Gen.M.pure]

/-- the drain loop of `Shutdown`: `i` rounds left in the model = loop variable `10 - i` in the C++ -/
theorem drain_loop_tie (W : Net.World ω) (E : Engine σ) (buf : Bytes) (fuel : Nat) (hE : ReadContract E shutdownBuf) :
    ∀ (i n : Nat) (iv : Int) (w : TWSt σ ω), iv = 10 - (i : Int) → i ≤ 10 → i < n →
      ∃ a r, Gen.Tls_Shutdown_loop1 (tlsWorld W E buf) fuel n iv w
        = (resU (drainLoop W E i w.s).1, ⟨(drainLoop W E i w.s).2, a, r⟩) := by
  have hbm : Int.bmod (1024 : Int) 4294967296 = ((1024 : Nat) : Int) := by decide
  intro i
  induction i with
  | zero =>
    intro n iv w hiv _ hn
    obtain ⟨n', rfl⟩ : ∃ n', n = n' + 1 := ⟨n - 1, by omega⟩
    refine ⟨w.ans, w.rx, ?_⟩
    subst hiv
    have h10 : ¬ ((10 : Int) - ((0 : Nat) : Int) < 10) := by omega
    simp only [Gen.Tls_Shutdown_loop1, drainLoop, h10, if_false]
    exact shut_finish_tie W E buf w
  | succ i ih =>
    intro n iv w hiv hi hn
    obtain ⟨n', rfl⟩ : ∃ n', n = n' + 1 := ⟨n - 1, by omega⟩
    have hlt : iv < 10 := by omega
    have hspec := (interp_spec (W := W) _ _ (hE w.s.e) w.s).2.2.1
    simp only [Gen.Tls_Shutdown_loop1, drainLoop, Gen.M.bind, hbm, tw_sslRead, Int.toNat_natCast, hlt, if_true]
    simp only [shutdownBuf] at hspec ⊢
    rcases hI : interp W w.s (E.sslRead w.s.e 1024) with ⟨o, s1⟩
    rw [hI] at hspec
    rcases o with ⟨ans, out⟩ | x | m
    · have hc := hspec ans out rfl
      cases hA : ans with
      | done k =>
        obtain ⟨hne, hlen⟩ := hc k hA
        have hpos : 0 < out.length := List.length_pos_iff.mpr hne
        have h1 : ¬ ((out.length : Int) < 0) := by omega
        have h2 : ¬ ((out.length : Int) = 0) := by omega
        obtain ⟨a, r, h⟩ := ih n' (iv + 1) ⟨noteCall E s1 true [] (.done k), .done k, out⟩ (by omega) (by omega) (by omega)
        refine ⟨a, r, ?_⟩
        simp only [readRes, h1, h2, if_false]
        exact h
      | zeroReturn =>
        refine ⟨.zeroReturn, out, ?_⟩
        simp only [readRes, Int.lt_irrefl, if_false, if_true]
        exact shut_finish_tie W E buf ⟨noteCall E s1 true [] .zeroReturn, .zeroReturn, out⟩
      | _ =>
        all_goals
          simp only [readRes, tie_HandleResult, Gen.M.bind]
          rcases hH : handleResult W (noteCall E s1 true [] _) _ with ⟨ho, s2⟩
          rcases ho with b | x | m
          · cases b
            · refine ⟨ans, out, ?_⟩
              simp [↓ shut_finish_tie, hA, hH, resOfOut, Gen.M.bind, tie_HandleResult]
            · obtain ⟨a, r, h⟩ := ih n' (iv + 1) ⟨s2, ans, out⟩ (by omega) (by omega) (by omega)
              simp only [hA] at h
              exact ⟨a, r, by simp [hA, hH, resOfOut, Gen.M.pure, Gen.M.bind, tie_HandleResult, h]⟩
          · exact ⟨ans, out, by simp [hA, hH, resU, resOfOut, Gen.M.bind, tie_HandleResult]⟩
          · exact ⟨ans, out, by simp [hA, hH, resU, resOfOut, Gen.M.bind, tie_HandleResult]⟩
    · exact ⟨w.ans, w.rx, by simp [resU, resOfOut]⟩
    · exact ⟨w.ans, w.rx, by simp [resU, resOfOut]⟩

/-- `Shutdown()`: readiness flags cleared, one second of budget, `SSL_shutdown`, and unless both alerts are exchanged
already the drain loop followed by the second `SSL_shutdown` -/
theorem tie_Shutdown (W : Net.World ω) (E : Engine σ) (buf : Bytes) (fuel : Nat) (hE : ReadContract E shutdownBuf)
    (hf : 10 < fuel) (w : TWSt σ ω) :
    ∃ a r, Gen.Tls_Shutdown (tlsWorld W E buf) fuel w
      = (resU (tlsShutdown CfgN W E w.s).1, ⟨(tlsShutdown CfgN W E w.s).2, a, r⟩) := by
  simp only [Gen.Tls_Shutdown, tlsShutdown, shutCall, Gen.M.bind, tw_set_isReadable, tw_set_isWritable,
    tw_set_remainingTime, tw_sslShutdown, stepsMaxN]
  have hp : setTimeout { w.s with g := { ({ w.s with g := { w.s.g with isReadable := false } } : St σ ω).g with isWritable := false } }
      ((1 : Int) * 1000) = shutdownPrep w.s := by
    simp [shutdownPrep, setTimeout]
  simp only [hp]
  rcases hI : interp W (shutdownPrep w.s) (E.sslShutdown (shutdownPrep w.s).e) with ⟨o, s1⟩
  have he : (shutdownPrep w.s).e = w.s.e := rfl
  rcases o with ⟨ans, out⟩ | x | m
  · cases hA : ans with
    | done k =>
      cases k with
      | zero =>
        obtain ⟨a, r, h⟩ := drain_loop_tie W E buf fuel hE 10 (Gen.loopFuel fuel) 0 ⟨s1, w.ans, w.rx⟩ (by omega) (by omega)
          (by simp only [Gen.loopFuel]; omega)
        exact ⟨a, r, by simp [hI, he, shutRes, SslAns.shutDone, h]⟩
      | succ k => exact ⟨w.ans, w.rx, by simp [hI, he, shutRes, SslAns.shutDone, resU, resOfOut, Gen.M.pure]⟩
    | _ =>
      all_goals
        obtain ⟨a, r, h⟩ := drain_loop_tie W E buf fuel hE 10 (Gen.loopFuel fuel) 0 ⟨s1, w.ans, w.rx⟩ (by omega) (by omega)
          (by simp only [Gen.loopFuel]; omega)
        exact ⟨a, r, by simp [hI, he, shutRes, SslAns.shutDone, h]⟩
  · exact ⟨w.ans, w.rx, by simp [hI, he, resU, resOfOut]⟩
  · exact ⟨w.ans, w.rx, by simp [hI, he, resU, resOfOut]⟩

/-- **The drain, stated about the translated code itself.**  `Gen.Tls_Shutdown` - the member function as regenerated from
the AST of the current tree - run in the model's world for ANY OS and ANY engine that honours `ReadContract`: if its first
`SSL_shutdown` neither fails with an exception nor reports both alerts exchanged, and the call ends normally, then the
engine-call log has grown by `reads` entries, all `SSL_read`s, `1 ≤ reads ≤ 10`, and fewer than 10 only if the newest
delivered nothing.  (`tie_Shutdown` composed with `drainLoop_drains`; the model-level statement with `handshakeStepsMax`
left symbolic is `shutdown_reads_before_close` in Props/C18.lean.) -/
theorem gen_shutdown_reads (W : Net.World ω) (E : Engine σ) (buf : Bytes) (fuel : Nat) (hE : ReadContract E shutdownBuf)
    (hf : 10 < fuel) (w : TWSt σ ω) (ans : SslAns) (s1 : St σ ω)
    (h1 : shutCall W E (shutdownPrep w.s) = (.ok ans, s1)) (hd : ans.shutDone = false)
    (hok : (Gen.Tls_Shutdown (tlsWorld W E buf) fuel w).1 = .ok ()) :
    ∃ reads : List EngCall, (Gen.Tls_Shutdown (tlsWorld W E buf) fuel w).2.s.g.engCalls = reads ++ w.s.g.engCalls ∧
      reads ≠ [] ∧ reads.length ≤ 10 ∧ (∀ c ∈ reads, c.isRead = true ∧ c.arg = []) ∧
      (reads.length < 10 → ∃ c rest, reads = c :: rest ∧ c.ans.isDone = false) := by
  obtain ⟨a, r, h⟩ := tie_Shutdown W E buf fuel hE hf w
  rw [h] at hok ⊢
  have hk : s1.g.engCalls = w.s.g.engCalls := by
    have := shutCall_keeps (W := W) E (shutdownPrep w.s)
    rw [h1] at this
    exact this
  have hm : (tlsShutdown CfgN W E w.s).1 = .ok () := by
    simp only [resU] at hok
    cases ho : (tlsShutdown CfgN W E w.s).1 with
    | ok u => rfl
    | exn e => rw [ho] at hok; simp [resOfOut] at hok
    | abort m => rw [ho] at hok; simp [resOfOut] at hok
  simp only [tlsShutdown, h1, hd, stepsMaxN] at hm ⊢
  obtain ⟨reads, e1, e2, e3, e4, e5⟩ := drainLoop_drains (W := W) E 10 s1 hm
  exact ⟨reads, by rw [← hk]; simpa using e1, e4 (by decide), e2, e3, e5⟩

end SockModel.Props.C18Tie

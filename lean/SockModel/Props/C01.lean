import SockModel.Model.SendLoopLemmas
import SockModel.Spec.C01
import SockModel.Generated.Funcs
import SockModel.Model.GenWorld
import SockModel.Generated.Loops
import SockModel.Props.C16
/-!
# C01  TCP byte-stream integrity and exact send accounting

Property theorems.  `os` carries the answers of the operating system - *any* list of
`poll` / `send` / `recv` answers (short writes of any pattern, EAGAIN-like zero
progress is `accept 0` on an empty buffer only, failures at any position, signals) -
and the record `wire os` of the bytes the library really handed to `send`, in order.
The theorems hold for every such script, every payload and every timeout in the
documented domain `|T| < 2^31`.

The TCP connection itself is the assumption A-TCP (a connected pair is a FIFO byte
queue); `Chan` below states it and `stream_integrity` composes the two.

The loop invariants `sendAllLoop_inv` / `sendTry_inv` / `sendSomeLoop_inv` are proved in
`Model/SendLoopLemmas.lean` (shared with `Spec/C01.lean`); `spec_holds_on_model` (end of the file, before the
source-derived tie) links the run-time oracle of `./check C01` to the model.
-/
namespace SockModel.SendLoop
open SockModel.Deadline

/-- loop invariant of `SendAll` -/
theorem sendAllLoop_spec (fuel : Nat) (rem : Bytes) (sent : Nat) (os os' : Os) (r : Res Nat)
    (h : sendAllLoop fuel rem sent os = (r, os')) :
    ∃ n, n ≤ rem.length ∧ wire os' = wire os ++ rem.take n ∧
      (∀ m, r = .ok m → m = sent + rem.length ∧ n = rem.length) :=
  sendAllLoop_inv fuel rem sent os os' r h

/-- "A Send with unlimited timeout returns only after all its bytes were accepted (n = size)":
and exactly the caller's bytes were handed to the OS, whatever the short-write pattern. -/
theorem sendAll_returns_size (data : Bytes) (os os' : Os) (m : Nat) (h : sendAll data os = (.ok m, os')) :
    m = data.length ∧ wire os' = wire os ++ data := by
  obtain ⟨n, _, hw, hok⟩ := sendAllLoop_spec _ data 0 os os' (.ok m) h
  obtain ⟨h1, h2⟩ := hok m rfl
  refine ⟨by omega, ?_⟩
  rw [hw, h2, List.take_length]

/-- if an unlimited Send fails, what reached the OS is a prefix of the caller's bytes -/
theorem sendAll_fail_prefix (data : Bytes) (os os' : Os) (e : Exn) (h : sendAll data os = (.exn e, os')) :
    ∃ n, n ≤ data.length ∧ wire os' = wire os ++ data.take n := by
  obtain ⟨n, hn, hw, _⟩ := sendAllLoop_spec _ data 0 os os' (.exn e) h
  exact ⟨n, hn, hw⟩

/-- `SendTry` (timeout 0): `0 ≤ n ≤ size`, and exactly the first n bytes reached the OS -/
theorem sendTry_count (data : Bytes) (os os' : Os) (r : Res Nat) (h : sendTry data os = (r, os')) :
    ∃ n, n ≤ data.length ∧ wire os' = wire os ++ data.take n ∧ (∀ m, r = .ok m → m = n) :=
  sendTry_inv data os os' r h

/-- loop invariant of `SendSome` -/
theorem sendSomeLoop_spec (deadline : Int) (fuel : Nat) (rem : Bytes) (sent : Nat) (dnow : Int) (os os' : Os)
    (r : Res Nat) (h : sendSomeLoop deadline fuel rem sent dnow os = (r, os')) :
    ∃ n, n ≤ rem.length ∧ wire os' = wire os ++ rem.take n ∧ (∀ m, r = .ok m → m = sent + n) :=
  sendSomeLoop_inv deadline fuel rem sent dnow os os' r h

/-- "any other Send returns 0 ≤ n ≤ size": for every timeout mode the count returned is exactly the
number of leading bytes of the buffer that were handed to the OS - nothing lost, duplicated,
reordered or invented by the library, for every short-write pattern. -/
theorem send_accounting (data : Bytes) (T : Int) (os os' : Os) (r : Res Nat) (h : send data T os = (r, os')) :
    ∃ n, n ≤ data.length ∧ wire os' = wire os ++ data.take n ∧
      (∀ m, r = .ok m → m = n ∧ (T < 0 → m = data.length)) := by
  unfold send at h
  split at h
  · rename_i hneg
    cases r with
    | ok m =>
      obtain ⟨h1, h2⟩ := sendAll_returns_size data os os' m h
      exact ⟨data.length, Nat.le_refl _, by rw [h2, List.take_length], by intro m' hm; cases hm; exact ⟨h1, fun _ => h1⟩⟩
    | exn e =>
      obtain ⟨n, hn, hw⟩ := sendAll_fail_prefix data os os' e h
      exact ⟨n, hn, hw, by intro m hm; cases hm⟩
  · split at h
    · obtain ⟨n, hn, hw, hok⟩ := sendTry_count data os os' r h
      exact ⟨n, hn, hw, fun m hm => ⟨hok m hm, fun hT => by omega⟩⟩
    · obtain ⟨n, hn, hw, hok⟩ := sendSomeLoop_spec _ _ data 0 os.now os os' r h
      exact ⟨n, hn, hw, fun m hm => ⟨by have := hok m hm; omega, fun hT => by omega⟩⟩

/-- a sequence of Send calls with arbitrary payloads and timeouts -/
def sendMany : List (Bytes × Int) → Os → List (Res Nat) × Os
  | [], os => ([], os)
  | (d, T) :: rest, os =>
    let r := send d T os
    let rr := sendMany rest r.2
    (r.1 :: rr.1, rr.2)

/-- "the bytes the receiver obtains are exactly the concatenation, in call order, of the first n_i
bytes of each Send call, where n_i is the count that call returned" - sender half: the wire is that
concatenation (for a call that threw, some prefix of its buffer). -/
theorem send_sequence_wire (calls : List (Bytes × Int)) (os : Os) :
    ∃ ns : List Nat, ns.length = calls.length ∧
      wire (sendMany calls os).2 = wire os ++ ((calls.zip ns).map fun c => c.1.1.take c.2).flatten ∧
      (∀ i (hi : i < calls.length) m, (sendMany calls os).1[i]? = some (.ok m) → ns[i]? = some m) := by
  induction calls generalizing os with
  | nil => exact ⟨[], rfl, by simp [sendMany], by intro i hi; cases hi⟩
  | cons c rest ih =>
    obtain ⟨d, T⟩ := c
    obtain ⟨n, _, hw, hok⟩ := send_accounting d T os (send d T os).2 (send d T os).1 rfl
    obtain ⟨ns, hlen, hwire, hres⟩ := ih (send d T os).2
    refine ⟨n :: ns, by simp [hlen], ?_, ?_⟩
    · simp only [sendMany, List.zip_cons_cons, List.map_cons, List.flatten_cons]
      rw [hwire, hw, List.append_assoc]
    · intro i hi m hm
      cases i with
      | zero =>
        simp only [sendMany, List.getElem?_cons_zero, Option.some.injEq] at hm
        simp only [List.getElem?_cons_zero, Option.some.injEq]
        exact ((hok m hm).1).symm
      | succ i =>
        simp only [sendMany, List.getElem?_cons_succ] at hm
        simp only [List.getElem?_cons_succ]
        exact hres i (by simp at hi; omega) m hm

/-- "a Receive reports between 1 and the offered buffer size bytes, never 0"; a closed connection or a
failed `recv` is an exception, a timeout is `none`. -/
theorem recvNow_bounds (size : Nat) (os os' : Os) (bs : Bytes) (h : recvNow size os = (.ok bs, os')) :
    1 ≤ bs.length ∧ bs.length ≤ size := by
  unfold recvNow at h
  cases hr : os.recvs with
  | nil => rw [hr] at h; cases h
  | cons a rest =>
    rw [hr] at h
    cases a with
    | got data =>
      simp only at h
      split at h
      · cases h
      · rename_i hne
        cases h
        refine ⟨?_, by simp only [List.length_take]; omega⟩
        cases hb : List.take size data with
        | nil => simp [hb] at hne
        | cons x xs => simp
    | eof => cases h
    | fail e => cases h

theorem receive_chunk_bounds (size : Nat) (T : Int) (os os' : Os) (bs : Bytes)
    (h : receive size T os = (.ok (some bs), os')) : 1 ≤ bs.length ∧ bs.length ≤ size := by
  unfold receive at h
  cases hw : wait T os with
  | mk rw osw =>
    rw [hw] at h
    cases rw with
    | exn e => cases h
    | ok b =>
      cases b with
      | false => cases h
      | true =>
        simp only at h
        cases hr : recvNow size osw with
        | mk rr osr =>
          rw [hr] at h
          cases rr with
          | exn e => cases h
          | ok data =>
            cases h
            exact recvNow_bounds size osw os' bs hr

/-! ### A-TCP: the connection as a FIFO byte queue, and stream integrity end to end -/

structure Chan where
  q : Bytes := []            -- bytes in flight
  closed : Bool := false     -- the sender closed its side
  pushed : Bytes := []       -- everything the sender's OS accepted (ghost)
  delivered : Bytes := []    -- everything the receiver's `recv` handed over (ghost)
  eofSeen : Bool := false    -- the receiver was told "connection closed"

inductive ChanOp where
  | push (bs : Bytes)                 -- the sender's kernel accepted these bytes (`wire` grows by them)
  | pull (chunk size : Nat)           -- a `recv(size)`; the kernel has `chunk ≥ 1` bytes ready to hand over
  | close

def Chan.step (c : Chan) : ChanOp → Chan
  | .push bs => if c.closed then c else { c with q := c.q ++ bs, pushed := c.pushed ++ bs }
  | .pull chunk size =>
    if c.q.isEmpty then (if c.closed then { c with eofSeen := true } else c)
    else
      let k := min (max chunk 1) size
      { c with q := c.q.drop k, delivered := c.delivered ++ c.q.take k }
  | .close => { c with closed := true }

/-- "nothing is lost, duplicated, reordered or invented ... Everything sent before the peer closes is
delivered before Receive reports the closure": for every interleaving of sender pushes, receiver
pulls (any chunking, any buffer sizes) and the close, what was delivered plus what is still in flight
is exactly what was pushed, and the closure is reported only when nothing is in flight any more. -/
theorem stream_integrity (ops : List ChanOp) :
    let c := ops.foldl Chan.step {}
    c.delivered ++ c.q = c.pushed ∧ (c.eofSeen = true → c.q = [] ∧ c.delivered = c.pushed) := by
  suffices H : ∀ c0 : Chan,
      (c0.delivered ++ c0.q = c0.pushed ∧ (c0.eofSeen = true → c0.closed = true ∧ c0.q = [])) →
      ((ops.foldl Chan.step c0).delivered ++ (ops.foldl Chan.step c0).q = (ops.foldl Chan.step c0).pushed ∧
       ((ops.foldl Chan.step c0).eofSeen = true →
          (ops.foldl Chan.step c0).closed = true ∧ (ops.foldl Chan.step c0).q = [])) by
    intro c
    have := H {} ⟨rfl, by intro h; cases h⟩
    refine ⟨this.1, fun he => ⟨(this.2 he).2, ?_⟩⟩
    have h1 := this.1
    rw [(this.2 he).2, List.append_nil] at h1
    exact h1
  induction ops with
  | nil => intro c0 h; exact h
  | cons op ops ih =>
    intro c0 ⟨h1, h2⟩
    apply ih
    cases op with
    | push bs =>
      simp only [Chan.step]
      split
      · exact ⟨h1, h2⟩
      · rename_i hnc
        refine ⟨by simp only; rw [← List.append_assoc, h1], ?_⟩
        intro he
        simp only at he
        exact absurd (h2 he).1 hnc
    | pull chunk size =>
      simp only [Chan.step]
      split
      · split
        · rename_i hq hcl
          exact ⟨h1, fun _ => ⟨hcl, by simpa using hq⟩⟩
        · exact ⟨h1, h2⟩
      · refine ⟨?_, ?_⟩
        · simp only
          rw [List.append_assoc, List.take_append_drop]; exact h1
        · intro he; simp only at he
          have := h2 he
          exact ⟨this.1, by simp [this.2]⟩
    | close =>
      refine ⟨h1, ?_⟩
      intro he
      exact ⟨rfl, (h2 he).2⟩

/-! ### non-vacuity -/

example : (sendAll [1, 2, 3, 4, 5] { polls := [.ready 0, .eintr 3, .ready 1], sends := [.accept 2, .accept 3] }).1
    = .ok 5 := by decide
example : wire (sendAll [1, 2, 3, 4, 5] { polls := [.ready 0, .ready 0], sends := [.accept 2, .fail 32] }).2
    = [1, 2] := by decide

end SockModel.SendLoop

/-! ## The run-time oracle is a theorem of the model (`Spec/C01.lean`) -/
namespace SockModel.Spec.C01
/-- the predicate `./check C01` evaluates on the implementation's observations (`Spec/C01.lean`: `specStep`
with `specSend`, `specRecv`, `specSendTo`, `specRecvFrom`, `specListen`, the `sync` / `precv` comparisons,
`MSG_NOSIGNAL`) accepts every trace of the model (`send` / `receive` / `sendTo` / `receiveFrom` / `acceptT`
of `Model/SendLoop.lean` on arbitrary scripted OS answers, composed with the FIFO environment `Sys`), for
every history of any length.  `histOk` is the domain: receive buffers of at least one byte, no "timed out"
answer of the kernel to the unlimited poll of a `SendTo`, one datagram in flight to the raw peer at a time. -/
theorem spec_holds_on_model (history : List Op) (h : histOk {} history = true) :
    ∃ s, specRun {} (modelTrace {} history) = .ok s :=
  model_satisfies_spec history h
end SockModel.Spec.C01

/-! ## Source-derived tie (DESIGN.md §0.7)

`SockModel.Gen.*` (Generated/Funcs.lean) is regenerated on every run by tools/cxx2lean.py from the clang AST of
the CURRENT /repo/src: the timeout-sign dispatch of SocketImpl::Send (socket_impl.cpp).
Each theorem below states that the generated function and the hand-written model function agree for ALL
arguments; a change of the C++ function changes the generated definition and the theorem stops checking. -/
namespace SockModel.Props.C01
open SockModel SockModel.SendLoop
theorem tie_send_dispatch (data : Bytes) (t : Int) (os : Os) :
    send data t os =
      match Gen.Send_dispatch t with
      | .sendAll => sendAll data os
      | .sendTry => sendTry data os
      | .sendSomeLimited => sendSome data t os := by
  -- split on the MODEL's conditions; every generated `if` (whatever its order and polarity) is decided by `omega`
  by_cases h1 : t < 0 <;> by_cases h2 : t = 0 <;>
    simp (disch := omega) only [send, Gen.Send_dispatch, if_pos, if_neg, if_true, if_false, h1, h2] <;>
      (try (exfalso; omega))
end SockModel.Props.C01

/-! ## Source-derived tie, stage 2 (DESIGN.md §0.7): `SendNow`, `ReceiveNow`, `Receive`, `SendTry`, `SendAll`

Generated from the clang AST of src/socket_impl.cpp on every run (Generated/Loops.lean), run in the model's world
(`GenWorld.osWorld buf`: `::send(fd, data + off, len)` offers the bytes `(buf.drop off).take len`), tied to the
hand-written `SendLoop.*` for every script.  Uses the tie of `Wait` from Props/C16.lean (imported).
`Gen.SendSome` likewise (below). -/
namespace SockModel.Props.C01
open SockModel SockModel.SendLoop SockModel.Deadline SockModel.GenWorld

/-- `Res.map` -/
def mapRes {α β : Type} (f : α → β) : Res α → Res β
  | .ok v => .ok (f v)
  | .exn e => .exn e

/-- **tie of `SendNow`**: offered the `len` bytes at offset `off` of a buffer, it does what the model's `sendNow`
does with those bytes (result, exceptions, the `send` call and its argument, the script) -/
theorem tie_SendNow (buf : Bytes) (fuel off len : Nat) (h : off + len ≤ buf.length) (h64 : len < 2 ^ 64)
    (os : Os) (i : Bool) (e : Nat) :
    (resOf Int.toNat (Gen.SendNow (osWorld buf) fuel off len ⟨os, i, e⟩).1,
      (Gen.SendNow (osWorld buf) fuel off len ⟨os, i, e⟩).2.os) = sendNow ((buf.drop off).take len) os := by
  have hl : ((buf.drop off).take len).length = len := by simp; omega
  unfold Gen.SendNow sendNow
  simp only [Gen.M.bind, send_eq, Int.toNat_natCast]
  generalize (buf.drop off).take len = d at hl ⊢
  subst hl
  cases hs : os.sends with
  | nil => simp [resOf]
  | cons a rest =>
    cases a with
    | fail e' => simp [Gen.M.throw, Gen.M.bind, resOf, exnOf]
    | accept a =>
      by_cases h0 : min a d.length = 0 ∧ d.length > 0
      · have h1 : ((min a d.length : Nat) : Int) = 0 ∧ (d.length : Int) > 0 := by omega
        have h2 : ¬ ((min a d.length : Nat) : Int) < 0 := by omega
        simp [h0, Gen.M.throw, resOf, exnOf]
      · have h1 : ¬ (((min a d.length : Nat) : Int) = 0 ∧ (d.length : Int) > 0) := by omega
        have h2 : ¬ ((min a d.length : Nat) : Int) < 0 := by omega
        have h3 : (((min a d.length : Nat) : Int) % 18446744073709551616).toNat = min a d.length := by omega
        simp only [h0, h1, h2, if_false, Gen.M.pure, resOf, h3]

/-- **tie of `ReceiveNow`** (the generated code returns the count, the model the bytes) -/
theorem tie_ReceiveNow (buf : Bytes) (fuel size : Nat) (h64 : size < 2 ^ 64) (os : Os) (i : Bool) (e : Nat) :
    (resOf Int.toNat (Gen.ReceiveNow (osWorld buf) fuel size ⟨os, i, e⟩).1,
      (Gen.ReceiveNow (osWorld buf) fuel size ⟨os, i, e⟩).2.os)
      = (mapRes List.length (recvNow size os).1, (recvNow size os).2) := by
  unfold Gen.ReceiveNow recvNow
  simp only [Gen.M.bind, recv_eq, Int.toNat_natCast]
  cases hr : os.recvs with
  | nil => simp [resOf, mapRes]
  | cons a rest =>
    cases a with
    | eof => simp [Gen.M.throw, resOf, exnOf, mapRes]
    | fail e' => simp [Gen.M.throw, Gen.M.bind, resOf, exnOf, mapRes]
    | got bs =>
      have hle : (bs.take size).length ≤ size := by simp; omega
      dsimp only
      generalize bs.take size = tk at hle ⊢
      cases tk with
      | nil =>
        simp [Gen.M.throw, resOf, exnOf, mapRes]
      | cons x xs =>
        have h4 : ((((x :: xs).length : Nat) : Int) % 18446744073709551616).toNat = (x :: xs).length := by omega
        have hl : (0 : Int) < (((x :: xs).length : Nat) : Int) := by simp only [List.length_cons]; omega
        simp (disch := omega) only [if_pos, if_neg, Gen.M.pure, resOf, mapRes, h4, List.isEmpty_cons]
        try simp

open SockModel.Props.C16 in
/-- **tie of `Receive(fd, data, size, timeout)`** -/
theorem tie_Receive (buf : Bytes) (fuel size : Nat) (h64 : size < 2 ^ 64) (t : Int) (os : Os) (i : Bool) (e : Nat)
    (hf : os.polls.length < fuel) :
    (resOf (Option.map Int.toNat) (Gen.Receive (osWorld buf) fuel size t ⟨os, i, e⟩).1,
      (Gen.Receive (osWorld buf) fuel size t ⟨os, i, e⟩).2.os)
      = (mapRes (Option.map List.length) (receive size t os).1, (receive size t os).2) := by
  obtain ⟨g, i', e', hg, hr⟩ := waitReadable_run buf fuel t os i e hf
  unfold Gen.Receive receive
  simp only [Gen.M.bind, hg]
  cases hw : wait t os with
  | mk r os1 =>
    rw [hw] at hr
    simp only at hr
    cases g with
    | halted => simp only [resOf] at hr; subst hr; simp [resOf, mapRes]
    | thrown x => simp only [resOf] at hr; subst hr; simp [resOf, mapRes]
    | ok b =>
      simp only [resOf, id] at hr
      subst hr
      cases b with
      | false => simp [Gen.M.pure, resOf, mapRes]
      | true =>
        have hn := tie_ReceiveNow buf fuel size h64 os1 i' e'
        simp only [Bool.not_true, if_false, if_true, not_true_eq_false, Gen.M.bind]
        generalize Gen.ReceiveNow (osWorld buf) fuel size ⟨os1, i', e'⟩ = q at hn ⊢
        generalize recvNow size os1 = m at hn ⊢
        obtain ⟨qr, qw⟩ := q
        obtain ⟨mr, mo⟩ := m
        simp only [Prod.mk.injEq] at hn
        obtain ⟨h1, h2⟩ := hn
        subst h2
        cases qr <;> cases mr <;> simp [resOf, mapRes, Gen.M.pure] at h1 ⊢ <;> first | exact h1 | simp_all

/-- how a generated `SendNow` runs, in the form the callers' proofs use -/
theorem sendNow_run (buf : Bytes) (fuel off len : Nat) (h : off + len ≤ buf.length) (h64 : len < 2 ^ 64)
    (os : Os) (i : Bool) (e : Nat) :
    ∃ g i' e', Gen.SendNow (osWorld buf) fuel off len ⟨os, i, e⟩ = (g, ⟨(sendNow ((buf.drop off).take len) os).2, i', e'⟩) ∧
      resOf Int.toNat g = (sendNow ((buf.drop off).take len) os).1 ∧ (∀ v, g = .ok v → 0 ≤ v) := by
  have h1 := tie_SendNow buf fuel off len h h64 os i e
  have h2 : ∀ v, (Gen.SendNow (osWorld buf) fuel off len ⟨os, i, e⟩).1 = .ok v → 0 ≤ v := by
    intro v
    unfold Gen.SendNow
    simp only [Gen.M.bind, send_eq]
    cases os.sends with
    | nil => simp
    | cons a rest =>
      cases a <;> simp only [] <;> repeat' split
      all_goals simp [Gen.M.throw, Gen.M.pure, Gen.M.bind]
      all_goals omega
  generalize Gen.SendNow (osWorld buf) fuel off len ⟨os, i, e⟩ = r at h1 h2
  obtain ⟨g, ⟨o, i', e'⟩⟩ := r
  refine ⟨g, i', e', ?_, ?_, fun v hv => h2 v (by simp [hv])⟩
  · have : o = (sendNow ((buf.drop off).take len) os).2 := by rw [← h1]
    rw [this]
  · rw [← h1]

open SockModel.Props.C16 in
/-- **tie of `SendTry`** -/
theorem tie_SendTry (buf : Bytes) (fuel : Nat) (h64 : buf.length < 2 ^ 64) (os : Os) (i : Bool) (e : Nat)
    (hf : os.polls.length < fuel) :
    (resOf Int.toNat (Gen.SendTry (osWorld buf) fuel 0 buf.length ⟨os, i, e⟩).1,
      (Gen.SendTry (osWorld buf) fuel 0 buf.length ⟨os, i, e⟩).2.os) = sendTry buf os := by
  obtain ⟨g, i', e', hg, hr⟩ := waitWritable_run buf fuel 0 os i e hf
  unfold Gen.SendTry sendTry
  simp only [Gen.M.bind, hg]
  cases hw : wait 0 os with
  | mk r os1 =>
    rw [hw] at hr
    simp only at hr
    cases g with
    | halted => simp only [resOf] at hr; subst hr; simp [resOf]
    | thrown x => simp only [resOf] at hr; subst hr; simp [resOf]
    | ok b =>
      simp only [resOf, id] at hr
      subst hr
      cases b with
      | false => simp [Gen.M.pure, resOf]
      | true =>
        obtain ⟨q, i2, e2, hq, hqr, _⟩ := sendNow_run buf fuel 0 buf.length (by omega) h64 os1 i' e'
        have hb : (buf.drop 0).take buf.length = buf := by simp
        rw [hb] at hq hqr
        have hq' : Gen.SendNow (osWorld buf) fuel (0 : Int) (buf.length : Int) ⟨os1, i', e'⟩ = _ := hq
        simp only [Bool.not_true, if_false, if_true, not_true_eq_false, Gen.M.bind, hq']
        cases q <;> simp [resOf, Gen.M.pure] at hqr ⊢ <;> rw [hqr]

section
open SockModel.Props.C16
/-! ### the send loops (`SendAll`, `SendSome`), shape-robust

The translator gives every send loop the canonical state "offset of the next byte" (a shrinking `string_view` and a
byte counter translate to the same loop signature: all parameters and unchanged locals as fixed arguments, the cursor
as the only changing one besides `deadline.now`).  The proofs never name an argument expression of the generated
code: `SendNow`'s arguments are rewritten to the canonical `↑off`, `↑len` by `sendNow_canon` with `omega` side goals,
the induction hypothesis is applied by `rw` with the loop argument left open, and the generated `if`s are split in
whatever polarity they come (`tie_send_step`). -/

/-- whatever expressions the generated code passes to `SendNow`: if they denote offset `off` and length `len`
(side goals for `omega`), the call is the canonical one -/
theorem sendNow_canon (buf : Bytes) (fuel : Nat) (a b : Int) (off len : Nat) (ha : a = (off : Int)) (hb : b = (len : Int)) (w : WSt) :
    Gen.SendNow (osWorld buf) fuel a b w = Gen.SendNow (osWorld buf) fuel (off : Int) (len : Int) w := by
  subst ha hb; rfl

/-- the two exits / the continuation of a send loop after `k` more bytes were taken: closes a goal whose
generated side is an `if` in whatever polarity and arithmetic form -/
macro "tie_send_step" ih:term : tactic => `(tactic| (
  try split
  all_goals (try simp only [and_true, true_and, or_false, false_or, and_false, false_and, or_true, true_or,
    not_true_eq_false, not_false_eq_true] at *)
  all_goals first
    | (exfalso; omega)
    | (simp [Gen.M.pure, resOf]; omega)
    | (rw [$ih:term]; all_goals first | omega | (simp [List.drop_drop, Nat.add_comm]; done))))

theorem sendAll_loop_tie (buf : Bytes) (fuel : Nat) (h64 : buf.length < 2 ^ 64) :
    ∀ (n : Nat) (a : Int) (off : Nat) (os : Os) (i : Bool) (e : Nat), a = off → off ≤ buf.length →
      os.polls.length < fuel → os.sends.length < n →
      (resOf Int.toNat (Gen.SendAll_loop1 (osWorld buf) fuel 0 buf.length (-1) n a ⟨os, i, e⟩).1,
        (Gen.SendAll_loop1 (osWorld buf) fuel 0 buf.length (-1) n a ⟨os, i, e⟩).2.os)
        = sendAllLoop (os.sends.length + 1) (buf.drop off) off os := by
  intro n
  induction n with
  | zero => intro a off os i e _ _ _ h; omega
  | succ n ih =>
    intro a off os i e ha hinv hp hs
    obtain ⟨g, i1, e1, hg, hr⟩ := waitWritable_run buf fuel (-1) os i e hp
    rw [sendAllLoop]
    simp only [Gen.SendAll_loop1, Gen.M.bind, hg]
    cases hw : wait (-1) os with
    | mk r os1 =>
      have hwf := wait_spec hw (by decide) (by decide)
      rw [hw] at hr
      simp only at hr
      cases g with
      | halted => simp only [resOf] at hr; subst hr; simp [resOf]
      | thrown x => simp only [resOf] at hr; subst hr; simp [resOf]
      | ok b =>
        simp only [resOf, id] at hr
        subst hr
        obtain ⟨q, i2, e2, hq, hqr, hpos⟩ :=
          sendNow_run buf fuel off (buf.length - off) (by omega) (by omega) os1 i1 e1
        have hb : (buf.drop off).take (buf.length - off) = buf.drop off := by
          apply List.take_of_length_le; simp
        rw [hb] at hq hqr
        dsimp only
        rw [sendNow_canon buf fuel _ _ off (buf.length - off) ?ha ?hb]
        case ha => omega
        case hb => omega
        simp only [hq]
        cases hsn : sendNow (buf.drop off) os1 with
        | mk sr os2 =>
          have hsf := sendNow_facts hsn
          rw [hsn] at hqr
          simp only at hqr
          cases q with
          | halted => simp only [resOf] at hqr; subst hqr; simp [resOf]
          | thrown x => simp only [resOf] at hqr; subst hqr; simp [resOf]
          | ok v =>
            simp only [resOf] at hqr
            subst hqr
            have hv : 0 ≤ v := hpos v rfl
            obtain ⟨hpl, _, _, _, _, hsl, m, hm, _, hmk⟩ := hsf
            have hk := (hmk v.toNat rfl).1
            have hlen : (buf.drop off).length = buf.length - off := by simp
            have hsl' := hsl (by simp)
            have h6 : os2.sends.length + 1 = os.sends.length := by rw [← hwf.2.1]; exact hsl'
            have hpl2 : os2.polls.length < fuel := by rw [hpl]; omega
            by_cases hz : off + v.toNat = buf.length
            · have h2 : (buf.drop off).drop v.toNat = [] := by
                apply List.drop_of_length_le; omega
              simp only [h2, List.isEmpty_nil, if_true]
              tie_send_step (ih _ (off + v.toNat) os2 i2 e2 ?_ ?_ ?_ ?_)
            · have h2 : ((buf.drop off).drop v.toNat).isEmpty = false := by
                cases hd : (buf.drop off).drop v.toNat with
                | nil => have := congrArg List.length hd; simp at this; omega
                | cons _ _ => rfl
              simp only [h2, if_false, Bool.false_eq_true, ← h6]
              tie_send_step (ih _ (off + v.toNat) os2 i2 e2 ?_ ?_ ?_ ?_)

theorem tie_SendAll (buf : Bytes) (fuel : Nat) (h64 : buf.length < 2 ^ 64) (os : Os) (i : Bool) (e : Nat)
    (hp : os.polls.length < fuel) (hs : os.sends.length < fuel) :
    (resOf Int.toNat (Gen.SendAll (osWorld buf) fuel 0 buf.length ⟨os, i, e⟩).1,
      (Gen.SendAll (osWorld buf) fuel 0 buf.length ⟨os, i, e⟩).2.os) = sendAll buf os := by
  have := sendAll_loop_tie buf fuel h64 (Gen.loopFuel fuel) 0 0 os i e (by simp) (by omega) hp hs
  unfold Gen.SendAll sendAll
  simpa using this

/-- a wait leaves the `send` script alone and does not lengthen the `poll` script (no bound on the timeout) -/
theorem wait_frame (T : Int) (os : Os) :
    (wait T os).2.sends = os.sends ∧ (wait T os).2.polls.length ≤ os.polls.length := by
  have key1 : ∀ (t : Int) (f : Nat) (os : Os),
      (waitFixed t f os).2.sends = os.sends ∧ (waitFixed t f os).2.polls.length ≤ os.polls.length := by
    intro t f
    induction f with
    | zero => intro os; simp [waitFixed]
    | succ f ih =>
      intro os
      rw [waitFixed]
      cases hp : pollOnce t os with
      | none => simp
      | some p =>
        obtain ⟨a, os'⟩ := p
        have h1 := (pollOnce_calls hp).2.1
        have h2 := pollOnce_polls hp
        cases a <;> simp only <;> (try exact ⟨h1, by omega⟩)
        have := ih os'
        exact ⟨by rw [this.1, h1], by omega⟩
  have key2 : ∀ (dl : Int) (f : Nat) (os : Os),
      (waitLimited dl f os).2.sends = os.sends ∧ (waitLimited dl f os).2.polls.length ≤ os.polls.length := by
    intro dl f
    induction f with
    | zero => intro os; simp [waitLimited]
    | succ f ih =>
      intro os
      rw [waitLimited]
      cases hp : pollOnce (toMsec (Deadline.limited os.now dl).remaining) os with
      | none => simp
      | some p =>
        obtain ⟨a, os'⟩ := p
        have h1 := (pollOnce_calls hp).2.1
        have h2 := pollOnce_polls hp
        cases a <;> simp only <;> (try exact ⟨h1, by omega⟩)
        have := ih os'
        exact ⟨by rw [this.1, h1], by omega⟩
  unfold wait
  try split
  · exact key1 _ _ _
  · exact key2 _ _ _

theorem gen_timeLeft (now dl : Int) : (Gen.DeadlineLimited_TimeLeft now dl = true) = (now < dl) := by
  simp only [Gen.DeadlineLimited_TimeLeft]
  apply propext
  constructor <;> intro h
  · have : decide (now < dl) = true := by revert h; tie_bool_arith
    simpa using this
  · have : decide (now < dl) = true := by simpa using h
    revert this; tie_bool_arith

theorem sendSome_loop_tie (buf : Bytes) (fuel : Nat) (h64 : buf.length < 2 ^ 64) (dnow0 dl : Int) :
    ∀ (n : Nat) (a : Int) (off : Nat) (dnow : Int) (os : Os) (i : Bool) (e : Nat), a = off → off ≤ buf.length →
      os.polls.length < fuel → os.sends.length < n →
      (resOf Int.toNat (Gen.SendSome_loop1 (osWorld buf) fuel 0 buf.length dnow0 dl n dnow a ⟨os, i, e⟩).1,
        (Gen.SendSome_loop1 (osWorld buf) fuel 0 buf.length dnow0 dl n dnow a ⟨os, i, e⟩).2.os)
        = sendSomeLoop dl (os.sends.length + 1) (buf.drop off) off dnow os := by
  intro n
  induction n with
  | zero => intro a off dnow os i e _ _ _ h; omega
  | succ n ih =>
    intro a off dnow os i e ha hinv hp hs
    obtain ⟨g, i1, e1, hg, hr⟩ := waitWritable_run buf fuel (Deadline.limited dnow dl).remaining os i e hp
    rw [sendSomeLoop]
    simp only [Gen.SendSome_loop1, Gen.M.bind, gen_remaining, hg]
    have hwf := wait_frame (Deadline.limited dnow dl).remaining os
    cases hw : wait (Deadline.limited dnow dl).remaining os with
    | mk r os1 =>
      rw [hw] at hr hwf
      simp only at hr hwf
      cases g with
      | halted => simp only [resOf] at hr; subst hr; simp [resOf]
      | thrown x => simp only [resOf] at hr; subst hr; simp [resOf]
      | ok b =>
        simp only [resOf, id] at hr
        subst hr
        cases b with
        | false =>
          simp only [Bool.false_eq_true, not_false_eq_true, if_true, if_false]
          simp [Gen.M.pure, resOf]
          omega
        | true =>
          simp only [not_true_eq_false, if_true, if_false, Gen.M.bind, Gen.Clocked_Tick, clockNow_eq, Gen.M.pure]
          obtain ⟨q, i2, e2, hq, hqr, hpos⟩ :=
            sendNow_run buf fuel off (buf.length - off) (by omega) (by omega) os1 i1 e1
          have hb : (buf.drop off).take (buf.length - off) = buf.drop off := by
            apply List.take_of_length_le; simp
          rw [hb] at hq hqr
          rw [sendNow_canon buf fuel _ _ off (buf.length - off) ?ha ?hb]
          case ha => omega
          case hb => omega
          simp only [hq]
          cases hsn : sendNow (buf.drop off) os1 with
          | mk sr os2 =>
            have hsf := sendNow_facts hsn
            rw [hsn] at hqr
            simp only at hqr
            cases q with
            | halted => simp only [resOf] at hqr; subst hqr; simp [resOf]
            | thrown x => simp only [resOf] at hqr; subst hqr; simp [resOf]
            | ok v =>
              simp only [resOf] at hqr
              subst hqr
              have hv : 0 ≤ v := hpos v rfl
              obtain ⟨hpl, _, hnow, _, _, hsl, m, hm, _, hmk⟩ := hsf
              have hk := (hmk v.toNat rfl).1
              have hlen : (buf.drop off).length = buf.length - off := by simp
              have hsl' := hsl (by simp)
              have h6 : os2.sends.length + 1 = os.sends.length := by rw [← hwf.1]; exact hsl'
              have hpl2 : os2.polls.length < fuel := by rw [hpl]; omega
              simp only [gen_timeLeft]
              by_cases hz : off + v.toNat = buf.length
              · have h2 : (buf.drop off).drop v.toNat = [] := by
                  apply List.drop_of_length_le; omega
                simp only [h2, List.isEmpty_nil, true_or, if_true]
                tie_send_step (ih _ (off + v.toNat) os1.now os2 i2 e2 ?_ ?_ ?_ ?_)
              · have h2 : ((buf.drop off).drop v.toNat).isEmpty = false := by
                  cases hd : (buf.drop off).drop v.toNat with
                  | nil => have := congrArg List.length hd; simp at this; omega
                  | cons _ _ => rfl
                by_cases ht : os1.now < dl
                · simp only [h2, ht, Bool.false_eq_true, not_true_eq_false, or_self, if_false, ← h6]
                  tie_send_step (ih _ (off + v.toNat) os1.now os2 i2 e2 ?_ ?_ ?_ ?_)
                · simp only [h2, ht, Bool.false_eq_true, not_false_eq_true, or_true, if_true]
                  tie_send_step (ih _ (off + v.toNat) os1.now os2 i2 e2 ?_ ?_ ?_ ?_)

/-- **tie of `SendSome(fd, data, size, deadline)`** for every state of the caller's deadline object -/
theorem tie_SendSome (buf : Bytes) (fuel : Nat) (h64 : buf.length < 2 ^ 64) (dnow dl : Int) (os : Os) (i : Bool) (e : Nat)
    (hp : os.polls.length < fuel) (hs : os.sends.length < fuel) :
    (resOf Int.toNat (Gen.SendSome (osWorld buf) fuel 0 buf.length dnow dl ⟨os, i, e⟩).1,
      (Gen.SendSome (osWorld buf) fuel 0 buf.length dnow dl ⟨os, i, e⟩).2.os)
      = sendSomeLoop dl (os.sends.length + 1) buf 0 dnow os := by
  have := sendSome_loop_tie buf fuel h64 dnow dl (Gen.loopFuel fuel) 0 0 dnow os i e (by simp) (by omega) hp hs
  unfold Gen.SendSome
  simpa using this

/-- ... and as `SocketImpl::Send` calls it (`DeadlineLimited deadline(timeout)` constructed at the current clock
reading): the model's `sendSome` -/
theorem tie_SendSome_send (buf : Bytes) (fuel : Nat) (h64 : buf.length < 2 ^ 64) (t : Int) (os : Os) (i : Bool) (e : Nat)
    (hp : os.polls.length < fuel) (hs : os.sends.length < fuel) :
    (resOf Int.toNat
        (Gen.SendSome (osWorld buf) fuel 0 buf.length os.now (Gen.DeadlineLimited_deadline os.now t) ⟨os, i, e⟩).1,
      (Gen.SendSome (osWorld buf) fuel 0 buf.length os.now (Gen.DeadlineLimited_deadline os.now t) ⟨os, i, e⟩).2.os)
      = sendSome buf t os := by
  rw [tie_SendSome buf fuel h64 _ _ os i e hp hs]
  simp only [sendSome, Gen.DeadlineLimited_deadline, nsPerMs]
end
end SockModel.Props.C01

import SockModel.Model.AddrLemmas
import SockModel.Spec.C13
import SockModel.Generated.Funcs
import SockModel.Basic.TieTactic
/-!
# C13  Address ==, <, hash are lawful and provenance-independent; endpoints agree

Property theorems only (helpers live in `Model/AddrLemmas.lean`; the proofs of the order / injectivity /
map-insertion theorems are there too, in `namespace Lem`, because `Spec/C13.lean` uses them).  Every theorem
quantifies over *all* images (byte strings of any length and content), not over
a sample of addresses.  What is *not* a theorem: that two OS interfaces produce
the canonical image `encode fields` for the same endpoint - that is the
provenance hypothesis, checked on every run by the driver (`Drive/C13.lean`,
"canonical image").
-/
namespace SockModel.Addr

/-- "< is a strict total order": irreflexive -/
theorem lt_irrefl (a : Image) : lt a a = false := Lem.lt_irrefl a

/-- "< is a strict total order": transitive (mixed lengths included) -/
theorem lt_trans (a b c : Image) (hab : lt a b = true) (hbc : lt b c = true) : lt a c = true :=
  Lem.lt_trans a b c hab hbc

/-- "< is a strict total order": asymmetric -/
theorem lt_asymm (a b : Image) (h : lt a b = true) : lt b a = false := Lem.lt_asymm a b h

/-- "< is a strict total order": any two images are comparable or identical -/
theorem lt_total (a b : Image) : lt a b = true ∨ a = b ∨ lt b a = true := Lem.lt_total a b

/-- "== is an equivalence": `==` is identity of images -/
theorem eq_iff_same_image (a b : Image) : eq a b = true ↔ a = b := eq_iff a b

/-- "< ... consistent with ==": `a == b` exactly when neither `a < b` nor `b < a`
(the equivalence `std::map` derives from `<` is `==`) -/
theorem eq_iff_not_lt_not_gt (a b : Image) : eq a b = true ↔ (lt a b = false ∧ lt b a = false) :=
  Lem.eq_iff_not_lt_not_gt a b

theorem eq_refl (a : Image) : eq a a = true := (eq_iff a a).mpr rfl

theorem eq_symm (a b : Image) (h : eq a b = true) : eq b a = true :=
  (eq_iff b a).mpr ((eq_iff a b).mp h).symm

theorem eq_trans (a b c : Image) (h1 : eq a b = true) (h2 : eq b c = true) : eq a c = true :=
  (eq_iff a c).mpr (((eq_iff a b).mp h1).trans ((eq_iff b c).mp h2))

/-- `!=` is the negation of `==` -/
theorem ne_iff_not_eq (a b : Image) : ne a b = true ↔ eq a b = false := by
  simp [ne]

/-- `<` respects `==` on both sides (so `==`-equal keys are interchangeable in an ordered container) -/
theorem lt_congr (a a' b b' : Image) (ha : eq a a' = true) (hb : eq b b' = true) : lt a b = lt a' b' := by
  rw [(eq_iff a a').mp ha, (eq_iff b b').mp hb]

/-- "std::hash agrees with ==" - for every hash function of the image bytes -/
theorem hash_respects_eq {β : Type} (H : List UInt8 → β) (a b : Image) (h : eq a b = true) :
    hash H a = hash H b := by
  rw [(eq_iff a b).mp h]

/-- the same for views into a larger storage: bytes beyond `len` (what the kernel
left in a `sockaddr_storage`) influence neither `==` nor the hash -/
theorem view_hash_respects_eq {β : Type} (H : List UInt8 → β) (v w : View) (h : View.eq v w = true) :
    View.hash H v = View.hash H w :=
  hash_respects_eq H v.image w.image h

theorem view_garbage_irrelevant (img g1 g2 : List UInt8) :
    View.eq ⟨img ++ g1, img.length⟩ ⟨img ++ g2, img.length⟩ = true := by
  simp [View.eq, View.image, eq_refl]

/-- "== holds exactly when family, host, port agree" on canonical IPv4 images -/
theorem encode4_injective (ip1 ip2 : List UInt8) (p1 p2 : Nat)
    (h1 : ip1.length = 4) (h2 : ip2.length = 4) (hp1 : p1 < 65536) (hp2 : p2 < 65536) :
    eq (encode4 ip1 p1) (encode4 ip2 p2) = true ↔ (ip1 = ip2 ∧ p1 = p2) :=
  Lem.encode4_injective ip1 ip2 p1 p2 h1 h2 hp1 hp2

/-- "== holds exactly when family, host, port (and IPv6 scope) agree" on canonical IPv6 images -/
theorem encode6_injective (ip1 ip2 : List UInt8) (p1 p2 f1 f2 s1 s2 : Nat)
    (h1 : ip1.length = 16) (h2 : ip2.length = 16) (hp1 : p1 < 65536) (hp2 : p2 < 65536)
    (hf1 : f1 < 4294967296) (hf2 : f2 < 4294967296) (hs1 : s1 < 4294967296) (hs2 : s2 < 4294967296) :
    eq (encode6 ip1 p1 f1 s1) (encode6 ip2 p2 f2 s2) = true ↔ (ip1 = ip2 ∧ p1 = p2 ∧ f1 = f2 ∧ s1 = s2) :=
  Lem.encode6_injective ip1 ip2 p1 p2 f1 f2 s1 s2 h1 h2 hp1 hp2 hf1 hf2 hs1 hs2

/-- "== holds exactly when family, host, port (and IPv6 scope) agree": for well-formed field
tuples of either family, the images are `==` iff the tuples are identical - hence a difference in
a single bit of host or port separates, and an IPv4 address never equals an IPv6 one -/
theorem encode_injective (f g : Fields) (hf : f.wf) (hg : g.wf) :
    eq (encode f) (encode g) = true ↔ f = g := Lem.encode_injective f g hf hg

/-- "including addresses differing in a single bit of host or port": any difference in the field
tuple makes `==` false and orders the two images one way or the other -/
theorem differing_fields_separate (f g : Fields) (hf : f.wf) (hg : g.wf) (hne : f ≠ g) :
    eq (encode f) (encode g) = false ∧ (lt (encode f) (encode g) = true ∨ lt (encode g) (encode f) = true) := by
  have hneq : eq (encode f) (encode g) = false := by
    cases h : eq (encode f) (encode g)
    · rfl
    · exact absurd ((encode_injective f g hf hg).mp h) hne
  refine ⟨hneq, ?_⟩
  rcases lt_total (encode f) (encode g) with h | h | h
  · exact Or.inl h
  · rw [(eq_iff _ _).mpr h] at hneq; cases hneq
  · exact Or.inr h

/-- "mixed family": every IPv4 image is below every IPv6 image (ordering by length first), so the
order is total across families -/
theorem v4_lt_v6 (ip4 ip6 : List UInt8) (p4 p6 f s : Nat) (h4 : ip4.length = 4) (h6 : ip6.length = 16) :
    lt (encode4 ip4 p4) (encode6 ip6 p6 f s) = true ∧ lt (encode6 ip6 p6 f s) (encode4 ip4 p4) = false := by
  have l4 := length_encode4 ip4 p4 h4
  have l6 := length_encode6 ip6 p6 f s h6
  simp [lt, l4, l6]

/-! ### "Addresses work as keys of ordered and unordered containers" -/

def Sorted {V : Type} (m : List (Image × V)) : Prop := m.Pairwise (fun x y => lt x.1 y.1 = true)

/-- insertion keeps the tree order (keys strictly increasing, hence unique up to `==`) -/
theorem mapInsert_sorted {V : Type} (k : Image) (v : V) (m : List (Image × V)) (hs : Sorted m) :
    Sorted (mapInsert k v m) ∧ ∀ x ∈ mapInsert k v m, x.1 = k ∨ x ∈ m := by
  induction m with
  | nil => simp [mapInsert, Sorted]
  | cons hd rest ih =>
    obtain ⟨k0, v0⟩ := hd
    have hs' : Sorted rest := (List.pairwise_cons.mp hs).2
    have hhd := (List.pairwise_cons.mp hs).1
    unfold mapInsert
    by_cases h1 : lt k k0 = true
    · simp only [h1, if_true]
      refine ⟨?_, ?_⟩
      · apply List.pairwise_cons.mpr
        refine ⟨?_, hs⟩
        intro y hy
        rcases List.mem_cons.mp hy with rfl | hy
        · exact h1
        · exact lt_trans _ _ _ h1 (hhd y hy)
      · intro x hx
        rcases List.mem_cons.mp hx with rfl | hx
        · exact Or.inl rfl
        · exact Or.inr hx
    · by_cases h2 : lt k0 k = true
      · simp only [h1, h2, if_true]
        have ⟨ihs, ihm⟩ := ih hs'
        refine ⟨?_, ?_⟩
        · apply List.pairwise_cons.mpr
          refine ⟨?_, ihs⟩
          intro y hy
          rcases ihm y hy with e | hy
          · rw [e]; exact h2
          · exact hhd y hy
        · intro x hx
          rcases List.mem_cons.mp hx with rfl | hx
          · exact Or.inr (List.mem_cons_self ..)
          · rcases ihm x hx with e | hx
            · exact Or.inl e
            · exact Or.inr (List.mem_cons_of_mem _ hx)
      · simp only [h1, h2]
        have hk : k = k0 := by
          have := (eq_iff_not_lt_not_gt k k0).mpr ⟨by simpa using h1, by simpa using h2⟩
          exact (eq_iff k k0).mp this
        subst hk
        refine ⟨?_, ?_⟩
        · apply List.pairwise_cons.mpr
          exact ⟨fun y hy => hhd y hy, hs'⟩
        · intro x hx
          rcases List.mem_cons.mp hx with rfl | hx
          · exact Or.inl rfl
          · exact Or.inr (List.mem_cons_of_mem _ hx)

/-- a lookup after an insertion: the inserted key (any image `==` to it) finds the new value,
every other key finds what it found before -/
theorem mapFind_insert {V : Type} (k k' : Image) (v : V) (m : List (Image × V)) :
    mapFind k' (mapInsert k v m) = if k' = k then some v else mapFind k' m := Lem.mapFind_insert k k' v m

/-- refinement: the ordered container keyed through `<` behaves like a map keyed by the field
tuple - looking up `encode g` after inserting under `encode f` finds the new value iff `g = f` -/
theorem map_key_ok {V : Type} (f g : Fields) (hf : f.wf) (hg : g.wf) (v : V) (m : List (Image × V)) :
    mapFind (encode g) (mapInsert (encode f) v m) = if g = f then some v else mapFind (encode g) m := by
  rw [mapFind_insert]
  by_cases h : g = f
  · subst h; simp
  · have : encode g ≠ encode f := by
      intro e
      exact h ((encode_injective g f hg hf).mp ((eq_iff _ _).mpr e))
    simp [h, this]

/-- the same for the unordered container (one bucket; keys with equal hash): keyed through `==` -/
theorem bucket_key_ok {V : Type} (f g : Fields) (hf : f.wf) (hg : g.wf) (v : V) (m : List (Image × V)) :
    bucketFind (encode g) ((encode f, v) :: m) = if g = f then some v else bucketFind (encode g) m := by
  by_cases h : g = f
  · subst h; simp [bucketFind, eq_refl]
  · have : eq (encode g) (encode f) = false := (differing_fields_separate g f hg hf h).1
    simp [bucketFind, h, this]

/-! ### the run-time oracle is a theorem of the model (`Spec/C13.lean`) -/

/-- The predicate `./check C13` evaluates on the implementation's transcript (`specRun`: `==` iff the accessor
field tuples agree, `!=` its negation, exactly one of `<`, `==`, `>`, equal ⇒ equal `std::hash`, `<` / `==`
transitive and compatible over all triples of the reported relation, `std::map` / `std::unordered_map` find the
first address with the same tuple and hold one entry per distinct tuple, endpoint agreement per datagram and
per connection, a socket bound to port 0 reports a non-zero port, no crash / accessor failure / non-standard
exception) accepts every transcript block the MODEL produces - for every hash function `H` of the image bytes
and every history of any length in the domain `histOk` (field tuples well-formed with flowinfo 0, the kernel
assigns a non-zero 16-bit port, both ends of a datagram / connection are sockets of the same family - the
last excludes exactly the dual-stack situation of known finding F12, for which the predicate rejects the
model's own trace: `example` in `Spec/C13.lean`).  So a `spec` verdict on the implementation is a difference
between implementation and model, and the oracle is never stricter than the model. -/
theorem spec_holds_on_model (H : List UInt8 → UInt64) (history : List Op) (h : histOk {} history = true) :
    ∃ s, specRun {} (modelTrace H {} history) = .ok s :=
  model_satisfies_spec H history h

example : histOk {} demoHistory = true := by decide

/-! ### non-vacuity -/

example : (⟨false, [127, 0, 0, 1], 80, 0, 0⟩ : Fields).wf := by simp [Fields.wf]
example : encode ⟨false, [127, 0, 0, 1], 80, 0, 0⟩ = [2, 0, 0, 80, 127, 0, 0, 1, 0, 0, 0, 0, 0, 0, 0, 0] := by decide
example : lt (encode4 [127, 0, 0, 1] 80) (encode4 [127, 0, 0, 1] 81) = true := by decide
example : lt (encode4 [255, 0, 0, 1] 80) (encode4 [127, 0, 0, 1] 80) = false := by decide
example : (encode6 (List.replicate 15 0 ++ [1]) 8080 0 4).length = 28 := by decide

end SockModel.Addr

/-! ## Source-derived tie (DESIGN.md §0.7)

`SockModel.Gen.*` (Generated/Funcs.lean) is regenerated on every run by tools/cxx2lean.py from the clang AST of
the CURRENT /repo/src: SockAddrView::operator< and operator== (address_impl.cpp), memcmp abstracted by its sign.
Each theorem below states that the generated function and the hand-written model function agree for ALL
arguments; a change of the C++ function changes the generated definition and the theorem stops checking. -/
namespace SockModel.Props.C13
open SockModel SockModel.Addr

/-- what `std::memcmp(a, b, n)` may return for two `n`-byte buffers: any `int` with the sign of the
unsigned lexicographic comparison -/
def MemcmpResult (a b : Image) (cmp : Int) : Prop :=
  (cmp < 0 ↔ ltBytes a b = true) ∧ (cmp = 0 ↔ eqBytes a b = true)

/-- the model's `lt`, as arithmetic on the two lengths and the `memcmp` result -/
theorem model_lt_arith (a b : Image) (cmp : Int) (h : MemcmpResult a b cmp) :
    Addr.lt a b = decide ((a.length : Int) < b.length ∨ ((a.length : Int) = b.length ∧ cmp < 0)) := by
  obtain ⟨h0, _⟩ := h
  unfold Addr.lt
  cases he : ltBytes a b <;> simp [he] at h0 <;>
    by_cases h1 : a.length < b.length <;> by_cases h2 : b.length < a.length <;> simp [h1, h2] <;> omega

/-- the model's `eq`, as arithmetic on the two lengths and the `memcmp` result -/
theorem model_eq_arith (a b : Image) (cmp : Int) (h : MemcmpResult a b cmp) :
    Addr.eq a b = decide ((a.length : Int) = b.length ∧ cmp = 0) := by
  obtain ⟨_, h0⟩ := h
  unfold Addr.eq
  by_cases h1 : a.length = b.length
  · cases he : eqBytes a b <;> simp [he] at h0 <;> simp [h1, h0]
  · have hb : (a.length == b.length) = false := by simp [h1]
    have hd : decide ((a.length : Int) = b.length) = false := by simp; omega
    simp [hb, hd]

/-- `SockAddrView::operator<` as compiled from the current source = the model's `lt`, for every `memcmp`
result that has the sign of the byte comparison -/
theorem tie_lt (a b : Image) (cmp : Int) (h : MemcmpResult a b cmp) :
    Gen.SockAddrView_lt a.length b.length cmp = Addr.lt a b := by
  rw [model_lt_arith a b cmp h]
  simp only [Gen.SockAddrView_lt]
  tie_bool_arith

/-- `SockAddrView::operator==` likewise -/
theorem tie_eq (a b : Image) (cmp : Int) (h : MemcmpResult a b cmp) :
    Gen.SockAddrView_eq a.length b.length cmp = Addr.eq a b := by
  rw [model_eq_arith a b cmp h]
  simp only [Gen.SockAddrView_eq]
  tie_bool_arith

theorem ltBytes_not_eqBytes : ∀ (a b : List UInt8), ltBytes a b = true → eqBytes a b = false
  | [], _, h => by simp [ltBytes] at h
  | _ :: _, [], h => by simp [ltBytes] at h
  | x :: xs, y :: ys, h => by
    unfold ltBytes at h
    unfold eqBytes
    by_cases h1 : x < y
    · have hne : x ≠ y := fun he => by subst he; exact UInt8.lt_irrefl _ h1
      simp [hne]
    · by_cases h2 : y < x
      · simp [h1, h2] at h
      · simp only [h1, h2, if_false] at h
        simp [ltBytes_not_eqBytes xs ys h]

theorem memcmpResult_exists (a b : Image) : ∃ cmp, MemcmpResult a b cmp := by
  unfold MemcmpResult
  cases hl : ltBytes a b with
  | true =>
    have := ltBytes_not_eqBytes a b hl
    exact ⟨-1, by simp, by simp [this]⟩
  | false =>
    cases he : eqBytes a b with
    | true => exact ⟨0, by simp, by simp⟩
    | false => exact ⟨1, by simp, by simp⟩
end SockModel.Props.C13

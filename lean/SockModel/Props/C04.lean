import SockModel.Model.LocksLemmas
import SockModel.Spec.C04
import SockModel.Model.DispatchQuiesce
import SockModel.Model.ToDosQuiesce
/-!
# C04  Managing sockets/ToDos against a running driver is safe (exclusion, quiescence)

`Reach s`: `s` is reachable by ANY interleaving of the driver thread (Run / Step, with Stop and
management calls re-entering from tasks, handlers or signal handlers) with ANY number of user
threads each issuing any sequence of management calls (attach, detach, request-send, ToDo
insert/remove/move: all `PauseGuard`) and `Stop`s.  Tasks and handlers run only while the driver
thread is in `inStep`/`woke`; a user thread mutates `sockets`/`pfds`/`todos` only in `crit`.

What these theorems do NOT cover: the C++ memory model below lock granularity (TSan/ASan runs
in the check look for that) - see DESIGN.md.
-/
namespace SockModel.Locks

/-- "Handlers and tasks never run concurrently with each other" nor with a management mutation:
at most one thread is inside a step-protected region, and it is the owner of `stepMtx`. -/
theorem excl_step_region {s : St} (h : Reach s) :
    (s.d.ownsStep = true → ∀ t, (s.u t).ownsStep = false) ∧
    (∀ t t', t ≠ t' → ¬ ((s.u t).ownsStep = true ∧ (s.u t').ownsStep = true)) := by
  have inv := inv_reach h
  constructor
  · intro hd t
    have hdrv := inv.stepD.mp hd
    cases hu : (s.u t).ownsStep with
    | false => rfl
    | true => have := (inv.stepU t).mp hu; rw [hdrv] at this; cases this
  · intro t t' hne ⟨h1, h2⟩
    have e1 := (inv.stepU t).mp h1
    have e2 := (inv.stepU t').mp h2
    rw [e1] at e2; cases e2; exact hne rfl

/-- every task / handler runs on the thread that owns `stepMtx` (the driver thread inside Step), and
every management mutation by a user thread happens while that thread owns it -/
theorem region_owner {s : St} (h : Reach s) :
    (s.d.ownsStep = true ↔ s.step = .drv) ∧ (∀ t, (s.u t).ownsStep = true ↔ s.step = .usr t) :=
  ⟨(inv_reach h).stepD, (inv_reach h).stepU⟩

/-- quiescence, lock level: "once a socket's destructor or a ToDo's Cancel has returned on a
non-driver thread, no handler of that socket / that task is running": while a user thread is in
the critical section in which it unregisters the socket / removes the ToDo, the driver thread is
outside every step-protected region - no handler or task is in progress.  (That none *starts*
later is the data-level fact: handlers are dispatched only for registered sockets, tasks only for
listed ToDos - `SockModel.ToDos.cancel_prevents` and the Dispatch model.) -/
theorem quiescence {s : St} (h : Reach s) (t : Tid) (hc : s.u t = .crit) : s.d.ownsStep = false := by
  have inv := inv_reach h
  have hown : s.step = .usr t := (inv.stepU t).mp (by rw [hc]; rfl)
  cases hd : s.d.ownsStep with
  | false => rfl
  | true => have := inv.stepD.mp hd; rw [hown] at this; cases this

/-- the two mutexes are never held in the wrong combination: whoever waits for `stepMtx` after the
wake-up datagram holds `pauseMtx`, and nobody else does -/
theorem pause_owner {s : St} (h : Reach s) :
    (s.d.ownsPause = true ↔ s.pause = .drv) ∧ (∀ t, (s.u t).ownsPause = true ↔ s.pause = .usr t) :=
  ⟨(inv_reach h).pauseD, (inv_reach h).pauseU⟩

/-! non-vacuity: a reachable state with the driver blocked in `poll` inside `Run` and a user thread
that failed its try-lock, took `pauseMtx`, sent the datagram and waits for `stepMtx` -/
theorem example_reachable : ∃ s, Reach s ∧ s.d = .atPoll true ∧ s.u 7 = .waitStep ∧ s.pipe = 1 := by
  have r1 := Reach.step Reach.init (Tr.dRunEnter rfl)
  have r2 := Reach.step r1 (Tr.dRunGo rfl rfl)
  have r3 := Reach.step r2 (Tr.dLockStep (r := true) rfl rfl)
  have r4 := Reach.step r3 (Tr.dToPoll (r := true) rfl)
  have r5 := Reach.step r4 (Tr.uTryFail (t := 7) rfl (by simp))
  have r6 := Reach.step r5 (Tr.uLockPause (t := 7) (by simp) rfl)
  have r7 := Reach.step r6 (Tr.uBump (t := 7) (by simp))
  exact ⟨_, r7, rfl, by simp, rfl⟩

/-! ### the run-time oracle is a theorem of the model (`Spec/C04.lean`) -/
open Spec in
/-- the predicate `./check C04` evaluates on the implementation's scheduler trace (`Spec/C04.lean`:
`specStep` in mode C04 = monitor `stepA`: nobody acquires `stepMtx` while another thread holds it, handlers
and tasks run on the thread executing Step/Run while it holds `stepMtx`, never two at a time, nothing of a
socket / ToDo starts or is still running once its destructor / `Cancel` has returned on another thread;
outcomes `deadlock`, `stuck`, `crash` are failures) accepts every trace of the model: for every history of
any length - any interleaving of transitions of the lock LTS by the driver thread and any number of user
threads with any programs, management calls (attach, close, cancel, shift, create) returning from their
critical sections, recursive acquisitions, handlers of registered sockets and tasks of listed ToDos invoked
inside a step, management calls from inside them.  No hypothesis. -/
theorem spec_holds_on_model (history : List MOp) :
    ∃ s, specRun ⟨true, false, false⟩ {} (modelTrace {} history) = .ok s :=
  model_satisfies_spec _ history

section Examples
open Spec

/-- non-vacuity: the driver runs, task `a` is in progress; user 0 fails its try-lock, takes `pauseMtx`,
bumps, gets `stepMtx` after the task returned, cancels ToDo `b` and returns; socket `s` is attached and
closed by user 1; a Stop from user 2 ends the Run - 50 observations, accepted in every mode -/
def sampleHistory : List MOp :=
  [.tr (.uTryOk 0), .ret 0 "a" .todo, .tr (.uTryOk 0), .ret 0 "b" .todo, .tr (.uTryOk 1), .ret 1 "s" .attach,
   .tr .dRunEnter, .tr .dRunGo, .tr .dLockStep, .enter .task "a", .tr (.uTryFail 0), .tr (.uLockPause 0),
   .tr (.uBump 0), .retry 0, .dret "a" .shift, .reunlock 0, .exit, .tr .dToPoll, .tr .dPollPipe, .tr .dUnlockStep,
   .tr (.uLockStep 0), .tr (.uRelPause 0), .ret 0 "b" .cancel, .tr .dLockPause, .tr .dUnlockPause, .tr .dRunGo,
   .tr .dLockStep, .enter .task "b", .enter .task "a", .exit, .tr (.uTryFail 1), .tr (.uStopSet 2),
   .tr (.uStopBump 2), .tr .dToPoll, .tr .dPollPipe, .enter .handler "s", .exit, .tr .dUnlockStep, .tr .dLockPause,
   .tr .dUnlockPause, .tr .dRunExit, .tr (.uLockPause 1), .tr (.uBump 1), .tr (.uLockStep 1), .tr (.uRelPause 1),
   .ret 1 "s" .close, .enter .handler "s", .done]

example : (modelTrace {} sampleHistory).length = 50 := by decide
example : accepts ⟨true, true, true⟩ (modelTrace {} sampleHistory) = true := by decide
/-- the cancelled task `b` was not invoked (`enter .task "b"` is not an operation of the model then) -/
example : (modelTrace {} sampleHistory).contains (.ev 0 (.enter .task "b")) = false := by decide

/-- the predicate is not vacuous: it rejects a second owner of `stepMtx`, a task started after its `Cancel`
returned on another thread, a `Cancel` returning while the task runs, a handler on a user thread -/
example : accepts ⟨true, false, false⟩ [.ev 0 .lockStep, .ev 1 .tryStepOk] = false := by decide
example : accepts ⟨true, false, false⟩
    [.ev 1 .tryStepOk, .ev 1 .unlockStep, .ev 1 (.endAct "u1" .cancel), .ev 0 .lockStep, .ev 0 (.enter .task "u1")] = false := by
  decide
example : accepts ⟨true, false, false⟩
    [.ev 0 .lockStep, .ev 0 (.enter .task "u1"), .ev 1 (.endAct "u1" .cancel)] = false := by decide
example : accepts ⟨true, false, false⟩ [.ev 1 .tryStepOk, .ev 1 (.enter .handler "u1")] = false := by decide
example : accepts ⟨true, false, false⟩ [.deadlock "T0(drv):poll t=-1"] = false := by decide

end Examples

end SockModel.Locks

/-! ## quiescence, data level (dispatch model of `Model/Dispatch.lean`)

`quiescence` above is the lock-level half ("no handler is running when the destructor returns").
The other half - "... or will ever start" - is a fact about the data the critical section mutates:
handlers are dispatched only for sockets in `sockets`/`pfds`, `AsyncUnregister` removes the socket
there, and socket ids are never reused. -/
namespace SockModel.Dispatch

/-- "once a socket's destructor ... has returned ..., no handler of that socket ... will ever start":
for every history `pre` (any sockets, peers, steps, handlers destroying sockets), every registered socket
`i`, and EVERY continuation `post` after `i` was destroyed (peers may keep sending to it, close or
reset it, other sockets come and go, any number of steps with any readiness order): the handler
invocations of `i` in the log are exactly those from before its destruction. -/
theorem destroyed_socket_stays_silent (order : List Nat) (pre post : List Op) (i : Nat) :
    let s := run order {} pre
    i ∈ s.socks.map (·.id) →
      evOf i (run order (apply order s (.destroy i)) post).log = evOf i s.log := by
  intro s hi
  have h : DInv s := inv_run inv_init pre
  have hg := gone_after_destroy (order := order) h hi
  exact (run_gone (inv_apply h _) hg post).2

/-- the same after the library itself unregistered the socket (`DriverDisconnect`): once the
disconnect handler of `i` is in the log, `i` is gone for good - in every continuation its handler
log stays what it is (this is `handler_shape` of C03 seen from the unregistering side). -/
theorem disconnected_socket_stays_silent (order : List Nat) (pre post : List Op) (i a : Nat) (r : Reason) :
    let s := run order {} pre
    Event.disconnect i a r ∈ s.log → evOf i (run order s post).log = evOf i s.log := by
  intro s hm
  have h : DInv s := inv_run inv_init pre
  have hg : Gone s i := ⟨h.evSock _ hm, (h.addrOk i a r hm).2⟩
  exact (run_gone h hg post).2

/-- non-vacuity: a client socket receives data, is destroyed, the peer keeps sending and closes, the
driver keeps stepping - nothing more is delivered to it -/
example :
    let pre : List Op := [.newClient 9 4, .peerSend 0 [1, 2, 3], .step false 8 4 []]
    let post : List Op := [.peerSend 0 [4, 5], .step false 8 4 [], .peerClose 0, .step false 8 4 []]
    (run [0, 1, 2] {} pre).log = [.data 0 [1, 2, 3] 4] ∧
    (run [0, 1, 2] (apply [0, 1, 2] (run [0, 1, 2] {} pre) (.destroy 0)) post).log = [.data 0 [1, 2, 3] 4] := by
  decide

end SockModel.Dispatch

/-! ## quiescence, data level (ToDo model of `Model/ToDos.lean`) -/
namespace SockModel.ToDos
open SockModel.Deadline

/-- "once ... a ToDo's Cancel has returned ..., ... that task ... will [n]ever start": for every history
`pre` (any ToDos with any task bodies, clock readings, steps), every live ToDo `id`, and EVERY continuation
`post` after `Cancel(id)` - steps with any timeout, other ToDos created, shifted, cancelled, their tasks
running and re-entering the driver, the clock advancing arbitrarily - task `id` is never invoked again,
PROVIDED nothing schedules it anew: `Shift(id)` is the only operation that gives an existing ToDo an entry,
and neither `post` nor any task body may contain it (hypotheses `hb`, `hq`; they are what "Cancel has
returned and the ToDo is not shifted afterwards" means). -/
theorem cancelled_todo_never_runs (clamp : Bool) (fuel : Nat) (pre post : List Op) (id : Nat) :
    let s := run clamp fuel {} pre
    id ∈ s.live → (∀ p ∈ s.bodies, bodyQuiet id p.2 = true) → post.all (Op.quiet id) = true →
      ranOf id (run clamp fuel (applyOp s (.cancel id)) post).log = ranOf id s.log := by
  intro s hl hb hq
  have h := inv_run clamp fuel inv_init pre
  have hc : id ∉ ids (applyOp s (.cancel id)).todos := by
    simp only [applyOp, if_pos hl]
    exact not_mem_ids_remove id h.nodup
  have hlog : (applyOp s (.cancel id)).log = s.log := by simp only [applyOp]; split <;> rfl
  have hquiet : Quiet id (applyOp s (.cancel id)) := by
    refine ⟨?_, hc, ?_⟩
    · simp only [applyOp]; split <;> exact h.liveKnown id hl
    · simp only [applyOp]; split <;> exact hb
  rw [← hlog]
  exact (run_quiet clamp fuel hquiet post hq).2

/-- the same for a task that has run (its only entry was popped, `run_pops_only_entry`): it is not invoked
a second time in any continuation that does not shift it -/
theorem executed_todo_runs_once (clamp : Bool) (fuel : Nat) (s : St) (id : Nat) (post : List Op)
    (hq : Quiet id s) (hp : post.all (Op.quiet id) = true) :
    ranOf id (run clamp fuel s post).log = ranOf id s.log :=
  (run_quiet clamp fuel hq post hp).2

/-- non-vacuity: two tasks due at 5; the second is cancelled, the driver steps past the due time: only
the first runs -/
example :
    let pre : List Op := [.new 1 5 [], .new 2 5 [.adv 1]]
    let post : List Op := [.clock 10, .step 0, .step 0]
    ranOf 2 (run true 8 (applyOp (run true 8 {} pre) (.cancel 2)) post).log = [] ∧
    (ranOf 1 (run true 8 (applyOp (run true 8 {} pre) (.cancel 2)) post).log).length = 1 := by
  decide

end SockModel.ToDos

import SockModel.Spec.C14
/-!
# C14  OS failures become exceptions and leak nothing

Property theorems only (the ownership calculus is in `Model/FdLemmas.lean`).
Every statement is about **every** fault oracle `o : Nat → Option Errno` (any number of failing
calls, at any positions), every well-formed starting ledger `L` (any descriptors already open) and
every program of the scenario set `Prog` / `Consumer` / `driverStep` of `Model/Fd.lean`
(all public constructors and throwing operations; `tcpSend` with any number of partial writes).
`L.nfault < L'.nfault` says: some system call made on behalf of this program failed.
-/
namespace SockModel.Fd

theorem Prog.sp (p : Prog) : Sp p.run (fun a new f => a = new ∧ f = false) := Prog.keepsLedger p

theorem Consumer.consumes (c : Consumer) (fd : Fd) : Consumes fd (c.run fd) := Consumer.takesOver c fd

/-- "If any operating-system call made on behalf of a constructor or of an API call documented to
throw fails, the failure is reported by an exception ... never by ... a bogus success." -/
theorem fault_reported (p : Prog) (o : Oracle) (L : Ledger) (hL : WF L) (r : Except Exn (List Fd)) (L' : Ledger)
    (hrun : p.run o L = (r, L')) (hfault : L.nfault < L'.nfault) : ∃ e, r = .error e := by
  obtain ⟨_, _, _, h⟩ := p.sp o L hL r L' hrun
  cases r with
  | error e => exact ⟨e, rfl⟩
  | ok a =>
    obtain ⟨new, _, _, hf⟩ := h
    simp only [decide_eq_false_iff_not] at hf
    exact absurd hfault hf

/-- the same for the constructors that consume a socket -/
theorem fault_reported_consumer (c : Consumer) (fd : Fd) (o : Oracle) (L : Ledger) (hL : WF L) (hfd : fd ∈ L.live)
    (r : Except Exn (List Fd)) (L' : Ledger)
    (hrun : c.run fd o L = (r, L')) (hfault : L.nfault < L'.nfault) : ∃ e, r = .error e := by
  obtain ⟨_, _, _, h⟩ := c.consumes fd o L hL hfd r L' hrun
  cases r with
  | error e => exact ⟨e, rfl⟩
  | ok a => omega

/-- "... or, inside the driver, through the socket's disconnect handler, the send future, or an
exception out of Step": a failed call during `Step` ends in an exception out of `Step` or in a
reporting event; a *discarded* failure only ever belongs to a UDP socket or an acceptor (whose error
callback the library binds to a no-op on purpose, DESIGN section 3). -/
theorem fault_reported_driver (d : DSt) (o : Oracle) (L : Ledger) (hL : WF L) (r : Except Exn StepOut) (L' : Ledger)
    (hrun : driverStep d o L = (r, L')) :
    (L.nfault < L'.nfault → (∃ e, r = .error e) ∨ ∃ out, r = .ok out ∧ ∃ ev ∈ out.evs, ev.reportsFailure = true) ∧
    (∀ out fd, r = .ok out → Ev.discarded fd ∈ out.evs → ∃ s ∈ d.socks, s.fd = fd ∧ s.kind ≠ .tcp) := by
  obtain ⟨_, _, _, h⟩ := Sp_driverStep d o L hL r L' hrun
  cases r with
  | error e => exact ⟨fun _ => .inl ⟨e, rfl⟩, by intro out fd h; cases h⟩
  | ok out =>
    obtain ⟨new, _, _, hf, hd⟩ := h
    refine ⟨fun hlt => .inr ⟨out, rfl, hf (by simpa using hlt)⟩, ?_⟩
    intro out' fd he
    cases he
    exact hd fd

/-- "every descriptor the library opened has been closed exactly once (none leaked, none closed
twice, none that it does not own)" - when the program throws, the ledger is what it was. -/
theorem no_leak_on_throw (p : Prog) (o : Oracle) (L : Ledger) (hL : WF L) (e : Exn) (L' : Ledger)
    (hrun : p.run o L = (.error e, L')) :
    L'.live = L.live ∧ L'.closedTwice = false ∧ L'.closedForeign = false := by
  obtain ⟨w, _, _, h⟩ := p.sp o L hL _ L' hrun
  exact ⟨h, w.noTwice, w.noForeign⟩

/-- a throwing consuming constructor has closed exactly the descriptor it took over -/
theorem no_leak_on_throw_consumer (c : Consumer) (fd : Fd) (o : Oracle) (L : Ledger) (hL : WF L) (hfd : fd ∈ L.live)
    (e : Exn) (L' : Ledger) (hrun : c.run fd o L = (.error e, L')) :
    L'.live = L.live.erase fd ∧ L'.closedTwice = false ∧ L'.closedForeign = false := by
  obtain ⟨w, _, _, h⟩ := c.consumes fd o L hL hfd _ L' hrun
  exact ⟨h, w.noTwice, w.noForeign⟩

/-- an exception out of `Step` leaves the ledger as it was -/
theorem no_leak_on_throw_driver (d : DSt) (o : Oracle) (L : Ledger) (hL : WF L) (e : Exn) (L' : Ledger)
    (hrun : driverStep d o L = (.error e, L')) :
    L'.live = L.live ∧ L'.closedTwice = false ∧ L'.closedForeign = false := by
  obtain ⟨w, _, _, h⟩ := Sp_driverStep d o L hL _ L' hrun
  exact ⟨h, w.noTwice, w.noForeign⟩

theorem destroy_restores (o : Oracle) (fds : List Fd) : ∀ (base : List Fd) (L : Ledger), WF L → L.live = base ++ fds →
    (destroy fds o L).1 = .ok () ∧ WF (destroy fds o L).2 ∧ (destroy fds o L).2.live = base := by
  induction fds with
  | nil =>
    intro base L hL hl
    have : destroy [] o L = (.ok (), L) := rfl
    rw [this]
    exact ⟨rfl, hL, by simpa using hl⟩
  | cons fd rest ih =>
    intro base L hL hl
    have hl' : L.live = (base ++ [fd]) ++ rest := by rw [hl]; simp
    obtain ⟨h1, h2, h3⟩ := ih (base ++ [fd]) L hL hl'
    show ((destroy rest >>= fun _ => closeFd fd) o L).1 = _ ∧ WF ((destroy rest >>= fun _ => closeFd fd) o L).2 ∧
      ((destroy rest >>= fun _ => closeFd fd) o L).2.live = base
    rw [bind_run]
    cases hd : destroy rest o L with
    | mk r1 L1 =>
      rw [hd] at h1 h2 h3
      simp only at h1 h2 h3
      subst h1
      simp only [closeFd]
      obtain ⟨w, l, _, _⟩ := h2.close_mem (fd := fd) (by rw [h3]; simp)
      refine ⟨by trivial, w, ?_⟩
      rw [l, h3]
      apply erase_append_fresh
      have := h2.nodup
      rw [h3] at this
      intro hin
      exact (List.nodup_append.mp this).2.2 fd hin fd (by simp) rfl

/-- "Afterwards every object involved can be destroyed normally": on success the ledger grew by
exactly the descriptors of the result, no call had failed, and destroying the result (any time
later, under any oracle) closes each of them exactly once and restores the ledger. -/
theorem owned_on_success (p : Prog) (o : Oracle) (L : Ledger) (hL : WF L) (fds : List Fd) (L' : Ledger)
    (hrun : p.run o L = (.ok fds, L')) :
    L'.live = L.live ++ fds ∧ L'.closedTwice = false ∧ L'.closedForeign = false ∧ L'.nfault = L.nfault ∧
    ∀ o', (destroy fds o' L').1 = .ok () ∧ (destroy fds o' L').2.live = L.live ∧
      (destroy fds o' L').2.closedTwice = false ∧ (destroy fds o' L').2.closedForeign = false := by
  obtain ⟨w, hn, _, new, hl, ha, hf⟩ := p.sp o L hL _ L' hrun
  subst ha
  simp only [decide_eq_false_iff_not, Nat.not_lt] at hf
  refine ⟨hl, w.noTwice, w.noForeign, by omega, ?_⟩
  intro o'
  obtain ⟨h1, h2, h3⟩ := destroy_restores o' fds L.live L' w hl
  exact ⟨h1, h3, h2.noTwice, h2.noForeign⟩

/-- a successful consuming constructor now owns the very descriptor it was given -/
theorem owned_on_success_consumer (c : Consumer) (fd : Fd) (o : Oracle) (L : Ledger) (hL : WF L) (hfd : fd ∈ L.live)
    (fds : List Fd) (L' : Ledger) (hrun : c.run fd o L = (.ok fds, L')) :
    fds = [fd] ∧ L'.live = L.live ∧ L'.closedTwice = false ∧ L'.closedForeign = false ∧ L'.nfault = L.nfault := by
  obtain ⟨w, _, _, h1, h2, h3⟩ := c.consumes fd o L hL hfd _ L' hrun
  exact ⟨h2, h1, w.noTwice, w.noForeign, h3⟩

/-- a `Step` that returns owns nothing new except the sockets it handed to the connect handler -/
theorem owned_on_success_driver (d : DSt) (o : Oracle) (L : Ledger) (hL : WF L) (out : StepOut) (L' : Ledger)
    (hrun : driverStep d o L = (.ok out, L')) :
    L'.live = L.live ++ out.fds ∧ L'.closedTwice = false ∧ L'.closedForeign = false := by
  obtain ⟨w, _, _, new, hl, ha, _⟩ := Sp_driverStep d o L hL _ L' hrun
  subst ha
  exact ⟨hl, w.noTwice, w.noForeign⟩

/-- "... and the library remains usable": after a failed program the ledger is well-formed and
unchanged, so any next program `q` of the set - under any further faults `o'` - again either succeeds
owning exactly its result or throws leaving the ledger as it was before `p` (the driver model carries
no state out of a throwing `Step`: the caller continues with the `DSt` it had). -/
theorem usable_after (p q : Prog) (o o' : Oracle) (L : Ledger) (hL : WF L) (e : Exn) (L' : Ledger)
    (hrun : p.run o L = (.error e, L')) (r : Except Exn (List Fd)) (L'' : Ledger) (hnext : q.run o' L' = (r, L'')) :
    L''.closedTwice = false ∧ L''.closedForeign = false ∧
    match r with
    | .ok fds => L''.live = L.live ++ fds
    | .error _ => L''.live = L.live := by
  obtain ⟨w, _, _, h⟩ := p.sp o L hL _ L' hrun
  simp only at h
  obtain ⟨w2, _, _, h2⟩ := q.sp o' L' w r L'' hnext
  refine ⟨w2.noTwice, w2.noForeign, ?_⟩
  cases r with
  | error e2 => simp only at h2 ⊢; rw [h2, h]
  | ok fds =>
    obtain ⟨new, hl, ha, _⟩ := h2
    subst ha
    simp only; rw [hl, h]

/-- **The run-time oracle of `./check C14` is a theorem of the model** (`Spec/C14.lean`): for every fault
oracle and every history (rounds of quiet set-up constructors, constructors / operations, consuming
constructors and driver steps on arbitrary driver states, teardown of everything held) the observations the
model produces - every call with its answer, every close, the events, the outcome of every API call, the
ledger line - are accepted by the predicate `Spec.specRun` that the check evaluates on the implementation:
"the failure is reported by an exception ... carrying the OS error ... or, inside the driver, through the
socket's disconnect handler, the send future, or an exception out of Step - never by ... a bogus success.
Afterwards ... every descriptor the library opened has been closed exactly once (none leaked, none closed
twice, none that it does not own)".  `Round.ok` is decidable: `query` is used with a socket call; the scenario
flag `discards` is truthful (`Spec.Op.ok`; both parts are shown necessary by `example`s in `Spec/C14.lean`). -/
theorem spec_holds_on_model (ctx : Spec.Ctx) (o : Oracle) (history : List Spec.Round)
    (hok : ∀ r ∈ history, r.ok ctx.discards = true) :
    ∃ s, Spec.specRun ctx {} (Spec.modelTrace o {} history) = .ok s :=
  Spec.model_satisfies_spec ctx o history hok

/-! Non-vacuity: concrete oracles on concrete programs. -/

/-- `bind` fails with EADDRINUSE inside `SocketUdp(addr)`: exception with that code, descriptor closed -/
example : (udpCtor (fun i => if i = 1 then some 98 else none) {}).1 = .error (.system 98) ∧
    (udpCtor (fun i => if i = 1 then some 98 else none) {}).2.live = [] ∧
    (udpCtor (fun i => if i = 1 then some 98 else none) {}).2.closes = [(0, 0)] := ⟨rfl, rfl, rfl⟩

/-- two faults: `bind` and the `getnameinfo` of the message -/
example : (udpCtor (fun i => if i = 1 then some 98 else if i = 2 then some (-3) else none) {}).1
    = .error (.address (-3)) := rfl

/-- fault-free `Driver()` owns two descriptors -/
example : (driverCtor (fun _ => none) {}).1 = .ok [0, 1] ∧ (driverCtor (fun _ => none) {}).2.live = [0, 1] := ⟨rfl, rfl⟩

/-- second `socket` of `Driver()` fails: the first pipe socket is closed -/
example : (driverCtor (fun i => if i = 2 then some 24 else none) {}).1 = .error (.system 24) ∧
    (driverCtor (fun i => if i = 2 then some 24 else none) {}).2.live = [] := ⟨rfl, rfl⟩

/-- a failing `recv` inside `Step` reaches the disconnect handler -/
example : let d : DSt := { pipeFrom := 0, pipeTo := 1, socks := [{ fd := 2, kind := .tcp, rx := 1 }] }
    ((driverStep d (fun i => if i = 1 then some 104 else none) { live := [0, 1, 2], next := 3 }).1.toOption.map (·.evs))
      = some [.disconnect 2] := rfl

end SockModel.Fd

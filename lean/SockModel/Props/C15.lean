import SockModel.Model.PeerFail
import SockModel.Model.TlsLemmas
import SockModel.Spec.C15
/-!
# C15  Peer failure at any point is reported, never fatal

Property theorems only.  The kernel is a `Net.Script`: *any* finite history of `poll`/`send`/`recv`
answers (any length, any content - short writes, errors, timeouts, data in any segmentation),
followed for ever by the kernel's reaction to a vanished peer (assumption **K1**: `poll` reports
ready, `send` fails with EPIPE, `recv` reports end of stream) - `dead := true`.
"For every script whose answers from some point on are `fail`" is therefore "for every `Script`
with `dead = true`".
-/
namespace SockModel.PeerFail
open SockModel.Net SockModel.Tls

/-! ## "a Send with unlimited timeout never blocks forever on a dead connection" -/

/-- number of `send` system calls in a call log -/
def nSends : List Call → Nat
  | [] => 0
  | .send _ _ _ :: cs => nSends cs + 1
  | _ :: cs => nSends cs

/-- bytes the scripted `send` answers would accept at most -/
def budget : List SendAns → Nat
  | [] => 0
  | .accept k :: as => k + budget as
  | .fail _ :: as => budget as

theorem script_wait_sends (s : Script) (d : Dir) (t : Int) :
    (Script.world.wait s d t).2.sends = s.sends ∧ (Script.world.wait s d t).2.dead = s.dead ∧
    nSends (Script.world.wait s d t).2.calls = nSends s.calls := by
  simp only [Script.world]
  split
  · simp [nSends]
  · split <;> simp [nSends]

/-- one `SendNow` against the scripted kernel: one more `send` call; if it did not throw, it consumed a
scripted answer `accept k` (a dead kernel with nothing scripted only fails) -/
theorem script_sendNow (s : Script) (hdead : s.dead = true) (bs : Bytes) :
    nSends (sendNow Script.world s bs).w.calls = nSends s.calls + 1 ∧
    (sendNow Script.world s bs).w.dead = true ∧
    ((sendNow Script.world s bs).exn = none →
      ∃ k rest, s.sends = .accept k :: rest ∧ (sendNow Script.world s bs).w.sends = rest ∧
        (sendNow Script.world s bs).sent ≤ k) := by
  simp only [sendNow, Script.world, hdead]
  cases hsn : s.sends with
  | nil => simp [nSends, hdead]
  | cons a rest =>
    cases a with
    | fail e => simp [nSends, hdead]
    | accept k =>
      simp only
      split
      · simp [nSends, hdead]
      · exact ⟨by simp [nSends], by simp [hdead], fun _ => ⟨k, rest, rfl, rfl, Nat.min_le_left _ _⟩⟩

/-- **sendAll_dead_peer_terminates**.  For every script (arbitrary answers, then K1) and every buffer,
`SendAll` - the loop behind `Send(data, size, unlimited)` -
* makes at most `(number of scripted send answers) + 1` further `send` calls (each preceded by exactly
  one wait: it never waits without sending afterwards),
* ends with everything accepted or with an exception,
* and ends with an *exception* whenever the buffer is larger than what the scripted answers accept:
  once the peer is gone an unlimited `Send` does not block, it throws. -/
theorem sendAll_dead_peer_terminates (s : Script) (hdead : s.dead = true) (data : Bytes) (acc : Nat) :
    nSends (sendAll Script.world s data acc).w.calls ≤ nSends s.calls + s.sends.length + 1 ∧
    ((sendAll Script.world s data acc).exn.isSome ∨ (sendAll Script.world s data acc).sent = acc + data.length) ∧
    (budget s.sends < data.length → (sendAll Script.world s data acc).exn.isSome) := by
  fun_induction Net.sendAll Script.world s data acc with
  | case1 s bs acc r0 hx =>
    obtain ⟨hs, hd, hn⟩ := script_wait_sends s .wr (-1)
    obtain ⟨k1, _, _⟩ := script_sendNow (Script.world.wait s .wr (-1)).2 (by rw [hd]; exact hdead) bs
    have k1' : nSends r0.w.calls = nSends (Script.world.wait s .wr (-1)).2.calls + 1 := k1
    exact ⟨by simp only; omega, Or.inl hx, fun _ => hx⟩
  | case2 s bs acc r0 hx hrest =>
    obtain ⟨hs, hd, hn⟩ := script_wait_sends s .wr (-1)
    obtain ⟨k1, _, k3⟩ := script_sendNow (Script.world.wait s .wr (-1)).2 (by rw [hd]; exact hdead) bs
    have k1' : nSends r0.w.calls = nSends (Script.world.wait s .wr (-1)).2.calls + 1 := k1
    have hx' : r0.exn = none := by simpa using hx
    obtain ⟨k, rest, hk1, _, hk3⟩ := k3 hx'
    have hk3' : r0.sent ≤ k := hk3
    have hle : r0.sent ≤ bs.length := sendNow_le _ _ bs
    have hall : r0.sent = bs.length := by
      have := List.drop_eq_nil_iff.mp hrest
      omega
    refine ⟨by simp only; omega, Or.inr (by simp [hall]), ?_⟩
    intro hb
    rw [← hs, hk1] at hb
    simp only [budget] at hb
    omega
  | case3 s bs acc r0 hx hrest hpos ih =>
    obtain ⟨hs, hd, hn⟩ := script_wait_sends s .wr (-1)
    obtain ⟨k1, k2, k3⟩ := script_sendNow (Script.world.wait s .wr (-1)).2 (by rw [hd]; exact hdead) bs
    have k1' : nSends r0.w.calls = nSends (Script.world.wait s .wr (-1)).2.calls + 1 := k1
    have k2' : r0.w.dead = true := k2
    have hx' : r0.exn = none := by simpa using hx
    obtain ⟨k, rest, hk1, hk2, hk3⟩ := k3 hx'
    have hk2' : r0.w.sends = rest := hk2
    have hk3' : r0.sent ≤ k := hk3
    have hle : r0.sent ≤ bs.length := sendNow_le _ _ bs
    obtain ⟨i1, i2, i3⟩ := ih k2'
    rw [hs] at hk1
    refine ⟨?_, ?_, ?_⟩
    · rw [hk2'] at i1
      rw [hk1]
      simp only [List.length_cons]
      omega
    · rcases i2 with i2 | i2
      · left; exact i2
      · right; rw [i2]; simp only [List.length_drop]; omega
    · intro hb
      apply i3
      rw [hk2']
      rw [hk1] at hb
      simp only [budget] at hb
      simp only [List.length_drop]
      omega
  | case4 s bs acc r0 hx hrest hpos =>
    obtain ⟨hs, hd, hn⟩ := script_wait_sends s .wr (-1)
    obtain ⟨k1, _, _⟩ := script_sendNow (Script.world.wait s .wr (-1)).2 (by rw [hd]; exact hdead) bs
    have k1' : nSends r0.w.calls = nSends (Script.world.wait s .wr (-1)).2.calls + 1 := k1
    exact ⟨by simp only; omega, Or.inl rfl, fun _ => rfl⟩

/-! ## "local sends and receives report it by exception" -/

/-- the kernel with nothing scripted left: the peer is gone (K1) -/
def gone (s : Script) : Prop := s.dead = true ∧ s.waits = [] ∧ s.sends = [] ∧ s.recvs = []

/-- **peer_failure_reported** (synchronous, plain): once the peer is gone, every `Receive` and every
`Send` of a non-empty buffer - whatever the timeout: unlimited, zero or limited - throws at once
(no wait that could block: the one wait issued reports ready), and what `recv` reports as an error or
as end of stream is always turned into an exception, whatever came before. -/
theorem peer_failure_reported (s : Script) (hg : gone s) (size : Nat) (t : Int) (data : Bytes) (hd : data ≠ []) :
    (∃ w', recvT Script.world s size t = .exn .closed w') ∧
    (∃ w', (sendT Script.world s data t).exn = some (.system epipe) ∧ (sendT Script.world s data t).sent = 0 ∧
      (sendT Script.world s data t).w = w') := by
  obtain ⟨h1, h2, h3, h4⟩ := hg
  constructor
  · simp [recvT, receive, Script.world, h1, h2, h4, recvNow]
  · refine ⟨_, ?_, ?_, rfl⟩
    · unfold sendT Net.send
      split
      · unfold sendAll
        simp [Script.world, h1, h2, h3, sendNow]
      · split
        · simp [sendTry, Script.world, h1, h2, h3, sendNow]
        · unfold sendSome
          simp [Script.world, h1, h2, h3, sendNow]
    · unfold sendT Net.send
      split
      · unfold sendAll
        simp [Script.world, h1, h2, h3, sendNow]
      · split
        · simp [sendTry, Script.world, h1, h2, h3, sendNow]
        · unfold sendSome
          simp [Script.world, h1, h2, h3, sendNow]

/-- in every world: the `recv` that sees the failure is the call that throws - end of stream as
`runtime_error("connection closed")`, an errno as `system_error` - never a 0-byte success -/
theorem recv_failure_is_exception {ω : Type} (W : World ω) (w : ω) (size : Nat) :
    (∀ w', W.recv w size = (.data [], w') → recvNow W w size = .exn .closed w') ∧
    (∀ e w', W.recv w size = (.fail e, w') → recvNow W w size = .exn (.system e) w') ∧
    (∀ bs w', recvNow W w size = .got bs w' → bs ≠ []) := by
  refine ⟨?_, ?_, ?_⟩
  · intro w' h; simp [recvNow, h]
  · intro e w' h; simp [recvNow, h]
  · intro bs w' h
    unfold recvNow at h
    split at h
    · cases h
    · split at h
      · cases h
      · rename_i hne; cases h; exact hne

/-- the engine's verdicts on a broken connection -/
def FatalAns (a : SslAns) : Prop := a = .zeroReturn ∨ a = .syscallErr ∨ a = .sslErr

/-- **peer_failure_reported** (TLS): whenever the engine answers a `ssl_read` with close-notify
(`zeroReturn`), an I/O failure (`syscallErr`) or a protocol failure (`sslErr`) - which is how it reacts to a
peer that closed, reset or truncated the stream, at any stage incl. mid-handshake - the round throws. -/
theorem tls_peer_failure_reported {σ ω : Type} {W : World ω} (C : Cfg) (E : Engine σ) (size i : Nat) (s : St σ ω)
    (hE : AllLeaves (fun a _ _ => FatalAns a) (E.sslRead s.e size)) :
    ∃ e s', readRound C W E size i s = (some (.exn e), s') := by
  have hs := interp_spec (W := W) _ _ hE s
  unfold readRound
  rcases hi : interp W s (E.sslRead s.e size) with ⟨o, s1⟩
  rw [hi] at hs
  cases o with
  | exn e => exact ⟨e, s1, rfl⟩
  | abort m => exact absurd rfl (hs.2.1 m)
  | ok p =>
    obtain ⟨ans, out⟩ := p
    have hf : FatalAns ans := hs.2.2.1 ans out rfl
    obtain ⟨e, s', hr⟩ := handleResult_fatal (W := W) (noteCall E s1 true [] ans) ans hf
    refine ⟨e, s', ?_⟩
    rcases hf with ha | ha | ha <;> subst ha <;> simp [hr]

/-! ### asynchronous sockets: "by the disconnect handler and failed or broken futures" -/

/-- invariant of the asynchronous plain socket over every history of enqueue / driver-step events:
the disconnect handler ran at most once, and exactly when the socket was unregistered; every buffer
ever enqueued is either resolved (value or exception) or still queued - and a queued one is what
becomes a broken promise when the socket is destroyed -/
def AInv (n : Nat) (a : Async) : Prop :=
  a.disconnects ≤ 1 ∧ (a.disconnects = 1 ↔ a.registered = false) ∧ a.futures.length + a.sendQ.length = n

def nEnq : List PEv → Nat
  | [] => 0
  | .enq _ :: es => nEnq es + 1
  | _ :: es => nEnq es

theorem pTask_inv {ω : Type} (W : World ω) (rx : Nat) (x : PSt ω) (rev : REvents) (n : Nat) (h : AInv n x.a) :
    AInv n (pTask W rx x rev).2.a := by
  obtain ⟨h1, h2, h3⟩ := h
  unfold pTask
  split
  · exact ⟨h1, h2, h3⟩
  · rename_i hreg
    have hreg' : x.a.registered = true := by simpa using hreg
    have hd0 : x.a.disconnects = 0 := by
      have : x.a.disconnects ≠ 1 := fun h => by simp [h2.mp h] at hreg'
      omega
    split
    · unfold pReadable
      split
      · exact ⟨h1, h2, h3⟩
      · exact ⟨h1, h2, h3⟩
      · split
        · refine ⟨?_, ?_, h3⟩
          · show x.a.disconnects + 1 ≤ 1; omega
          · show (x.a.disconnects + 1 = 1 ↔ false = false); simp [hd0]
        · exact ⟨h1, h2, h3⟩
    · split
      · unfold pWritable
        split
        · exact ⟨h1, h2, h3⟩
        · rename_i buf rest hq
          simp only
          split
          · split
            · refine ⟨h1, h2, ?_⟩
              simp only [List.length_cons]
              rw [hq] at h3; simp only [List.length_cons] at h3; omega
            · refine ⟨h1, h2, ?_⟩
              rw [hq] at h3; simpa using h3
          · split
            · refine ⟨h1, h2, ?_⟩
              simp only [List.length_cons]
              rw [hq] at h3; simp only [List.length_cons] at h3; omega
            · exact ⟨h1, h2, h3⟩
      · split
        · refine ⟨?_, ?_, h3⟩
          · show x.a.disconnects + 1 ≤ 1; omega
          · show (x.a.disconnects + 1 = 1 ↔ false = false); simp [hd0]
        · exact ⟨h1, h2, h3⟩

/-- **peer_failure_reported** (asynchronous): for every history of enqueue / step events and every
world - in particular every way the kernel reports the peer's failure to `poll`, `recv` or `send` - the
disconnect handler runs at most once (and the socket is unregistered from then on, so it cannot run
again), and no promise is lost: resolved + still queued = enqueued. -/
theorem async_failure_reported_once {ω : Type} (W : World ω) (rx : Nat) (evs : List PEv) :
    ∀ (x : PSt ω) (n : Nat), AInv n x.a → AInv (n + nEnq evs) (pRun W rx x evs).a := by
  induction evs with
  | nil => intro x n h; simpa [nEnq, pRun] using h
  | cons ev evs ih =>
    intro x n h
    cases ev with
    | enq buf =>
      have : AInv (n + 1) (pEnqueue x buf).a := by
        obtain ⟨h1, h2, h3⟩ := h
        refine ⟨h1, h2, ?_⟩
        simp only [pEnqueue, List.length_append, List.length_cons, List.length_nil]
        omega
      have := ih (pEnqueue x buf) (n + 1) this
      simp only [nEnq]
      rw [show n + (nEnq evs + 1) = n + 1 + nEnq evs by omega]
      exact this
    | step rev =>
      have := ih (pTask W rx x rev).2 n (pTask_inv W rx x rev n h)
      simpa [nEnq, pRun, pApply] using this

/-- a failing `send` on a queued buffer resolves its promise with the exception (it is not swallowed),
and the buffer leaves the queue -/
theorem async_send_failure_fails_future {ω : Type} (W : World ω) (x : PSt ω) (buf : Bytes) (rest : List Bytes)
    (hq : x.a.sendQ = buf :: rest) (e : Nat) (w' : ω) (hs : W.send x.w buf = (.fail e, w')) :
    (pWritable W x).2.a.futures = .exn :: x.a.futures ∧ (pWritable W x).2.a.sendQ = rest := by
  simp [pWritable, hq, sendNow, hs, Exn.isRuntime]

/-- an end of stream or an error seen by the driver's receive goes to the disconnect handler -/
theorem async_recv_failure_disconnects {ω : Type} (W : World ω) (rx : Nat) (x : PSt ω) (w' : ω)
    (hr : W.recv x.w rx = (.data [], w') ∨ ∃ e, W.recv x.w rx = (.fail e, w')) :
    (pReadable W rx x).2.a.disconnects = x.a.disconnects + 1 ∧ (pReadable W rx x).2.a.registered = false := by
  rcases hr with hr | ⟨e, hr⟩ <;> simp [pReadable, recvNow, hr, Exn.isRuntime, pDisconnect]

/-! ## "what was delivered up to the report is a prefix of what the peer sent - the complete stream for an orderly close" -/

/-- the data chunks among scripted `recv` answers, up to the first end-of-stream or error -/
def stream : List RecvAns → List Bytes
  | .data bs :: rest => if bs = [] then [] else bs :: stream rest
  | _ => []

theorem recvUntilExn_prefix (size : Nat) (t : Int) : ∀ (fuel : Nat) (s : Script) (acc : List Bytes),
    (∀ bs ∈ stream s.recvs, bs.length ≤ size) →
    ∃ k, (recvUntilExn Script.world size t fuel s acc).1 = acc.reverse ++ (stream s.recvs).take k := by
  intro fuel
  induction fuel with
  | zero => intro s acc _; exact ⟨0, by simp [recvUntilExn]⟩
  | succ fuel ih =>
    intro s acc hsz
    unfold recvUntilExn recvT receive
    -- the wait
    rcases hw : Script.world.wait s .rd t with ⟨ready, s1⟩
    have hrec : s1.recvs = s.recvs := by
      have : (Script.world.wait s .rd t).2.recvs = s.recvs := by
        simp only [Script.world]; split
        · rfl
        · split <;> rfl
      rw [hw] at this; exact this
    cases ready with
    | false =>
      simp only
      obtain ⟨k, hk⟩ := ih s1 acc (by rw [hrec]; exact hsz)
      exact ⟨k, by rw [hk, hrec]⟩
    | true =>
      simp only [recvNow]
      cases hr : s1.recvs with
      | nil =>
        have : Script.world.recv s1 size = ((if s1.dead then RecvAns.data [] else RecvAns.fail 11),
            { s1 with calls := .recv size (if s1.dead then RecvAns.data [] else RecvAns.fail 11) :: s1.calls }) := by
          simp [Script.world, hr]
        rw [this]
        by_cases hd : s1.dead = true
        · simp only [hd, if_true, List.take_nil]
          exact ⟨0, by simp⟩
        · simp only [hd]
          exact ⟨0, by simp⟩
      | cons a rest =>
        have : Script.world.recv s1 size = (a, { s1 with recvs := rest, calls := .recv size a :: s1.calls }) := by
          simp [Script.world, hr]
        rw [this]
        cases a with
        | fail e => exact ⟨0, by simp⟩
        | data bs =>
          simp only
          by_cases hbs : bs = []
          · subst hbs
            simp only [List.take_nil, if_true]
            exact ⟨0, by simp⟩
          · have hmem : bs ∈ stream s.recvs := by rw [← hrec, hr]; simp [stream, hbs]
            have hlen : bs.length ≤ size := hsz bs hmem
            have htake : bs.take size = bs := List.take_of_length_le hlen
            rw [htake, if_neg hbs]
            obtain ⟨k, hk⟩ := ih { s1 with recvs := rest, calls := .recv size (.data bs) :: s1.calls } (bs :: acc)
              (by intro b hb; apply hsz; rw [← hrec, hr]; simp [stream, hbs, hb])
            refine ⟨k + 1, ?_⟩
            rw [hk, ← hrec, hr]
            simp [stream, hbs]

/-- **delivered_is_prefix**.  A caller that keeps calling `Receive(size, timeout)` - any timeout, any
number of calls - obtains exactly the chunks the kernel handed over, in order, nothing added and
nothing altered: the delivered bytes are a prefix of the peer's stream for every script (including
every position of a reset), provided his buffer is at least as large as the chunks. -/
theorem delivered_is_prefix (size : Nat) (t : Int) (fuel : Nat) (s : Script)
    (hsz : ∀ bs ∈ stream s.recvs, bs.length ≤ size) :
    ∃ k, (recvUntilExn Script.world size t fuel s []).1 = (stream s.recvs).take k := by
  simpa using recvUntilExn_prefix size t fuel s [] hsz

theorem recvUntilExn_complete (size : Nat) (t : Int) : ∀ (chunks : List Bytes) (fuel : Nat) (s : Script) (acc : List Bytes),
    s.dead = true → s.waits = [] → s.recvs = chunks.map .data → (∀ bs ∈ chunks, bs ≠ [] ∧ bs.length ≤ size) →
    chunks.length < fuel →
    (recvUntilExn Script.world size t fuel s acc).1 = acc.reverse ++ chunks ∧
    (recvUntilExn Script.world size t fuel s acc).2.1 = .exn .closed := by
  intro chunks
  induction chunks with
  | nil =>
    intro fuel s acc hd hw hr _ hf
    obtain ⟨f, rfl⟩ : ∃ f, fuel = f + 1 := ⟨fuel - 1, by simp at hf; omega⟩
    simp [recvUntilExn, recvT, receive, Script.world, hd, hw, hr, recvNow]
  | cons c cs ih =>
    intro fuel s acc hd hw hr hc hf
    obtain ⟨f, rfl⟩ : ∃ f, fuel = f + 1 := ⟨fuel - 1, by simp at hf; omega⟩
    have hc1 := hc c (by simp)
    have htake : c.take size = c := List.take_of_length_le hc1.2
    have hstep : recvT Script.world s size t
        = .got c { s with recvs := cs.map .data, calls := .recv size (.data c) :: .wait .rd t true :: s.calls } := by
      simp [recvT, receive, Script.world, hd, hw, hr, recvNow, htake, hc1.1]
    unfold recvUntilExn
    rw [hstep]
    have := ih f { s with recvs := cs.map .data, calls := .recv size (.data c) :: .wait .rd t true :: s.calls } (c :: acc)
      hd hw rfl (by intro b hb; exact hc b (by simp [hb])) (by simp at hf; omega)
    simpa using this

/-- "... the complete stream for an orderly close": if the peer's stream arrives in chunks
(any segmentation) and then the connection ends, the caller who keeps receiving gets *all* of it
and then - not before - the exception `connection closed`. -/
theorem delivered_complete_on_orderly_close (size : Nat) (t : Int) (chunks : List Bytes) (s : Script)
    (hd : s.dead = true) (hw : s.waits = []) (hr : s.recvs = chunks.map .data)
    (hc : ∀ bs ∈ chunks, bs ≠ [] ∧ bs.length ≤ size) :
    (recvUntilExn Script.world size t (chunks.length + 1) s []).1 = chunks ∧
    (recvUntilExn Script.world size t (chunks.length + 1) s []).2.1 = .exn .closed := by
  simpa using recvUntilExn_complete size t chunks (chunks.length + 1) s [] hd hw hr hc (by omega)

/-! ## "the process is never killed by SIGPIPE": MSG_NOSIGNAL everywhere -/

/-- **nosignal_everywhere**.  In every history of calls on a TLS socket (hence also of its handshake), and in
every plain `Send` / `Receive` with any timeout, every `send` the model issues carries the flag set
`sendFlags` of socket_impl.cpp - and that set, as extracted from the source on this run, contains MSG_NOSIGNAL. -/
theorem nosignal_everywhere {σ : Type} (C : Cfg) (E : Engine σ) (e0 : σ) (script : Script) (hfresh : script.calls = [])
    (ops : List Op) (data : Bytes) (t : Int) :
    AllNoSignal (run C Script.world E { g := {}, e := e0, w := script } ops).w.calls ∧
    AllNoSignal (sendT Script.world script data t).w.calls := by
  have h0 : AllNoSignal script.calls := by rw [hfresh]; intro _ _ _ h; cases h
  constructor
  · have F : Frame Script.world (fun s : St σ Script => AllNoSignal s.w.calls) := {
      core := by intro s s' h hc; rw [hc.1]; exact h
      wait := by intro s d h; exact Script.noSignalInv.wait s.w d _ h
      bioRead := by
        intro s n h
        obtain ⟨_, _, _, _, _, _, _, cw⟩ := bioRead_core (W := Script.world) s n
        rcases cw with cw | cw
        · rw [cw]; exact Script.noSignalInv.recvNow s.w n h
        · rw [cw]; exact Script.noSignalInv.receive s.w n _ h
      bioWrite := by
        intro s bs h
        unfold Tls.bioWrite
        have nw : ∀ (s0 : St σ Script) (r : SendRes Script) (rem : Int),
            AllNoSignal r.w.calls → AllNoSignal (noteWrite s0 bs r rem).2.w.calls := by
          intro s0 r rem hr; unfold noteWrite; split <;> exact hr
        split
        · exact nw _ _ _ (Script.noSignalInv.sendNow _ bs h)
        · split
          · exact nw _ _ _ (Script.noSignalInv.sendAll _ bs 0 h)
          · split
            · exact nw _ _ _ (Script.noSignalInv.sendTry _ bs h)
            · exact nw _ _ _ (Script.noSignalInv.sendSome _ bs _ _ 0 h) }
    exact F.run C E (fun s b h => h) ops _ h0
  · exact Script.noSignalInv.sendAny script data t h0

/-! ## the run-time oracle is a theorem of the model -/

/-- **spec_holds_on_model_partial** (`_partial`: endpoints without TLS; the full statement and what it lacks are in
`Spec/C15.lean` next to `model_satisfies_spec_partial`).  The predicate `./check C15` evaluates on the implementation's transcript
(`Spec.specRun`, then `Spec.specFinal`, of `Spec/C15.lean` - the driver calls exactly these functions) accepts every
trace the MODEL of the plain socket can produce: for every API level (synchronous `Send` / `Receive` of the basic and
buffered socket with any timeout, asynchronous socket on a driver), every receive buffer size, every payload and every
history of any length - peer sends in any segmentation, any scripted kernel answers (short writes, errors, time-outs),
driver steps with any `poll` result, a close / half close / reset of the peer at any point with or without loss of
unread data, destruction of the asynchronous socket - that satisfies the environment assumptions `Spec.histOk`
(decidable: the kernel does not accept 0 bytes of a non-empty buffer; K1 - after the kill `poll` reports the socket
ready / readable, `send` fails from some call on, `recv` yields the unread segments and then end of stream, or an
error only when the end is not orderly; the scenario is played to its end).  Hence: no exception class other than a
runtime error, nothing thrown out of `Step`, MSG_NOSIGNAL on every send, waits within the call's timeout semantics,
disconnect handler exactly once, every promise resolved or broken, delivered = prefix of the peer's stream and all of
it for an orderly close - all consequences of the model; a `spec` verdict on the implementation is a difference
between implementation and model. -/
theorem spec_holds_on_model_partial (async : Bool) (rsz : Nat) (ppay : Bytes) (history : List Spec.Op)
    (h : Spec.histOk async rsz ppay history = true) :
    ∃ s, Spec.specRun {} (Spec.modelTrace async rsz ppay history) = .ok s ∧ Spec.specFinal s = none :=
  Spec.model_satisfies_spec_partial async rsz ppay history h

/-- the hypothesis is satisfiable by non-trivial histories of both API levels (more examples, including traces the
predicate rejects and the necessity of each assumption, at the end of `Spec/C15.lean`) -/
example : Spec.histOk false 4 [1, 2, 3, 4, 5, 6, 7, 8] Spec.demoSync = true := by decide
example : Spec.histOk true 4 [1, 2, 3, 4, 5, 6, 7, 8] Spec.demoAsync = true := by decide

/-! ### non-vacuity -/

example : (sendAll Script.world { sends := [.accept 2, .accept 1] } [1, 2, 3, 4, 5]).exn.isSome = true :=
  (sendAll_dead_peer_terminates { sends := [.accept 2, .accept 1] } rfl [1, 2, 3, 4, 5] 0).2.2 (by decide)
example : (recvUntilExn Script.world 10 0 5 { recvs := [.data [1, 2], .data [3]] } []).1 = [[1, 2], [3]] := by decide

end SockModel.PeerFail

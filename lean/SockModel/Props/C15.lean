import SockModel.Model.PeerFail
namespace SockModel.PeerFail
/-- placeholder while the pipeline is brought up -/
theorem stub (n : Nat) : n = n := rfl
end SockModel.PeerFail

import SockModel.Model.AsyncQLemmas
import SockModel.Spec.C02
import SockModel.Model.GenQueueWorld
import SockModel.Generated.Loops
/-!
# C02  Async send pipeline: FIFO, whole buffers, futures tell the truth

Property theorems only (model: `Model/AsyncQ.lean`, invariant: `Model/AsyncQLemmas.lean`).

`run {} acts` is the state after *any* list `acts` of atomic actions
`enq t id bytes` / `arm t` / `writable ans` / `disarm` / `unregister` / `destroy`,
i.e. after any interleaving of any number of producer threads `t` with the
driver thread, any sequence of buffer contents (empty ones included) and any
pattern of partial writes / failed sends (`ans`).  Actions that the mutexes
forbid in a state are no-ops, so the quantification is exactly over the legal
interleavings at critical-section granularity.

`s.enqd` is the list of all `(id, bytes)` handed to `Send`, in the order in which
the `enq` critical sections took effect (each thread's own order is a
sub-order of it); `s.wire` are the bytes the OS accepted, in order.
-/
namespace SockModel.AsyncQ

/-- "Buffers handed to an asynchronous TCP socket's Send reach the peer as one contiguous copy
each, in the order in which the Send calls took effect, however the OS fragments the writes."

The byte stream (what the OS accepted so far, followed by what is still queued) is the
concatenation, in `enq` order, of exactly one contiguous piece per enqueued buffer; the piece is
the whole buffer unless that buffer's future carries an exception (its send failed: the unsent
remainder is dropped) or is broken (socket destroyed first), in which case it is a prefix.
Nothing is duplicated, reordered or interleaved, for every partial-write pattern. -/
theorem asyncq_wire (acts : List Action) :
    let s := run {} acts
    ∃ pieces : List Bytes,
      Pieces s.fut s.enqd pieces ∧
      s.wire ++ (s.q.map (·.rest)).flatten = pieces.flatten := by
  intro s
  have h : QInv s := inv_run inv_init acts
  refine ⟨s.done.map (·.sent) ++ s.q.map (·.full), ?_, ?_⟩
  · rw [h.enqd]
    apply Pieces.append (pieces_done h s.done (fun _ hd => hd))
    apply Pieces.map
    intro e _
    exact ⟨List.prefix_refl _, fun _ => rfl⟩
  · rw [h.wire, List.flatten_append, List.append_assoc, q_stream h.tail]


/-- "with a value only after every byte of its buffer (and of all earlier buffers) was accepted
by the OS": if future `id` holds a value, the wire starts with the pieces of all earlier buffers
(whole buffers, except for earlier ones whose own send failed) followed by all of `id`'s bytes. -/
theorem asyncq_future_truth (acts : List Action) (id : Nat) :
    let s := run {} acts
    s.fut id = .value →
      ∃ pre b post pieces, s.enqd = pre ++ (id, b) :: post ∧ Pieces s.fut pre pieces ∧
        (pieces.flatten ++ b) <+: s.wire := by
  intro s hv
  have h : QInv s := inv_run inv_init acts
  obtain ⟨d, hd, hid⟩ := resolved_in_done h (id := id) (by rw [hv]; rfl)
  obtain ⟨d1, d2, hsplit⟩ := List.append_of_mem hd
  have hdd := h.futd d hd
  have hdrop : d.dropped = [] := hdd.2.2 (by rw [← hdd.1, hid]; exact hv)
  refine ⟨d1.map (fun d => (d.id, d.full)), d.full, d2.map (fun d => (d.id, d.full)) ++ s.q.map (fun e => (e.id, e.full)),
    d1.map (·.sent), ?_, ?_, ?_⟩
  · rw [h.enqd, hsplit, ← hid]; simp
  · exact pieces_done h d1 (fun x hx => by rw [hsplit]; simp [hx])
  · rw [h.wire, hsplit]
    simp only [List.map_append, List.map_cons, List.flatten_append, List.flatten_cons, Done.full, hdrop,
      List.append_nil, List.append_assoc]
    exact ⟨_, by rw [List.append_assoc]⟩


/-- "with an exception if transmitting it failed, or as a broken promise if the socket is
destroyed first": a future acquires an exception only in the `writable fail` action that tried to
send *its* element (the front one), a value only in the `writable (accept k)` action that accepted
the last byte of its element, and becomes broken only by `destroy` while pending. -/
theorem asyncq_future_origin (s : St) (a : Action) (id : Nat) :
    ((step s a).fut id = .exn → s.fut id = .exn ∨
        (a = .writable .fail ∧ ∃ e rest, s.q = e :: rest ∧ e.id = id)) ∧
    ((step s a).fut id = .value → s.fut id = .value ∨
        (∃ k e rest, a = .writable (.accept k) ∧ s.q = e :: rest ∧ e.id = id ∧ e.rest.length ≤ k)) ∧
    ((step s a).fut id = .broken → s.fut id = .broken ∨ (a = .destroy ∧ s.fut id = .pending)) := by
  have keep : ∀ {P Q R : Prop} {f : Fut}, f = s.fut id →
      (f = .exn → s.fut id = .exn ∨ P) ∧ (f = .value → s.fut id = .value ∨ Q) ∧
      (f = .broken → s.fut id = .broken ∨ R) := by
    intro P Q R f hf
    subst hf
    exact ⟨Or.inl, Or.inl, Or.inl⟩
  cases a with
  | enq t i b =>
    simp only [step]
    split
    · exact keep rfl
    · by_cases hi : id = i
      · subst hi; dsimp only; rw [upd_same]
        exact ⟨(fun h => nomatch h), (fun h => nomatch h), (fun h => nomatch h)⟩
      · exact keep (upd_other _ _ _ _ hi)
  | arm t => simp only [step]; split <;> exact keep rfl
  | disarm => simp only [step]; split <;> exact keep rfl
  | unregister => simp only [step]; split <;> exact keep rfl
  | destroy =>
    simp only [step]
    split
    · exact keep rfl
    · dsimp only
      by_cases hp : s.fut id = .pending
      · rw [if_pos hp]
        exact ⟨(fun h => nomatch h), (fun h => nomatch h), fun _ => Or.inr ⟨trivial, hp⟩⟩
      · rw [if_neg hp]; exact keep rfl
  | writable an =>
    simp only [step]
    split
    · exact keep rfl
    · split
      · exact keep rfl
      · rename_i e rest hq
        cases an with
        | accept k =>
          simp only [driverSend]
          split
          · rename_i hk
            dsimp only
            by_cases hi : id = e.id
            · subst hi; rw [upd_same]
              exact ⟨(fun h => nomatch h), fun _ => Or.inr ⟨k, e, rest, rfl, hq, rfl, hk⟩, (fun h => nomatch h)⟩
            · exact keep (upd_other _ _ _ _ hi)
          · split <;> exact keep rfl
        | fail =>
          simp only [driverSend]
          by_cases hi : id = e.id
          · subst hi; rw [upd_same]
            exact ⟨fun _ => Or.inr ⟨trivial, e, rest, hq, rfl⟩, (fun h => nomatch h), (fun h => nomatch h)⟩
          · exact keep (upd_other _ _ _ _ hi)


/-- "Each returned future becomes ready exactly once": a resolved future never changes again,
whatever happens afterwards. -/
theorem asyncq_future_once (acts more : List Action) (id : Nat) :
    let s := run {} acts
    (s.fut id).resolved = true → (run s more).fut id = s.fut id := by
  intro s hr
  have h : QInv s := inv_run inv_init acts
  clear_value s
  induction more generalizing s with
  | nil => rfl
  | cons a as ih =>
    have h1 := fut_stable_step h a id hr
    simp only [run, List.foldl_cons]
    have := ih (step s a) (by rw [h1]; exact hr) (inv_step h a)
    simp only [run] at this
    rw [this, h1]


/-- "in particular every moment at which the queue runs empty and is refilled": while the socket
is registered and the queue is non-empty, `POLLOUT` is armed or some producer thread that saw the
empty queue is still on its way to `AsyncWantSend` - the refill is never forgotten. -/
theorem asyncq_armed (acts : List Action) :
    let s := run {} acts
    s.registered = true → s.q ≠ [] → s.armed = true ∨ ∃ t, t ∈ s.pendingArm := by
  intro s hr hq
  have h : QInv s := inv_run inv_init acts
  rcases h.armedInv hr hq with ha | hp
  · exact Or.inl ha
  · right
    cases hpa : s.pendingArm with
    | nil => exact absurd hpa hp
    | cons t ts => exact ⟨t, by simp⟩


/-- "it does not stay pending while the driver runs and the peer reads": every writable event on a
non-empty queue that accepts at least one byte (or meets an empty buffer) strictly decreases
`Σ|unsent| + |queue|`; together with `asyncq_armed` (the event stays requested) and
`asyncq_no_new_work` the queue drains and every future resolves. -/
theorem asyncq_drains (s : St) (e : Elem) (rest : List Elem) (k : Nat)
    (hen : s.destroyed = false ∧ s.registered = true ∧ s.armed = true ∧ s.drvDisarm = false)
    (hq : s.q = e :: rest) (hk : 0 < k ∨ e.rest = []) :
    measure (step s (.writable (.accept k))) < measure s := by
  obtain ⟨h1, h2, h3, h4⟩ := hen
  simp only [step, h1, h2, h3, h4, hq]
  simp only [Bool.false_eq_true, not_true_eq_false, or_self, ↓reduceIte, driverSend]
  split
  · simp [measure, hq]
  · rename_i hlt
    split
    · rename_i hk0
      rcases hk with hk | hk
      · omega
      · simp [hk] at hlt
    · simp only [measure, hq, List.map_cons, List.sum_cons, List.length_drop]
      omega


/-- only `Send` adds work -/
theorem asyncq_no_new_work (s : St) (a : Action) (h : ∀ t id b, a ≠ .enq t id b) :
    measure (step s a) ≤ measure s := by
  cases a with
  | enq t i b => exact absurd rfl (h t i b)
  | arm t => simp only [step]; split <;> simp [measure]
  | disarm => simp only [step]; split <;> simp [measure]
  | unregister => simp only [step]; split <;> simp [measure]
  | destroy => simp only [step]; split <;> simp [measure]
  | writable an =>
    simp only [step]
    split
    · exact Nat.le_refl _
    · split
      · rename_i hq; simp [measure, hq]
      · rename_i e rest hq
        cases an with
        | accept k =>
          simp only [driverSend]
          split
          · simp [measure, hq]
          · split
            · exact Nat.le_refl _
            · simp only [measure, hq, List.map_cons, List.sum_cons, List.length_drop]; omega
        | fail => simp [driverSend, measure, hq]


/-- "The buffer goes back to its pool only after its last byte was handed to the OS (or the send
failed), and no later than the end of the driver step in which its future resolves": in every
reachable state a buffer is back in the pool iff its future is resolved (both happen in the same
atomic action), iff it was enqueued and is no longer queued; each buffer returns once. -/
theorem asyncq_buffer_return (acts : List Action) (id : Nat) :
    let s := run {} acts
    (id ∈ s.returned ↔ (s.fut id).resolved = true) ∧
    (id ∈ s.returned ↔ id ∈ s.enqd.map (·.1) ∧ id ∉ s.q.map (·.id)) ∧
    s.returned.Nodup := by
  intro s
  have h : QInv s := inv_run inv_init acts
  have hnd := h.nodup
  rw [h.ids] at hnd
  have hnd' := List.nodup_append.mp hnd
  refine ⟨⟨?_, ?_⟩, ⟨?_, ?_⟩, ?_⟩
  · intro hm
    rw [h.ret] at hm
    obtain ⟨d, hd, rfl⟩ := List.mem_map.mp hm
    have := h.futd d hd
    rw [this.1]; exact this.2.1
  · intro hr
    obtain ⟨d, hd, rfl⟩ := resolved_in_done h hr
    rw [h.ret]; exact List.mem_map_of_mem hd
  · intro hm
    rw [h.ret] at hm
    refine ⟨by rw [h.ids]; exact List.mem_append_left _ hm, ?_⟩
    intro hq
    exact hnd'.2.2 id hm id hq rfl
  · intro ⟨hin, hnq⟩
    rw [h.ids] at hin
    rw [h.ret]
    rcases List.mem_append.mp hin with hm | hm
    · exact hm
    · exact absurd hm hnq
  · rw [h.ret]; exact hnd'.1


/-- "or as a broken promise if the socket is destroyed first": after `destroy` (possible whenever
the driver is not in the middle of a step) no future is pending - the pending ones became broken,
resolved ones kept their state -, every buffer is back in its pool, and nothing changes any more. -/
theorem asyncq_destroy (acts more : List Action) :
    let s := run {} acts
    s.drvDisarm = false →
    let s' := run (step s .destroy) more
    (∀ id, s'.fut id ≠ .pending) ∧ (∀ e ∈ s'.enqd, e.1 ∈ s'.returned) ∧ s'.q = [] ∧
    (∀ id, s.fut id = .pending → s'.fut id = .broken) ∧
    (∀ id, (s.fut id).resolved = true → s'.fut id = s.fut id) := by
  intro s hdis s'
  have h : QInv s := inv_run inv_init acts
  have h1 : QInv (step s .destroy) := inv_step h _
  have hd1 : (step s .destroy).destroyed = true := by
    simp only [step]; split
    · rename_i hc; rcases hc with hc | hc
      · exact hc
      · rw [hdis] at hc; cases hc
    · rfl
  have hstuck : s' = step s .destroy := by
    show run (step s .destroy) more = _
    induction more with
    | nil => rfl
    | cons a as ih => simp only [run, List.foldl_cons]; rw [destroyed_stuck h1 hd1 a]; exact ih
  have hq : (step s .destroy).q = [] := (h1.destr hd1).1
  rw [hstuck]
  refine ⟨?_, ?_, hq, ?_, ?_⟩
  · intro id hp
    have hin : id ∈ (step s .destroy).enqd.map (·.1) := by
      apply Classical.byContradiction
      intro hn; rw [h1.futn id hn] at hp; cases hp
    rw [h1.ids, hq] at hin
    simp only [List.map_nil, List.append_nil] at hin
    obtain ⟨d, hd, rfl⟩ := List.mem_map.mp hin
    have := h1.futd d hd
    rw [hp] at this
    have h2 := this.2.1; rw [← this.1] at h2; simp [Fut.resolved] at h2
  · intro e he
    have : e.1 ∈ (step s .destroy).enqd.map (·.1) := List.mem_map_of_mem he
    rw [h1.ids, hq] at this
    simpa [h1.ret] using this
  · intro id hp
    simp only [step]
    split
    · rename_i hc
      rcases hc with hc | hc
      · have := (h.destr hc).1
        have hin : id ∈ s.enqd.map (·.1) := by
          apply Classical.byContradiction
          intro hn; rw [h.futn id hn] at hp; cases hp
        rw [h.ids, this] at hin
        simp only [List.map_nil, List.append_nil] at hin
        obtain ⟨d, hd, rfl⟩ := List.mem_map.mp hin
        have hdd := h.futd d hd
        rw [hp] at hdd
        have h2 := hdd.2.1; rw [← hdd.1] at h2; simp [Fut.resolved] at h2
      · rw [hdis] at hc; cases hc
    · simp [hp]
  · intro id hr
    exact fut_stable_step h .destroy id hr


/-- **the whole property, as the check evaluates it on the implementation, holds on the model**: the
predicate of `Spec/C02.lean` (`specStep`/`specRun`: an ideal FIFO pipeline fed with the same OS answers,
maintained from the observations alone - futures after every operation exactly those of the ideal
pipeline, buffers back in the pool exactly those with a resolved future, the peer's bytes the FIFO
concatenation of what the OS accepted, one `send()` per step and only with a buffer queued, a `send()`
attempt whenever a buffer is queued on a connected socket whose peer has read everything, no handler and
no exception without cause) accepts the observations the model (`modelTrace`, built from the very `step`
function of the theorems above) produces for every history of Sends, driver steps with arbitrary poll
readiness and `send()` answers (full / any short count / failure / scripted zero), peer reads, peer
close, pool exhaustion and destruction, of any length.  `./check C02` runs the very same functions
(`specRunL` = `specRun` with the operation line attached to the message, `specRunL_ok`) on the
transcript of the real library, so a spec failure there is a difference between library and model.
Hypothesis `Op.sane`: the kernel does not answer 0 to an unscripted `send()` (a clause of the spec
about the kernel, not the library). -/
theorem spec_holds_on_model (ops : List Op) (hs : ∀ op ∈ ops, op.sane) :
    ∃ sp, specRun {} (modelTrace {} ops) = .ok sp :=
  model_satisfies_spec ops hs

/-! ### non-vacuity: concrete interleavings with partial writes, a failed send, the refill race -/

/-- two producers, partial writes, a failed send in the middle: wire and futures -/
example :
    let s := run {} [.enq 0 1 [1, 2, 3], .arm 0, .enq 1 2 [4, 5], .enq 0 3 [6],
                     .writable (.accept 2), .writable (.accept 7), .writable .fail, .writable (.accept 1), .disarm]
    s.wire = [1, 2, 3, 6] ∧ s.fut 1 = .value ∧ s.fut 2 = .exn ∧ s.fut 3 = .value ∧ s.returned = [1, 2, 3] ∧
      s.armed = false := by decide

/-- the empty/refill race: the queue runs empty, a producer refills it before the driver clears
`POLLOUT`; its `AsyncWantSend` has to wait for `stepMtx` and re-arms afterwards -/
example :
    let s := run {} [.enq 0 1 [1], .arm 0, .writable (.accept 1), .enq 1 2 [2], .arm 1, .disarm, .arm 1]
    s.armed = true ∧ s.pendingArm = [] ∧ s.q.map (·.id) = [2] := by decide

/-- destroy with a partially sent front buffer -/
example :
    let s := run {} [.enq 0 1 [1, 2, 3], .arm 0, .enq 0 2 [], .writable (.accept 1), .destroy]
    s.wire = [1] ∧ s.fut 1 = .broken ∧ s.fut 2 = .broken ∧ s.returned = [1, 2] := by decide

/-- the hypothesis of `spec_holds_on_model` is met by it -/
example : ∀ op ∈ specDemo, op.sane := by decide

/-- what the model shows for it: the future letters after every Send / step / destroy -/
example : (modelTrace {} specDemo).filterMap (fun o => match o with
      | .send _ _ (some st) | .step _ _ _ _ _ (some st) | .destroy (some st) => some st.futs | _ => none)
    = ["p", "pp", "pp", "pp", "vp", "ve", "vep", "vep", "vev", "vevp", "vevp", "vevp", "vevb", "vevb"] := by decide

/-- ... and the observer's book-keeping at the end -/
example : (specRun {} (modelTrace {} specDemo)).toOption.map (fun sp => (sp.status, sp.pend.length, sp.acc, sp.connected))
    = some ([(1, 'v'), (2, 'e'), (3, 'v'), (4, 'b')], 0, [9], false) := by decide

/-- the predicate is not trivially accepting: a value before the last byte was accepted is rejected ... -/
example : (specRun {} [.send 1 [1, 2] (some ⟨"p", []⟩),
    .step false [.sent 2 1] false false none (some ⟨"v", [1]⟩)]).toOption.isNone := by decide

/-- ... and so are a step that makes no send attempt although a buffer is queued and the peer has read
everything, and a buffer that is not back in the pool when its future is resolved -/
example : (specRun {} [.send 1 [1, 2] (some ⟨"p", []⟩),
    .step false [] false false none (some ⟨"p", []⟩)]).toOption.isNone := by decide
example : (specRun {} [.send 1 [1, 2] (some ⟨"p", []⟩),
    .step false [.sent 2 2] false false none (some ⟨"v", []⟩)]).toOption.isNone := by decide

end SockModel.AsyncQ

/-! ## Source-derived tie, stage 4 (DESIGN.md §0.7.3): `SocketAsyncImpl::DriverSend`

Generated on every run from the clang AST of src/socket_async_impl.cpp (Generated/Loops.lean) over the abstract queue /
promise / buffer / socket interface `Gen.QueueWorld` (`auto &&[promise, buffer(, addr)] = q.front()`; `try` /
`catch(std::runtime_error const &)` as `M.tryCatch`), run on the model's own queue state (Model/GenQueueWorld.lean) and
tied to the model's writable action for EVERY queue, every future state and every answer of the OS.  Every generated
`if` is decided by `omega` from the case hypotheses (whatever its polarity / arithmetic form), so the early-return
and `q.empty()` forms of harmless_H07 are re-proved by the same script. -/
namespace SockModel.Props.C02
open SockModel SockModel.AsyncQ SockModel.GenWorld

def afterWritable (r : Gen.Res Bool × QSt) : St :=
  match r.1 with
  | .ok b => { r.2.s with drvDisarm := b }
  | _ => r.2.s

theorem isA_sys_rt : Gen.ExnClass.isA .system_error .runtime_error = true := rfl
theorem isA_rt_rt : Gen.ExnClass.isA .runtime_error .runtime_error = true := rfl
theorem isA_logic_rt : Gen.ExnClass.isA .logic_error .runtime_error = false := rfl

theorem len_succ_eq_one {α : Type} (l : List α) : (((l.length + 1 : Nat) : Int) = 1) = (l.isEmpty = true) := by
  cases l <;> simp <;> omega

theorem dec_len {α : Type} (l : List α) : decide (((l.length : Int) + 1) = 1) = l.isEmpty := by
  cases l <;> simp <;> omega

/-- run the generated code on the model's queue: unfold, rewrite the world calls, decide every generated `if` by
`omega` from the case hypotheses in the context (whatever its polarity and arithmetic form) -/
macro "tie_q_simp" : tactic => `(tactic| (
  simp (disch := omega) only [Gen.DriverSend, Gen.M.bind, Gen.M.pure, Gen.M.throw, Gen.M.tryCatch, isA_sys_rt, isA_rt_rt,
    isA_logic_rt, q_qSize, q_qEmpty, q_qPop, q_bufferSize, q_bufferErase, q_promiseSetValue, q_promiseSetException,
    q_sockSendSome, q_sockDriverPending, List.length_cons, List.length_nil, List.isEmpty_cons, List.isEmpty_nil,
    if_pos, if_neg, if_true, if_false, ite_true, ite_false, Bool.true_eq_false, Bool.false_eq_true, Int.toNat_natCast,
    upd_same]))

theorem tie_DriverSend (fuel : Nat) (s : St) (a : Ans) (hd : s.drvDisarm = false) :
    afterWritable (Gen.DriverSend asyncQWorld fuel ⟨s, some a⟩)
      = match s.q with
        | [] => { s with drvDisarm := true }
        | e :: rest => driverSend s e rest a := by
  obtain ⟨q, armed, registered, destroyed, drvDisarm, wire, fut, returned, pendingArm, enqd, done⟩ := s
  simp only at hd
  subst hd
  cases q with
  | nil =>
    tie_q_simp
    simp [afterWritable]
  | cons e rest =>
    cases a with
    | fail =>
      tie_q_simp
      simp [afterWritable, driverSend, len_succ_eq_one, dec_len]
    | accept k =>
      by_cases h1 : e.rest.length ≤ k
      · have hm : min k e.rest.length = e.rest.length := Nat.min_eq_right h1
        tie_q_simp
        simp [afterWritable, driverSend, len_succ_eq_one, dec_len, h1, hm]
      · by_cases h2 : k = 0
        · tie_q_simp
          simp [afterWritable, driverSend, h1, h2]
          intro he; simp [he] at h1
        · have hm : min k e.rest.length = k := Nat.min_eq_left (by omega)
          tie_q_simp
          simp [afterWritable, driverSend, h1, h2, hm]

/-- **tie of the enqueue side** `SocketAsyncImpl::Send` → `DoSend<SendQ>` → `DoSendEnqueue<SendQ>`: with `sendQMtx` free
at the call, the generated code takes the lock, reads `q.empty()`, performs the model's `enq` action, releases the lock
and then - iff the queue was empty - performs the model's `arm` action of the same thread; it ends with the lock free -/
theorem tie_AsyncSend (fuel : Nat) (s : St) (t id : Nat) (bytes : Bytes) :
    Gen.AsyncSend enqWorld fuel ⟨s, t, id, bytes, false⟩ =
      (.ok (), ⟨if s.q.isEmpty then step (step s (.enq t id bytes)) (.arm t) else step s (.enq t id bytes), t, id, bytes, false⟩) := by
  simp (disch := omega) only [Gen.AsyncSend, Gen.M.bind, Gen.M.pure, e_qEmpty, e_qEmplace,
    e_lock, e_unlock, e_driverLock, e_driverAsyncWantSend, if_true, if_false, ite_true, ite_false, Bool.false_eq_true]
  cases h : s.q.isEmpty <;>
    simp (disch := omega) only [h, Gen.M.bind, Gen.M.pure, e_driverLock, e_driverAsyncWantSend, if_true, if_false, ite_true,
      ite_false, Bool.false_eq_true]
end SockModel.Props.C02

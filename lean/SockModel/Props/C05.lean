import SockModel.Model.LocksLemmas
import SockModel.Spec.C04
/-!
# C05  The driver always yields and always wakes: no deadlock, no lost wake-up

Same transition system as C04.  `Tr s false s'` are the transitions threads take on their own;
`Tr s true s'` are starts of new calls and events of the environment (socket readiness, poll
timeout).  The theorems below assume NO help from the environment: unlimited timeout, no traffic.
-/
namespace SockModel.Locks

/-- "no lost wake-up": whenever a user thread has sent its wake-up datagram and waits for
`stepMtx` while the driver is blocked in `poll`, the pipe is readable - the poll returns whatever
its timeout; the same holds if the driver has not even reached the poll yet. -/
theorem no_lost_wakeup {s : St} (h : Reach s) (t : Tid) (hu : s.u t = .waitStep) :
    (∀ r, s.d = .atPoll r → 0 < s.pipe) ∧ (∀ r, s.d = .inStep r → 0 < s.pipe) ∧
    (∀ r, s.d = .wantStep r → 0 < s.pipe) := by
  have hw := (inv_reach h).wake t hu
  refine ⟨?_, ?_, ?_⟩ <;> intro r hd <;> rw [hd] at hw <;> simpa [DPc.leaving] using hw

/-- "returns after the driver has completed at most a small bounded number of further steps":
while a user thread holds `pauseMtx` (from before its wake-up datagram until it owns `stepMtx`) the
driver cannot pass `~StepGuard`, i.e. it cannot begin another step after the one in progress. -/
theorem bounded_handover {s s' : St} {b : Bool} (h : Reach s) (t : Tid)
    (hu : (s.u t).ownsPause = true) (tr : Tr s b s') : ∀ r, s'.d ≠ .holdPause r := by
  have inv := inv_reach h
  have hown : s.pause = .usr t := (inv.pauseU t).mp hu
  have hnot : ∀ r, s.d ≠ .holdPause r := by
    intro r hd
    have := inv.pauseD.mp (by rw [hd]; rfl)
    rw [hown] at this; cases this
  intro r
  have h0 := hnot false
  have h1 := hnot true
  cases r <;> (cases tr <;> simp_all)

/-- a user thread waiting for `stepMtx` (after its datagram) is never stuck: some thread can move -/
theorem waitStep_progress {s : St} (inv : LInv s) (t : Tid) (hu : s.u t = .waitStep) :
    ∃ s', Tr s false s' := by
  cases hstep : s.step with
  | none => exact ⟨_, Tr.uLockStep hu hstep⟩
  | drv =>
    have hd := inv.stepD.mpr hstep
    cases hdd : s.d with
    | inStep r => exact ⟨_, Tr.dToPoll hdd⟩
    | atPoll r =>
      have := inv.wake t hu
      rw [hdd] at this
      have hp : 0 < s.pipe := by simpa [DPc.leaving] using this
      exact ⟨_, Tr.dPollPipe hdd hp⟩
    | woke r => exact ⟨_, Tr.dUnlockStep hdd⟩
    | idle => rw [hdd] at hd; simp [DPc.ownsStep] at hd
    | r0 => rw [hdd] at hd; simp [DPc.ownsStep] at hd
    | wantStep r => rw [hdd] at hd; simp [DPc.ownsStep] at hd
    | wantPause r => rw [hdd] at hd; simp [DPc.ownsStep] at hd
    | holdPause r => rw [hdd] at hd; simp [DPc.ownsStep] at hd
  | usr t' =>
    have hu' := (inv.stepU t').mpr hstep
    cases hut : s.u t' with
    | relPause => exact ⟨_, Tr.uRelPause hut⟩
    | crit => exact ⟨_, Tr.uUnlock hut⟩
    | idle => rw [hut] at hu'; simp [UPc.ownsStep] at hu'
    | wantPause => rw [hut] at hu'; simp [UPc.ownsStep] at hu'
    | bump => rw [hut] at hu'; simp [UPc.ownsStep] at hu'
    | waitStep => rw [hut] at hu'; simp [UPc.ownsStep] at hu'
    | stopBump => rw [hut] at hu'; simp [UPc.ownsStep] at hu'

/-- "No interleaving of any number of such calls deadlocks": in every reachable state in which some
management call or Stop is under way, some thread can take a step on its own - without any socket
event, timeout or new call.  (The only states without such a step have every user thread idle:
the legitimate "driver sleeps in poll, nothing to do" state.) -/
theorem no_deadlock {s : St} (h : Reach s) (t : Tid) (hbusy : s.u t ≠ .idle) : ∃ s', Tr s false s' := by
  have inv := inv_reach h
  cases hu : s.u t with
  | idle => exact absurd hu hbusy
  | bump => exact ⟨_, Tr.uBump hu⟩
  | waitStep => exact waitStep_progress inv t hu
  | relPause => exact ⟨_, Tr.uRelPause hu⟩
  | crit => exact ⟨_, Tr.uUnlock hu⟩
  | stopBump => exact ⟨_, Tr.uStopBump hu⟩
  | wantPause =>
    cases hp : s.pause with
    | none => exact ⟨_, Tr.uLockPause hu hp⟩
    | drv =>
      have hd := inv.pauseD.mpr hp
      cases hdd : s.d with
      | holdPause r => exact ⟨_, Tr.dUnlockPause hdd⟩
      | idle => rw [hdd] at hd; simp [DPc.ownsPause] at hd
      | r0 => rw [hdd] at hd; simp [DPc.ownsPause] at hd
      | wantStep r => rw [hdd] at hd; simp [DPc.ownsPause] at hd
      | inStep r => rw [hdd] at hd; simp [DPc.ownsPause] at hd
      | atPoll r => rw [hdd] at hd; simp [DPc.ownsPause] at hd
      | woke r => rw [hdd] at hd; simp [DPc.ownsPause] at hd
      | wantPause r => rw [hdd] at hd; simp [DPc.ownsPause] at hd
    | usr t' =>
      have hu' := (inv.pauseU t').mpr hp
      cases hut : s.u t' with
      | bump => exact ⟨_, Tr.uBump hut⟩
      | waitStep => exact waitStep_progress inv t' hut
      | relPause => exact ⟨_, Tr.uRelPause hut⟩
      | idle => rw [hut] at hu'; simp [UPc.ownsPause] at hu'
      | wantPause => rw [hut] at hu'; simp [UPc.ownsPause] at hu'
      | crit => rw [hut] at hu'; simp [UPc.ownsPause] at hu'
      | stopBump => rw [hut] at hu'; simp [UPc.ownsPause] at hu'

/-- the driver itself is never stuck inside a step except in `poll` with an empty pipe, or waiting
for a mutex that a user thread holds (which `no_deadlock` shows will be released) -/
theorem driver_progress {s : St} (h : Reach s) :
    (∀ r, s.d = .inStep r → ∃ s', Tr s false s') ∧ (∀ r, s.d = .woke r → ∃ s', Tr s false s') ∧
    (∀ r, s.d = .holdPause r → ∃ s', Tr s false s') ∧
    (∀ r, s.d = .atPoll r → 0 < s.pipe → ∃ s', Tr s false s') :=
  ⟨fun _ hd => ⟨_, Tr.dToPoll hd⟩, fun _ hd => ⟨_, Tr.dUnlockStep hd⟩, fun _ hd => ⟨_, Tr.dUnlockPause hd⟩,
   fun _ hd hp => ⟨_, Tr.dPollPipe hd hp⟩⟩


/-! ### counting the driver's steps while a caller waits -/

/-- steps the driver can still begin before it needs `pauseMtx` -/
def DPc.canBegin : DPc → Nat
  | .idle | .r0 | .wantStep _ => 1
  | _ => 0

/-- the transition is "the driver begins a step" (StepGuard acquired stepMtx) -/
def begins (s s' : St) : Prop := ∃ r, s.d = .wantStep r ∧ s'.d = .inStep r

instance (s s' : St) : Decidable (begins s s') := by
  unfold begins
  cases hd : s.d <;> cases hd' : s'.d <;> first
    | (apply isFalse; rintro ⟨r, h1, h2⟩; simp_all; done)
    | (rename_i r r'
       by_cases hr : r = r'
       · subst hr; exact isTrue ⟨r, rfl, rfl⟩
       · apply isFalse; rintro ⟨r0, h1, h2⟩; cases h1; cases h2; exact hr rfl)

theorem not_begins_of_d_eq {s s' : St} (h : s'.d = s.d) : ¬ begins s s' := by
  rintro ⟨r, h1, h2⟩; rw [h, h1] at h2; cases h2

theorem userCase {s s' : St} (hd : s'.d = s.d) :
    s'.d.canBegin + (if begins s s' then 1 else 0) ≤ s.d.canBegin := by
  rw [if_neg (not_begins_of_d_eq hd), hd]; omega

/-- one transition while user `t` holds `pauseMtx`: the potential never grows and drops when a step begins -/
theorem canBegin_step {s s' : St} {b : Bool} (h : Reach s) (t : Tid) (hu : (s.u t).ownsPause = true)
    (tr : Tr s b s') : s'.d.canBegin + (if begins s s' then 1 else 0) ≤ s.d.canBegin := by
  have inv := inv_reach h
  have hown : s.pause = .usr t := (inv.pauseU t).mp hu
  have hnoHold : ∀ r, s.d ≠ .holdPause r := by
    intro r hd
    have := inv.pauseD.mp (by rw [hd]; rfl)
    rw [hown] at this; cases this
  cases tr with
  | dRunEnter hd => simp [begins, DPc.canBegin, hd]
  | dRunExit hd hs => simp [begins, DPc.canBegin, hd]
  | dRunGo hd hs => simp [begins, DPc.canBegin, hd]
  | dStepEnter hd => simp [begins, DPc.canBegin, hd]
  | dLockStep hd hs =>
    rename_i r
    have hb : begins s { s with step := .drv, d := .inStep r } := ⟨r, hd, rfl⟩
    simp [hb, DPc.canBegin, hd]
  | dToPoll hd => simp [begins, DPc.canBegin, hd]
  | dPollPipe hd hp => simp [begins, DPc.canBegin, hd]
  | dPollOther hd hp => simp [begins, DPc.canBegin, hd]
  | dUnlockStep hd => simp [begins, DPc.canBegin, hd]
  | dLockPause hd hp => rw [hown] at hp; cases hp
  | dUnlockPause hd => exact absurd hd (hnoHold _)
  | dStop => exact userCase rfl
  | uTryOk hu' hs => exact userCase rfl
  | uTryFail hu' hs => exact userCase rfl
  | uLockPause hu' hp => exact userCase rfl
  | uBump hu' => exact userCase rfl
  | uLockStep hu' hs => exact userCase rfl
  | uRelPause hu' => exact userCase rfl
  | uUnlock hu' => exact userCase rfl
  | uStopSet hu' => exact userCase rfl
  | uStopBump hu' => exact userCase rfl

def countBegins : St → List St → Nat
  | _, [] => 0
  | s, s' :: rest => (if begins s s' then 1 else 0) + countBegins s' rest

/-- "returns after the driver has completed at most a small bounded number of further steps": along
EVERY execution fragment during which a user thread holds `pauseMtx` (i.e. from just before its
wake-up datagram until it owns `stepMtx`), the driver begins AT MOST ONE step - whatever the other
threads do and however the fragment is scheduled. -/
theorem handover_at_most_one_step {s : St} (h : Reach s) (t : Tid) (path : List St) (hp : Path s path)
    (hold : (s.u t).ownsPause = true) (holds : ∀ x ∈ path, (x.u t).ownsPause = true) :
    countBegins s path ≤ 1 := by
  suffices H : countBegins s path ≤ s.d.canBegin by
    have : s.d.canBegin ≤ 1 := by cases s.d <;> simp [DPc.canBegin]
    omega
  induction hp with
  | nil s => simp [countBegins]
  | @cons s0 s1 b rest tr _ ih =>
    have h1 := canBegin_step h t hold tr
    have hr1 : Reach s1 := Reach.step h tr
    have := ih hr1 (holds s1 List.mem_cons_self) (fun x hx => holds x (List.mem_cons_of_mem _ hx))
    simp only [countBegins]
    omega

end SockModel.Locks

/-! ### the run-time oracle is a theorem of the model (`Spec/C04.lean`) -/
namespace SockModel.Locks.C05
open SockModel.Locks.Spec

/-- the predicate `./check C05` evaluates on the implementation's scheduler trace (`Spec/C04.lean`: `specStep`
in mode C05 = monitor `stepB`: "the driver began n steps while T waits for stepMtx after its wake-up
datagram" for n > 1 - the run-time form of `handover_at_most_one_step`; outcomes `deadlock`, `stuck`, `crash`
are failures) accepts every trace of the model, for every history of any length (any number of user threads,
any programs, Stops from any thread).  The model never produces the outcome `deadlock`: that is
`no_deadlock` / `driver_progress` above, not this theorem.  No hypothesis. -/
theorem spec_holds_on_model (history : List MOp) :
    ∃ s, specRun ⟨false, true, false⟩ {} (modelTrace {} history) = .ok s :=
  model_satisfies_spec _ history

/-- non-vacuity: the hand-shake with the driver in `poll` is a model trace; a driver that begins two steps
while the caller waits after its datagram is rejected -/
example : modelTrace {} [.tr .dStepEnter, .tr .dLockStep, .tr .dToPoll, .tr (.uTryFail 3), .tr (.uLockPause 3),
      .tr (.uBump 3), .tr .dPollPipe, .tr .dUnlockStep, .tr .dLockPause, .tr (.uLockStep 3)] =
    [.ev 0 .other, .ev 0 .lockStep, .ev 0 .other, .ev 4 .other, .ev 4 .other, .ev 4 .bump, .ev 0 .other,
     .ev 0 .unlockStep, .ev 4 .lockStep] := by decide
example : accepts ⟨false, true, false⟩
    [.ev 0 .lockStep, .ev 4 .bump, .ev 0 .unlockStep, .ev 0 .lockStep, .ev 0 .unlockStep, .ev 4 .lockStep] = true := by
  decide
example : accepts ⟨false, true, false⟩
    [.ev 0 .lockStep, .ev 4 .bump, .ev 0 .unlockStep, .ev 0 .lockStep, .ev 0 .unlockStep, .ev 0 .lockStep] = false := by
  decide
/-- the datagram of a `Stop()` is not a caller waiting for `stepMtx` -/
example : accepts ⟨false, true, false⟩
    [.ev 4 (.beginStop true), .ev 4 .bump, .ev 4 .endStop, .ev 0 .lockStep, .ev 0 .unlockStep, .ev 0 .lockStep] = true := by
  decide

end SockModel.Locks.C05

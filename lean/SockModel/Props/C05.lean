import SockModel.Model.LocksLemmas
/-!
# C05  The driver always yields and always wakes: no deadlock, no lost wake-up

Same transition system as C04.  `Tr s false s'` are the transitions threads take on their own;
`Tr s true s'` are starts of new calls and events of the environment (socket readiness, poll
timeout).  The theorems below assume NO help from the environment: unlimited timeout, no traffic.
-/
namespace SockModel.Locks

/-- "no lost wake-up": whenever a user thread has sent its wake-up datagram and waits for
`stepMtx` while the driver is blocked in `poll`, the pipe is readable - the poll returns whatever
its timeout; the same holds if the driver has not even reached the poll yet. -/
theorem no_lost_wakeup {s : St} (h : Reach s) (t : Tid) (hu : s.u t = .waitStep) :
    (∀ r, s.d = .atPoll r → 0 < s.pipe) ∧ (∀ r, s.d = .inStep r → 0 < s.pipe) ∧
    (∀ r, s.d = .wantStep r → 0 < s.pipe) := by
  have hw := (inv_reach h).wake t hu
  refine ⟨?_, ?_, ?_⟩ <;> intro r hd <;> rw [hd] at hw <;> simpa [DPc.leaving] using hw

/-- "returns after the driver has completed at most a small bounded number of further steps":
while a user thread holds `pauseMtx` (from before its wake-up datagram until it owns `stepMtx`) the
driver cannot pass `~StepGuard`, i.e. it cannot begin another step after the one in progress. -/
theorem bounded_handover {s s' : St} {b : Bool} (h : Reach s) (t : Tid)
    (hu : (s.u t).ownsPause = true) (tr : Tr s b s') : ∀ r, s'.d ≠ .holdPause r := by
  have inv := inv_reach h
  have hown : s.pause = .usr t := (inv.pauseU t).mp hu
  have hnot : ∀ r, s.d ≠ .holdPause r := by
    intro r hd
    have := inv.pauseD.mp (by rw [hd]; rfl)
    rw [hown] at this; cases this
  intro r
  have h0 := hnot false
  have h1 := hnot true
  cases r <;> (cases tr <;> simp_all)

/-- a user thread waiting for `stepMtx` (after its datagram) is never stuck: some thread can move -/
theorem waitStep_progress {s : St} (inv : LInv s) (t : Tid) (hu : s.u t = .waitStep) :
    ∃ s', Tr s false s' := by
  cases hstep : s.step with
  | none => exact ⟨_, Tr.uLockStep hu hstep⟩
  | drv =>
    have hd := inv.stepD.mpr hstep
    cases hdd : s.d with
    | inStep r => exact ⟨_, Tr.dToPoll hdd⟩
    | atPoll r =>
      have := inv.wake t hu
      rw [hdd] at this
      have hp : 0 < s.pipe := by simpa [DPc.leaving] using this
      exact ⟨_, Tr.dPollPipe hdd hp⟩
    | woke r => exact ⟨_, Tr.dUnlockStep hdd⟩
    | idle => rw [hdd] at hd; simp [DPc.ownsStep] at hd
    | r0 => rw [hdd] at hd; simp [DPc.ownsStep] at hd
    | wantStep r => rw [hdd] at hd; simp [DPc.ownsStep] at hd
    | wantPause r => rw [hdd] at hd; simp [DPc.ownsStep] at hd
    | holdPause r => rw [hdd] at hd; simp [DPc.ownsStep] at hd
  | usr t' =>
    have hu' := (inv.stepU t').mpr hstep
    cases hut : s.u t' with
    | relPause => exact ⟨_, Tr.uRelPause hut⟩
    | crit => exact ⟨_, Tr.uUnlock hut⟩
    | idle => rw [hut] at hu'; simp [UPc.ownsStep] at hu'
    | wantPause => rw [hut] at hu'; simp [UPc.ownsStep] at hu'
    | bump => rw [hut] at hu'; simp [UPc.ownsStep] at hu'
    | waitStep => rw [hut] at hu'; simp [UPc.ownsStep] at hu'
    | stopBump => rw [hut] at hu'; simp [UPc.ownsStep] at hu'

/-- "No interleaving of any number of such calls deadlocks": in every reachable state in which some
management call or Stop is under way, some thread can take a step on its own - without any socket
event, timeout or new call.  (The only states without such a step have every user thread idle:
the legitimate "driver sleeps in poll, nothing to do" state.) -/
theorem no_deadlock {s : St} (h : Reach s) (t : Tid) (hbusy : s.u t ≠ .idle) : ∃ s', Tr s false s' := by
  have inv := inv_reach h
  cases hu : s.u t with
  | idle => exact absurd hu hbusy
  | bump => exact ⟨_, Tr.uBump hu⟩
  | waitStep => exact waitStep_progress inv t hu
  | relPause => exact ⟨_, Tr.uRelPause hu⟩
  | crit => exact ⟨_, Tr.uUnlock hu⟩
  | stopBump => exact ⟨_, Tr.uStopBump hu⟩
  | wantPause =>
    cases hp : s.pause with
    | none => exact ⟨_, Tr.uLockPause hu hp⟩
    | drv =>
      have hd := inv.pauseD.mpr hp
      cases hdd : s.d with
      | holdPause r => exact ⟨_, Tr.dUnlockPause hdd⟩
      | idle => rw [hdd] at hd; simp [DPc.ownsPause] at hd
      | r0 => rw [hdd] at hd; simp [DPc.ownsPause] at hd
      | wantStep r => rw [hdd] at hd; simp [DPc.ownsPause] at hd
      | inStep r => rw [hdd] at hd; simp [DPc.ownsPause] at hd
      | atPoll r => rw [hdd] at hd; simp [DPc.ownsPause] at hd
      | woke r => rw [hdd] at hd; simp [DPc.ownsPause] at hd
      | wantPause r => rw [hdd] at hd; simp [DPc.ownsPause] at hd
    | usr t' =>
      have hu' := (inv.pauseU t').mpr hp
      cases hut : s.u t' with
      | bump => exact ⟨_, Tr.uBump hut⟩
      | waitStep => exact waitStep_progress inv t' hut
      | relPause => exact ⟨_, Tr.uRelPause hut⟩
      | idle => rw [hut] at hu'; simp [UPc.ownsPause] at hu'
      | wantPause => rw [hut] at hu'; simp [UPc.ownsPause] at hu'
      | crit => rw [hut] at hu'; simp [UPc.ownsPause] at hu'
      | stopBump => rw [hut] at hu'; simp [UPc.ownsPause] at hu'

/-- the driver itself is never stuck inside a step except in `poll` with an empty pipe, or waiting
for a mutex that a user thread holds (which `no_deadlock` shows will be released) -/
theorem driver_progress {s : St} (h : Reach s) :
    (∀ r, s.d = .inStep r → ∃ s', Tr s false s') ∧ (∀ r, s.d = .woke r → ∃ s', Tr s false s') ∧
    (∀ r, s.d = .holdPause r → ∃ s', Tr s false s') ∧
    (∀ r, s.d = .atPoll r → 0 < s.pipe → ∃ s', Tr s false s') :=
  ⟨fun _ hd => ⟨_, Tr.dToPoll hd⟩, fun _ hd => ⟨_, Tr.dUnlockStep hd⟩, fun _ hd => ⟨_, Tr.dUnlockPause hd⟩,
   fun _ hd hp => ⟨_, Tr.dPollPipe hd hp⟩⟩

end SockModel.Locks

import SockModel.Model.UriSpellLemmas
import SockModel.Spec.Uri
import SockModel.Generated.Funcs
/-!
# C12  Address text round-trip, canonical accessors and port fidelity

Property theorems only (helpers live in `Model/UriLemmas.lean`, `Basic/Decimal.lean`; the proofs of the
spelling / round-trip / no-wrap theorems live in `Model/UriSpellLemmas.lean`, namespace `Lem`, because
`Spec/Uri.lean` needs them too - the theorems here keep their names and statements).
The neighbours `getaddrinfo` / `getnameinfo` are not modelled; the statements are about what
the library hands to `getaddrinfo` (`GaiCall`: node, service, AI_NUMERICSERV).  Assumptions
used to read them as statements about `Address` values, exercised by the check on every run
but not proved:
* (G1) for a numeric host literal `h` and a service `s` with `strtoulReads s = some v`, the
  resulting address has host `h` and port `v mod 2^16`;
* (G2) `getnameinfo(NI_NUMERICHOST|NI_NUMERICSERV)` returns the canonical text of the host and
  `render port`.
Hosts are arbitrary byte strings subject to the stated side conditions (so all IPv4 literals
`a.b.c.d`, and all IPv6 literals incl. `%scope` in the bracketed / pair forms, are covered).
-/
namespace SockModel.Uri
open SockModel.Decimal

/-- "Port() is p, Service() its decimal text": the decimal text of a port denotes that port, is a
pure digit string (no sign, no blank), and `strtoul` reads it completely as `p` -/
theorem render_parse (p : Nat) :
    parseDec (render p) = some p ∧ isDigits (render p) = true ∧
    (p < 2 ^ 64 → strtoulReads (render p) = some p) :=
  Lem.render_parse p

/-- "all documented spellings - "h:p" or "[h]:p", with a scheme prefix and/or a path suffix, the
pair (h, "p") - produce the same Address": for every host text `h` without ':' and '/', not
starting with '[' and without line terminators, every port `p < 65536`, every `\w*` scheme and
every single-line path/query suffix, all spellings are dissected to the same `(h, render p)` with
AI_NUMERICSERV, and the pair hands the same `(node, service)` to `getaddrinfo` -/
theorem spellings_agree (h scheme path : Bytes) (p : Nat) (hp : p < 65536)
    (hne : h ≠ []) (hc : (0x3a : UInt8) ∉ h) (hs : (0x2f : UInt8) ∉ h) (hb : h.head? ≠ some 0x5b)
    (hl : hasLineBreak h = false) (hw : ∀ c ∈ scheme, isWord c = true) (hpath : hasLineBreak path = false) :
    let d := render p
    let want : Except Exn Dissect := .ok ⟨h, d, true⟩
    dissect (h ++ 0x3a :: d) = want ∧
    dissect (0x5b :: (h ++ 0x5d :: 0x3a :: d)) = want ∧
    dissect (scheme ++ 0x3a :: 0x2f :: 0x2f :: (h ++ 0x3a :: d)) = want ∧
    dissect (h ++ 0x3a :: d ++ 0x2f :: path) = want ∧
    dissect (scheme ++ 0x3a :: 0x2f :: 0x2f :: (0x5b :: (h ++ 0x5d :: 0x3a :: d) ++ 0x2f :: path)) = want ∧
    parseHostServ h d = .ok ⟨cstr h, d, false⟩ ∧
    parseUri (h ++ 0x3a :: d) = .ok ⟨cstr h, d, true⟩ :=
  Lem.spellings_agree h scheme path p hp hne hc hs hb hl hw hpath

/-- no scheme is recognised in `h/rest` when `h` has no colon (whatever `rest` contains - "://" included) -/
theorem trimServAndPath_hostpath {h rest : Bytes} (hc : (0x3a : UInt8) ∉ h) :
    trimServAndPath (h ++ 0x2f :: rest) = (trimPath (h ++ 0x2f :: rest)).map (·, []) :=
  Lem.trimServAndPath_hostpath hc

/-- the documented spelling WITHOUT a service, "host/path": for every host text `h` without ':' and '/'
(non-empty) and EVERY single-line path - free text that may itself contain colons, ports, brackets and
"://" anywhere, so that the first colon of the whole string sits inside the path - the URI is dissected to
the same `(h, no service)` as the bare host, and that is what reaches `getaddrinfo` -/
theorem hostpath_spelling (h path : Bytes) (hne : h ≠ []) (hc : (0x3a : UInt8) ∉ h) (hs : (0x2f : UInt8) ∉ h)
    (hpath : hasLineBreak path = false) :
    dissect (h ++ 0x2f :: path) = .ok ⟨h, [], false⟩ ∧ dissect h = .ok ⟨h, [], false⟩ :=
  Lem.hostpath_spelling h path hne hc hs hpath

/-- non-vacuity / the input class of the seeded change C12_2_agentG: the first colon of the string is the
one of "://" inside the query -/
example : dissect ([0x31, 0x2e, 0x32] ++ 0x2f :: [0x75, 0x3d, 0x68, 0x3a, 0x2f, 0x2f, 0x78, 0x3a, 0x38, 0x30])  -- "1.2/u=h://x:80"
    = .ok ⟨[0x31, 0x2e, 0x32], [], false⟩ :=
  (hostpath_spelling [0x31, 0x2e, 0x32] [0x75, 0x3d, 0x68, 0x3a, 0x2f, 0x2f, 0x78, 0x3a, 0x38, 0x30]
    (by decide) (by decide) (by decide) (by decide)).1

/-- the bracketed spellings for IPv6 literals (colons, `%scope` allowed inside the brackets):
`[h6]:p`, `scheme://[h6]:p`, `[h6]:p/path`, `scheme://[h6]:p/path?query` and the pair agree -/
theorem spellings_agree_v6 (h6 scheme path : Bytes) (p : Nat) (hp : p < 65536)
    (hne : h6 ≠ []) (hs : (0x2f : UInt8) ∉ h6) (hl : hasLineBreak h6 = false)
    (hw : ∀ c ∈ scheme, isWord c = true) (hpath : hasLineBreak path = false) :
    let d := render p
    let want : Except Exn Dissect := .ok ⟨h6, d, true⟩
    dissect (0x5b :: (h6 ++ 0x5d :: 0x3a :: d)) = want ∧
    dissect (scheme ++ 0x3a :: 0x2f :: 0x2f :: (0x5b :: (h6 ++ 0x5d :: 0x3a :: d))) = want ∧
    dissect (0x5b :: (h6 ++ 0x5d :: 0x3a :: d) ++ 0x2f :: path) = want ∧
    dissect (scheme ++ 0x3a :: 0x2f :: 0x2f :: (0x5b :: (h6 ++ 0x5d :: 0x3a :: d) ++ 0x2f :: path)) = want ∧
    parseHostServ h6 d = .ok ⟨cstr h6, d, false⟩ :=
  Lem.spellings_agree_v6 h6 scheme path p hp hne hs hl hw hpath

/-- "to_string() ("h:p" / "[h]:p") parses back to an equal Address": the text composed by
`to_string` from the canonical host `h` and the decimal port is dissected back to exactly
`(h, render p)` - for IPv4-style hosts (no ':' '/', not starting with '[') in the plain form,
for any host without '/' and line terminators in the bracketed form.  With G1/G2 this is
`Address(to_string(a)) == a`. -/
theorem tostring_roundtrip (v6 : Bool) (h : Bytes) (p : Nat) (hp : p < 65536)
    (hs : (0x2f : UInt8) ∉ h) (hl : hasLineBreak h = false)
    (h4 : v6 = false → h ≠ [] ∧ (0x3a : UInt8) ∉ h ∧ h.head? ≠ some 0x5b) :
    dissect (toString v6 h (render p)) = .ok ⟨h, render p, true⟩ :=
  Lem.tostring_roundtrip v6 h p hp hs hl h4

/-- "A numeric port outside 0..65535 is rejected by an exception in every spelling, never silently
wrapped": for EVERY input - URI or pair, any bytes - if `getaddrinfo` is reached with a service
that `strtoul` reads completely (blanks, sign, digits to the end of the C string), the value it
reads is a port.  So every out-of-range numeric service was answered by an exception before the
lookup, in every position: after the colon, as the scheme, as the service argument with sign or
blanks ("-0" passes as 0, "-1" is rejected). -/
theorem no_silent_wrap : NoSilentWrap parseUri parseHostServ :=
  Lem.no_silent_wrap

/-- the strict form of the same statement, without `strtoul`'s modulo: the number as written
(sign applied) is itself in 0..65535 - so "-18446744073709551615" (which `strtoul` would read as 1)
is rejected as well, and a minus sign is only accepted in front of zero -/
theorem no_silent_wrap_strict : NoSilentWrapStrict parseUri parseHostServ :=
  Lem.no_silent_wrap_strict

/-- port fidelity under assumption G1: whatever resolver `gai` maps a completely-read numeric
service `v` to port `v mod 2^16`, the port of the result is `v` itself - nothing was wrapped -/
theorem port_not_wrapped_under_G1 (gai : GaiCall → Option Nat)
    (G1 : ∀ c v port, strtoulReads c.serv = some v → gai c = some port → port = v % 65536)
    (uri : Bytes) (c : GaiCall) (v port : Nat)
    (hok : parseUri uri = .ok c) (hv : strtoulReads c.serv = some v) (hg : gai c = some port) : port = v := by
  have := no_silent_wrap.1 uri c v hok hv
  rw [G1 c v port hv hg]
  omega

namespace C12
/-- the predicate `./check C12` evaluates on the implementation's observations (`Spec/Uri.lean`: `specStep`
in mode `.fidelity` - no numeric service outside 0..65535 reaches `getaddrinfo`; `Port()` is the numeric
service; `Service()` its decimal text; `to_string` is `host:serv` / `[host]:serv` and parses back to an equal
Address; every spelling of a literal endpoint is accepted, reports the ground-truth host / port / family and
all are equal) accepts every trace of the model - `parseUri` / `parseHostServ` / `Addr.toString` over a name
service `ns` - for EVERY `ns` that satisfies the assumptions G1 / G2 (`NameService.Lawful`; satisfiable:
`toyNS_lawful`) and every history of any length in the domain `histOk` (`uri` / `pair` with arbitrary byte
strings; literal groups of addresses the resolver knows by their numeric text, with `\w*` schemes and
single-line paths; service names the database maps to the port). -/
theorem spec_holds_on_model {α : Type} [DecidableEq α] (ns : NameService α) (L : ns.Lawful)
    (history : List (Op α)) (hok : histOk ns history = true) :
    ∃ s, C12.specRun {} (modelTrace ns history) = .ok s :=
  C12.model_satisfies_spec ns L history hok

/-- the hypotheses of `spec_holds_on_model` are satisfiable: a concrete resolver is lawful and a history with
every kind of operation is in the domain -/
example : toyNS.Lawful ∧ histOk toyNS Demo.history = true := ⟨toyNS_lawful, by decide⟩
end C12

/-- the pre-fix code (finding F5) did wrap: a numeric scheme is never checked -/
theorem legacy_wraps_scheme :
    ∃ c, Legacy.parseUri (ofChars "99999://localhost".toList) = .ok c ∧ strtoulReads c.serv = some 99999 :=
  ⟨⟨ofChars "localhost".toList, ofChars "99999".toList, false⟩, by decide, by decide⟩

/-- ... a service argument with a leading '+' escapes the `-?\d+` test -/
theorem legacy_wraps_plus :
    ∃ c, Legacy.parseHostServ (ofChars "localhost".toList) (ofChars "+99999".toList) = .ok c ∧
      strtoulReads c.serv = some 99999 :=
  ⟨⟨ofChars "localhost".toList, ofChars "+99999".toList, false⟩, by decide, by decide⟩

/-- ... and so does one with a leading blank -/
theorem legacy_wraps_blank :
    ∃ c, Legacy.parseHostServ (ofChars "localhost".toList) (ofChars " 99999".toList) = .ok c ∧
      strtoulReads c.serv = some 99999 :=
  ⟨⟨ofChars "localhost".toList, ofChars " 99999".toList, false⟩, by decide, by decide⟩

/-- proved negation of `no_silent_wrap` for the pre-fix counter-model -/
theorem legacy_wraps : ¬ NoSilentWrap Legacy.parseUri Legacy.parseHostServ := by
  intro h
  obtain ⟨c, hc, hv⟩ := legacy_wraps_scheme
  have := h.1 _ c 99999 hc hv
  omega

/-! ### non-vacuity / examples -/

example : dissect (ofChars "127.0.0.1:8080".toList) = .ok ⟨ofChars "127.0.0.1".toList, ofChars "8080".toList, true⟩ := by decide
example : dissect (toString true (ofChars "fe80::1%eth0".toList) (render 65535)) =
    .ok ⟨ofChars "fe80::1%eth0".toList, ofChars "65535".toList, true⟩ := by decide
example : render 0 = [0x30] := by decide
example : render 65535 = ofChars "65535".toList := by decide
example : parseUri (ofChars "65536://127.0.0.1".toList) = .error .runtimeError := by decide
example : parseHostServ (ofChars "127.0.0.1".toList) (ofChars "\t65537".toList) = .error .runtimeError := by decide
example : parseHostServ (ofChars "h".toList) (ofChars "-0".toList) = .ok ⟨[0x68], ofChars "-0".toList, false⟩ := by decide
example : parseHostServ (ofChars "h".toList) (ofChars "-1".toList) = .error .runtimeError := by decide
example : strtoulReads (ofChars "-1".toList) = some 18446744073709551615 := by decide
example : strtoulReads (ofChars " +80".toList) = some 80 := by decide
example : strtoulReads (ofChars "http".toList) = none := by decide
example : strtoulReads (ofChars "-18446744073709551615".toList) = some 1 := by decide
example : numericReads (ofChars "-18446744073709551615".toList) = some (true, 18446744073709551615) := by decide
example : parseHostServ [0x68] (ofChars "-18446744073709551615".toList) = .error .outOfRange := by decide

end SockModel.Uri

/-! ## Source-derived tie (DESIGN.md §0.7)

`SockModel.Gen.*` (Generated/Funcs.lean) is regenerated on every run by tools/cxx2lean.py from the clang AST of
the CURRENT /repo/src: the numeric-service range guard CheckServiceNumericOutOfRange (address_impl.cpp).
Each theorem below states that the generated function and the hand-written model function agree for ALL
arguments; a change of the C++ function changes the generated definition and the theorem stops checking. -/
namespace SockModel.Props.C12
open SockModel SockModel.Uri
theorem tie_rangeOf (neg : Bool) (m : Nat) (h : if neg then m ≤ 2 ^ 63 else m ≤ 2 ^ 63 - 1) :
    rangeOf neg m =
      if Gen.ServiceOutOfRange (if neg then -(m : Int) else (m : Int)) then .error .runtimeError else .ok () := by
  unfold rangeOf Gen.ServiceOutOfRange
  cases neg
  · have h' : m ≤ 2 ^ 63 - 1 := by simpa using h
    have h1 : ¬ m > 2 ^ 63 - 1 := by omega
    by_cases h2 : m > 65535
    · have : (m : Int) < 0 ∨ (m : Int) > 65535 := by omega
      simp [h1, h2, this]
    · simp [h1, h2] <;> omega
  · have h' : m ≤ 2 ^ 63 := by simpa using h
    have h1 : ¬ m > 2 ^ 63 := by omega
    by_cases h2 : m > 0
    · simp [h1, h2] <;> omega
    · simp [h1, h2]
end SockModel.Props.C12

import SockModel.Model.LocksLemmas
import SockModel.Spec.C04
/-!
# C08  Stop always ends Run

Same transition system.  `Stop()` from another thread is `uStopSet ; uStopBump`; `Stop()` from a
task, a handler or a signal handler on the driver thread is `dStop`, which is enabled at EVERY
point of the driver thread's program (a signal handler can interrupt it anywhere, and `Stop` takes
no mutex, so it cannot self-deadlock).
-/
namespace SockModel.Locks

/-- "makes the Run() in progress ... return after at most the step in progress": once a Stop has
completed (flag set and datagram sent), a `Run` that is inside a step before its poll returned
finds the pipe readable - the poll cannot block, whatever its timeout. -/
theorem stop_wakes_run {s : St} (h : Reach s) (hs : s.stop = true) (hdone : ∀ t, s.u t ≠ .stopBump) :
    (s.d = .atPoll true → 0 < s.pipe) ∧ (s.d = .inStep true → 0 < s.pipe) ∧ (s.d = .wantStep true → 0 < s.pipe) := by
  have hst := (inv_reach h).stopW hs hdone
  refine ⟨?_, ?_, ?_⟩ <;> intro hd <;> apply hst <;> rw [hd] <;> rfl

/-- ... and `Run` does not begin another step: with the flag set, the loop test can only leave. -/
theorem run_exits_on_stop {s s' : St} {b : Bool} (hd : s.d = .r0) (hs : s.stop = true) (tr : Tr s b s') :
    ∀ r, s'.d ≠ .wantStep r := by
  intro r
  cases tr <;> simp_all

/-- "Run() does not return without a Stop()", and the request is consumed: a `Run` leaves its loop
only by reading the flag as set, and leaves it cleared - "a stopped driver can be run again". -/
theorem run_needs_stop {s s' : St} {b : Bool} (hd : s.d = .r0) (tr : Tr s b s') (hd' : s'.d = .idle) :
    s.stop = true ∧ s'.stop = false := by
  cases tr <;> simp_all

/-- the flag is raised only by `Stop` -/
theorem only_stop_sets_flag {s s' : St} {b : Bool} (tr : Tr s b s') (h0 : s.stop = false) (h1 : s'.stop = true) :
    (s'.pipe = s.pipe + 1 ∧ s'.d = s.d) ∨ (∃ t, s.u t = .idle ∧ s'.u t = .stopBump) := by
  cases tr <;> simp_all
  · rename_i t hu; exact ⟨t, hu, by simp⟩

/-- "if none is in progress the next one": a Stop that arrives while no `Run` is in progress -
in particular after the thread meant to execute `Run` was started but before it entered `Run` -
is not lost: the flag stays set until a `Run` consumes it. -/
theorem stop_persists {s s' : St} {b : Bool} (tr : Tr s b s') (hs : s.stop = true) :
    s'.stop = true ∨ (s.d = .r0 ∧ s'.d = .idle) := by
  cases tr <;> simp_all

/-- the next `Run` after such a Stop returns without stepping at all -/
theorem stop_before_run_returns :
    ∃ s, Reach s ∧ s.d = .r0 ∧ s.stop = true ∧ s.stops = 1 ∧
      (∃ s', Tr s false s' ∧ s'.d = .idle ∧ s'.stop = false ∧ s'.runs = 1) := by
  have r1 := Reach.step Reach.init (Tr.uStopSet (t := 3) rfl)
  have r2 := Reach.step r1 (Tr.uStopBump (t := 3) (by simp))
  have r3 := Reach.step r2 (Tr.dRunEnter rfl)
  exact ⟨_, r3, rfl, rfl, rfl, _, Tr.dRunExit rfl rfl, rfl, rfl, rfl⟩

/-- "every Stop() call ... makes the Run() in progress, or if none is in progress the next one,
return": in every reachable state, if some Stop has completed or is between its flag store and its
datagram, then the flag is still up (so the current or next loop test of `Run` leaves) or a `Run`
has returned. -/
theorem stop_not_lost {s : St} (h : Reach s) (hstop : 0 < s.stops ∨ ∃ t, s.u t = .stopBump) :
    s.stop = true ∨ 0 < s.runs :=
  kept_reach h hstop

/-! ### at most the step in progress -/

def beginsRun (s s' : St) : Prop := s.d = .wantStep true ∧ s'.d = .inStep true

instance (s s' : St) : Decidable (beginsRun s s') := by unfold beginsRun; exact inferInstance

def DPc.runCanBegin : DPc → Nat
  | .wantStep true => 1
  | _ => 0

theorem runCanBegin_step {s s' : St} {b : Bool} (hs : s.stop = true) (tr : Tr s b s') :
    s'.d.runCanBegin + (if beginsRun s s' then 1 else 0) ≤ s.d.runCanBegin := by
  have same : ∀ {x : St}, x.d = s.d → x.d.runCanBegin + (if beginsRun s x then 1 else 0) ≤ s.d.runCanBegin := by
    intro x hd
    have : ¬ beginsRun s x := by rintro ⟨h1, h2⟩; rw [hd, h1] at h2; cases h2
    rw [if_neg this, hd]; omega
  cases tr with
  | dRunEnter hd => simp [beginsRun, DPc.runCanBegin, hd]
  | dRunExit hd _ => simp [beginsRun, DPc.runCanBegin, hd]
  | dRunGo hd hf => rw [hs] at hf; cases hf
  | dStepEnter hd => simp [beginsRun, DPc.runCanBegin, hd]
  | dLockStep hd hst =>
    rename_i r
    cases r with
    | true =>
      have hb : beginsRun s { s with step := .drv, d := .inStep true } := ⟨hd, rfl⟩
      simp [hb, DPc.runCanBegin, hd]
    | false => simp [beginsRun, DPc.runCanBegin, hd]
  | dToPoll hd => rename_i r; cases r <;> simp [beginsRun, DPc.runCanBegin, hd]
  | dPollPipe hd hp => rename_i r; cases r <;> simp [beginsRun, DPc.runCanBegin, hd]
  | dPollOther hd hp => rename_i r; cases r <;> simp [beginsRun, DPc.runCanBegin, hd]
  | dUnlockStep hd => rename_i r; cases r <;> simp [beginsRun, DPc.runCanBegin, hd]
  | dLockPause hd hp => rename_i r; cases r <;> simp [beginsRun, DPc.runCanBegin, hd]
  | dUnlockPause hd => rename_i r; cases r <;> simp [beginsRun, DPc.runCanBegin, hd]
  | dStop => exact same rfl
  | uTryOk _ _ => exact same rfl
  | uTryFail _ _ => exact same rfl
  | uLockPause _ _ => exact same rfl
  | uBump _ => exact same rfl
  | uLockStep _ _ => exact same rfl
  | uRelPause _ => exact same rfl
  | uUnlock _ => exact same rfl
  | uStopSet _ => exact same rfl
  | uStopBump _ => exact same rfl

def countRunBegins : St → List St → Nat
  | _, [] => 0
  | s, s' :: rest => (if beginsRun s s' then 1 else 0) + countRunBegins s' rest

/-- "makes the Run() in progress ... return after at most the step in progress, however the call
interleaves with the driver loop": along EVERY execution fragment during which the stop flag is up
(i.e. from the flag store of a Stop until some `Run` consumes it), `Run` begins AT MOST ONE step; and
by `stop_wakes_run` that step's poll cannot block once the Stop has sent its datagram. -/
theorem stop_at_most_one_step {s : St} (path : List St) (hp : Path s path)
    (hs : s.stop = true) (hall : ∀ x ∈ path, x.stop = true) : countRunBegins s path ≤ 1 := by
  suffices H : countRunBegins s path ≤ s.d.runCanBegin by
    have : s.d.runCanBegin ≤ 1 := by
      cases hd : s.d with
      | wantStep r => cases r <;> simp [DPc.runCanBegin]
      | _ => simp [DPc.runCanBegin]
    omega
  induction hp with
  | nil s => simp [countRunBegins]
  | @cons s0 s1 b rest tr _ ih =>
    have h1 := runCanBegin_step hs tr
    have := ih (hall s1 List.mem_cons_self) (fun x hx => hall x (List.mem_cons_of_mem _ hx))
    simp only [countRunBegins]
    omega

/-! ### the shipped `Run` (finding F1): the flag is cleared on entry -/

/-- reachability for the pre-fix driver: as `Reach`, plus `Run` entry clearing the flag -/
inductive LReach : St → Prop where
  | init : LReach init
  | step {s s' b} : LReach s → Tr s b s' → LReach s'
  | runEnterLegacy {s} : LReach s → s.d = .idle → LReach { s with stop := false, d := .r0 }

/-- with the shipped `Run`, a Stop that completes before `Run` is entered is lost: the driver ends up
blocked in an unlimited poll with an empty pipe, the flag down, every user thread idle, although one
Stop completed and no `Run` returned - `stop_not_lost` and `stop_wakes_run` fail for it. -/
theorem legacy_stop_lost :
    ∃ s, LReach s ∧ s.d = .atPoll true ∧ s.pipe = 0 ∧ s.stop = false ∧ s.stops = 1 ∧ s.runs = 0 ∧
      ∀ t, s.u t = .idle := by
  have r1 := LReach.step LReach.init (Tr.uStopSet (t := 0) rfl)
  have r2 := LReach.step r1 (Tr.uStopBump (t := 0) (by simp))
  have r3 := LReach.runEnterLegacy r2 rfl
  have r4 := LReach.step r3 (Tr.dRunGo rfl rfl)
  have r5 := LReach.step r4 (Tr.dLockStep (r := true) rfl rfl)
  have r6 := LReach.step r5 (Tr.dToPoll (r := true) rfl)
  have r7 := LReach.step r6 (Tr.dPollPipe (r := true) rfl (by simp [init]))
  have r8 := LReach.step r7 (Tr.dUnlockStep (r := true) rfl)
  have r9 := LReach.step r8 (Tr.dLockPause (r := true) rfl rfl)
  have r10 := LReach.step r9 (Tr.dUnlockPause (r := true) rfl)
  have r11 := LReach.step r10 (Tr.dRunGo rfl rfl)
  have r12 := LReach.step r11 (Tr.dLockStep (r := true) rfl rfl)
  have r13 := LReach.step r12 (Tr.dToPoll (r := true) rfl)
  refine ⟨_, r13, rfl, by simp [init], rfl, by simp [init], by simp [init], ?_⟩
  intro t
  by_cases ht : t = 0 <;> simp [St.setU, init, ht]

end SockModel.Locks

/-! ### the run-time oracle is a theorem of the model (`Spec/C04.lean`) -/
namespace SockModel.Locks.C08
open SockModel.Locks.Spec

/-- the predicate `./check C08` evaluates on the implementation's scheduler trace (`Spec/C04.lean`: `specStep`
in mode C08 = monitor `stepC`: "Run began n further steps after a Stop() had returned" for n > 1 - the
run-time form of `stop_at_most_one_step`; "Run() returned although no Stop() was ever called" -
`run_needs_stop`; "Run() did not return after Stop()" at the end of an execution; outcomes `deadlock`
(a Run that never returns), `stuck`, `crash` are failures) accepts every trace of the model, for every history
of any length: any number of Stops from any thread, from tasks / handlers / signal handlers (`dStop` at any
point of the driver thread), successive Runs, manual Steps in between.  No hypothesis. -/
theorem spec_holds_on_model (history : List MOp) :
    ∃ s, specRun ⟨false, false, true⟩ {} (modelTrace {} history) = .ok s :=
  model_satisfies_spec _ history

/-- non-vacuity: Stop before Run (the next Run returns without stepping), then a second Run stopped from a task -/
example : modelTrace {} [.tr (.uStopSet 1), .tr (.uStopBump 1), .tr .dRunEnter, .tr .dRunGo, .tr .dRunExit,
      .tr .dRunEnter, .tr .dRunGo, .tr .dLockStep, .tr .dStop, .tr .dToPoll, .tr .dPollPipe, .tr .dUnlockStep,
      .tr .dLockPause, .tr .dUnlockPause, .tr .dRunGo, .tr .dRunExit, .done] =
    [.ev 2 (.beginStop true), .ev 2 .bump, .ev 2 .endStop, .ev 0 .runEnter, .ev 0 .runExit, .ev 0 .runEnter,
     .ev 0 .lockStep, .ev 0 (.beginStop false), .ev 0 .bump, .ev 0 .endStop, .ev 0 .other, .ev 0 .other,
     .ev 0 .unlockStep, .ev 0 .other, .ev 0 .other, .ev 0 .runExit, .done] := by decide
/-- rejected: a Run that returns without a Stop; a Run that begins two steps after a Stop had returned -/
example : accepts ⟨false, false, true⟩ [.ev 0 .runEnter, .ev 0 .lockStep, .ev 0 .unlockStep, .ev 0 .runExit] = false := by
  decide
example : accepts ⟨false, false, true⟩
    [.ev 0 .runEnter, .ev 2 (.beginStop true), .ev 2 .bump, .ev 2 .endStop, .ev 0 .lockStep, .ev 0 .unlockStep,
     .ev 0 .lockStep] = false := by decide
example : accepts ⟨false, false, true⟩
    [.ev 0 .runEnter, .ev 2 (.beginStop true), .ev 2 .bump, .ev 2 .endStop, .ev 0 .lockStep, .ev 0 .unlockStep,
     .ev 0 .runExit] = true := by decide

end SockModel.Locks.C08
